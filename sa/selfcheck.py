"""setup_cmd: parse /repo, resolve anchors, print what the engine sees (no build step needed)."""

import sys

from . import AnalysisError


def main() -> int:
    try:
        from . import anchors
        from .index import Repo, public_functions, public_methods
        from .runner import RULES
        from . import rules  # noqa: F401

        repo = Repo()
        st = repo.stats()
        print(f"parsed {st['modules']} modules, {st['definitions']} definitions, {st['calls_total']} calls ({st['calls_resolved']} resolved to repo/external callees)")
        missing = []
        for k, v in vars(anchors).items():
            if k.isupper() and isinstance(v, str) and v.count(".") >= 2:
                if v not in repo.defs and v not in repo.modules:
                    missing.append(v)
        if missing:
            print("ANALYSIS-ERROR: anchors not found: " + ", ".join(missing))
            return 2
        print(f"public functions: {len(public_functions(repo))}, public methods: {len(public_methods(repo))}")
        print(f"rules registered: {len(RULES)}")
        for rid, s in RULES.items():
            print(f"  {rid:<20} props={','.join(s.props):<24} floor={s.floor} tier={s.tier}")
        return 0
    except AnalysisError as e:
        print(f"ANALYSIS-ERROR: {e}")
        return 2


if __name__ == "__main__":
    sys.exit(main())
