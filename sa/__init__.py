"""Static-analysis machinery for cubed (see /verif/DESIGN.md).

Nothing in this package imports or executes code from /repo: every verdict is
computed from the source text with ``ast``.
"""

import os

REPO_ROOT = os.environ.get("VERIF_REPO_ROOT", "/repo")
PKG = "cubed"
VERIF_ROOT = os.path.dirname(os.path.dirname(os.path.abspath(__file__)))


class AnalysisError(Exception):
    """The checker no longer understands the code (anchor vanished, unknown form).

    Converted to exit code 2 by the CLI: never a VIOLATION, never a silent pass.
    """
