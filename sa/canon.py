"""Normal form applied to every module right after parsing (component A').

The rules are written against one spelling of a few constructs; code that spells them
differently but means the same is rewritten to that spelling first, so that a refactoring
which does not change behaviour does not change a verdict either.  Positions are kept (a
rewritten node keeps the line of the node it replaces); reported source text is the normal
form.  Nothing here is evaluated — the rewrites are equivalences of the Python semantics
up to evaluation order of side-effect-free operands, which no rule depends on.

  N1  if not C: A else: B          ->  if C: B else: A
  N2  K <op> e   (K a constant)    ->  e <mirrored op> K
      a > b, a >= b (no constant)  ->  b < a, b <= a
      a == b, a != b (no constant) ->  operands ordered by their name-erased text
  N3  t = E ; return t   (t assigned once, used once)   ->  return E
  N4  x = x <op> e   (x a plain name)                    ->  x <op>= e
  N5  if a: (if b: BODY)   (no else on either, nothing else in the outer body)  ->  if a and b: BODY
  N6  x: T = v   inside a function (x a plain name)        ->  x = v
  N7  opts = dict(a=x, …) / {"a": x, …} (assigned once, used once) ; f(…, **opts)  ->  f(…, a=x, …)
"""

from __future__ import annotations

import ast

MIRROR = {ast.Lt: ast.Gt, ast.Gt: ast.Lt, ast.LtE: ast.GtE, ast.GtE: ast.LtE, ast.Eq: ast.Eq, ast.NotEq: ast.NotEq}


def _erased(e: ast.AST) -> str:
    import copy

    e = copy.deepcopy(e)
    for n in ast.walk(e):
        if isinstance(n, ast.Name):
            n.id = "_"
    try:
        return ast.unparse(e)
    except Exception:  # noqa: BLE001
        return ast.dump(e)


def _is_const(e: ast.AST) -> bool:
    if isinstance(e, ast.Constant):
        return True
    if isinstance(e, ast.UnaryOp) and isinstance(e.op, ast.USub) and isinstance(e.operand, ast.Constant):
        return True
    return False


class _Canon(ast.NodeTransformer):
    def visit_If(self, node: ast.If):
        self.generic_visit(node)
        while not node.orelse and len(node.body) == 1 and isinstance(node.body[0], ast.If) and not node.body[0].orelse:
            inner = node.body[0]
            vals = (node.test.values if isinstance(node.test, ast.BoolOp) and isinstance(node.test.op, ast.And) else [node.test]) + (
                inner.test.values if isinstance(inner.test, ast.BoolOp) and isinstance(inner.test.op, ast.And) else [inner.test]
            )
            node.test = ast.copy_location(ast.BoolOp(op=ast.And(), values=list(vals)), node.test)
            node.body = inner.body
        if node.orelse and isinstance(node.test, ast.UnaryOp) and isinstance(node.test.op, ast.Not):
            node.test = node.test.operand
            node.body, node.orelse = node.orelse, node.body
        return node

    def visit_Assign(self, node: ast.Assign):
        self.generic_visit(node)
        t = node.targets[0] if len(node.targets) == 1 else None
        v = node.value
        if isinstance(t, ast.Name) and isinstance(v, ast.BinOp) and isinstance(v.left, ast.Name) and v.left.id == t.id:
            return ast.copy_location(ast.AugAssign(target=t, op=v.op, value=v.right), node)
        return node

    def visit_IfExp(self, node: ast.IfExp):
        self.generic_visit(node)
        if isinstance(node.test, ast.UnaryOp) and isinstance(node.test.op, ast.Not):
            node.test = node.test.operand
            node.body, node.orelse = node.orelse, node.body
        return node

    def visit_Compare(self, node: ast.Compare):
        self.generic_visit(node)
        if len(node.ops) != 1 or type(node.ops[0]) not in MIRROR:
            return node
        a, b, op = node.left, node.comparators[0], type(node.ops[0])
        swap = False
        if _is_const(a) and not _is_const(b):
            swap = True
        elif not _is_const(a) and not _is_const(b):
            if op in (ast.Gt, ast.GtE):
                swap = True
            elif op in (ast.Eq, ast.NotEq) and _erased(b) < _erased(a):
                swap = True
        if swap:
            node.left, node.comparators[0] = b, a
            node.ops = [MIRROR[op]()]
        return node

    def _block(self, stmts: list, fn_counts) -> list:
        out: list = []
        i = 0
        while i < len(stmts):
            st = stmts[i]
            nxt = stmts[i + 1] if i + 1 < len(stmts) else None
            if (
                isinstance(st, ast.Assign)
                and len(st.targets) == 1
                and isinstance(st.targets[0], ast.Name)
                and isinstance(nxt, ast.Return)
                and isinstance(nxt.value, ast.Name)
                and nxt.value.id == st.targets[0].id
                and fn_counts is not None
                and fn_counts.get(st.targets[0].id) == (1, 1)
            ):
                r = ast.Return(value=st.value)
                ast.copy_location(r, st)
                r.end_lineno = getattr(nxt, "end_lineno", None)
                out.append(r)
                i += 2
                continue
            out.append(st)
            i += 1
        return out

    def _fix_blocks(self, node, counts):
        for fld in ("body", "orelse", "finalbody"):
            b = getattr(node, fld, None)
            if isinstance(b, list) and b and isinstance(b[0], ast.stmt):
                setattr(node, fld, self._block(b, counts))
        for h in getattr(node, "handlers", []) or []:
            h.body = self._block(h.body, counts)

    def visit_FunctionDef(self, node):
        self.generic_visit(node)
        # N6: annotated assignments to plain local names (class bodies are not descended into
        # here: dataclass fields keep their annotations)
        stack_ = [node]
        while stack_:
            x = stack_.pop()
            for fld in ("body", "orelse", "finalbody"):
                b = getattr(x, fld, None)
                if isinstance(b, list) and b and isinstance(b[0], ast.stmt):
                    for i, st in enumerate(b):
                        if isinstance(st, ast.AnnAssign) and isinstance(st.target, ast.Name) and st.value is not None:
                            b[i] = ast.copy_location(ast.Assign(targets=[st.target], value=st.value), st)
            for h in getattr(x, "handlers", []) or []:
                stack_.append(h)
            for c in ast.iter_child_nodes(x):
                if isinstance(c, (ast.FunctionDef, ast.AsyncFunctionDef, ast.ClassDef, ast.Lambda)):
                    continue
                if isinstance(c, (ast.stmt, ast.match_case)):
                    stack_.append(c)
        # (stores, loads) per name in this function, nested scopes included (conservative)
        counts: dict[str, tuple[int, int]] = {}
        for n in ast.walk(node):
            if isinstance(n, ast.Name):
                s, l = counts.get(n.id, (0, 0))
                counts[n.id] = (s + 1, l) if isinstance(n.ctx, ast.Store) else (s, l + 1)
        for n in ast.walk(node):
            if isinstance(n, (ast.Global, ast.Nonlocal)):
                for nm in n.names:
                    counts[nm] = (99, 99)
        self._expand_kwargs_dicts(node, counts)
        stack = [node]
        while stack:
            x = stack.pop()
            self._fix_blocks(x, counts)
            for c in ast.iter_child_nodes(x):
                if isinstance(c, (ast.FunctionDef, ast.AsyncFunctionDef, ast.ClassDef, ast.Lambda)):
                    continue
                if isinstance(c, (ast.stmt, ast.ExceptHandler, ast.match_case)):
                    stack.append(c)
        return node

    def _expand_kwargs_dicts(self, fn, counts) -> None:
        """N7: opts = dict(a=x, b=y) / {"a": x, "b": y}, assigned once and used once, as
        f(..., **opts) later in the same function  ->  f(..., a=x, b=y)"""

        def own_stmt_lists(x):
            for fld in ("body", "orelse", "finalbody"):
                b = getattr(x, fld, None)
                if isinstance(b, list) and b and isinstance(b[0], ast.stmt):
                    yield b
            for h in getattr(x, "handlers", []) or []:
                yield h.body

        def walk_scope(x):
            """nodes of this function, not of nested scopes"""
            for c in ast.iter_child_nodes(x):
                if isinstance(c, (ast.FunctionDef, ast.AsyncFunctionDef, ast.ClassDef, ast.Lambda)):
                    continue
                yield c
                yield from walk_scope(c)

        lists = []
        stack = [fn]
        while stack:
            x = stack.pop()
            for b in own_stmt_lists(x):
                lists.append(b)
                for st in b:
                    if not isinstance(st, (ast.FunctionDef, ast.AsyncFunctionDef, ast.ClassDef)):
                        stack.append(st)
        calls = [c for c in walk_scope(fn) if isinstance(c, ast.Call)]
        for b in lists:
            for i, st in enumerate(list(b)):
                if not (isinstance(st, ast.Assign) and len(st.targets) == 1 and isinstance(st.targets[0], ast.Name)):
                    continue
                name = st.targets[0].id
                if counts.get(name) != (1, 1):
                    continue
                v = st.value
                kws = None
                if isinstance(v, ast.Call) and isinstance(v.func, ast.Name) and v.func.id == "dict" and not v.args and v.keywords and all(k.arg is not None for k in v.keywords):
                    kws = [(k.arg, k.value) for k in v.keywords]
                elif isinstance(v, ast.Dict) and v.keys and all(isinstance(k, ast.Constant) and isinstance(k.value, str) and k.value.isidentifier() for k in v.keys):
                    kws = [(k.value, x) for k, x in zip(v.keys, v.values)]
                if kws is None:
                    continue
                users = [c for c in calls if any(k.arg is None and isinstance(k.value, ast.Name) and k.value.id == name for k in c.keywords)]
                if len(users) != 1 or getattr(users[0], "lineno", 0) <= getattr(st, "lineno", 0):
                    continue
                c = users[0]
                if {a for a, _ in kws} & {k.arg for k in c.keywords if k.arg}:
                    continue
                new_kw = []
                for k in c.keywords:
                    if k.arg is None and isinstance(k.value, ast.Name) and k.value.id == name:
                        for a, x in kws:
                            nk = ast.keyword(arg=a, value=x)
                            ast.copy_location(nk, x)
                            new_kw.append(nk)
                    else:
                        new_kw.append(k)
                c.keywords = new_kw
                idx = [j for j, y in enumerate(b) if y is st][0]
                if len(b) == 1:
                    b[idx] = ast.copy_location(ast.Pass(), st)
                else:
                    del b[idx]
                counts[name] = (0, 0)

    visit_AsyncFunctionDef = visit_FunctionDef


def canonicalise(tree: ast.Module) -> ast.Module:
    tree = _Canon().visit(tree)
    ast.fix_missing_locations(tree)
    return tree
