"""Small AST predicates shared by the rules."""

from __future__ import annotations

import ast
from typing import Callable, Iterator

from .index import Def, Repo, attr_chain, walk_own


def unparse(n: ast.AST | None, limit: int = 90) -> str:
    if n is None:
        return "<none>"
    s = ast.unparse(n).replace("\n", " ")
    return s if len(s) <= limit else s[: limit - 3] + "..."


def calls(d: Def) -> Iterator[ast.Call]:
    for n in d.own_nodes():
        if isinstance(n, ast.Call):
            yield n


def attr_names(e: ast.AST) -> set[str]:
    return {n.attr for n in ast.walk(e) if isinstance(n, ast.Attribute)}


def subscript_keys(e: ast.AST) -> set[str]:
    """String constants used as subscript keys or in `in` tests / .get() calls."""
    out = set()
    for n in ast.walk(e):
        if isinstance(n, ast.Subscript) and isinstance(n.slice, ast.Constant) and isinstance(n.slice.value, str):
            out.add(n.slice.value)
        elif isinstance(n, ast.Compare) and isinstance(n.left, ast.Constant) and isinstance(n.left.value, str):
            if any(isinstance(o, (ast.In, ast.NotIn)) for o in n.ops):
                out.add(n.left.value)
        elif isinstance(n, ast.Call) and isinstance(n.func, ast.Attribute) and n.func.attr in ("get", "pop", "setdefault"):
            if n.args and isinstance(n.args[0], ast.Constant) and isinstance(n.args[0].value, str):
                out.add(n.args[0].value)
    return out


def mentions(e: ast.AST, pred: Callable[[ast.AST], bool]) -> bool:
    return any(pred(n) for n in ast.walk(e))


def mentions_attr(e: ast.AST, *attrs: str) -> bool:
    return any(isinstance(n, ast.Attribute) and n.attr in attrs for n in ast.walk(e))


def mentions_name(e: ast.AST, *names: str) -> bool:
    return any(isinstance(n, ast.Name) and n.id in names for n in ast.walk(e))


def nonempty_polarity(test: ast.AST, is_x: Callable[[ast.AST], bool]) -> bool | None:
    """For a test over a collection-valued expression X (recognised by ``is_x``): return
    True if ``test`` is true exactly when X is non-empty, False if true exactly when X is
    empty, None if the form is not understood."""
    if is_x(test):
        return True
    if isinstance(test, ast.UnaryOp) and isinstance(test.op, ast.Not):
        p = nonempty_polarity(test.operand, is_x)
        return None if p is None else not p
    if isinstance(test, ast.Call) and isinstance(test.func, ast.Name) and test.func.id == "bool" and test.args:
        return nonempty_polarity(test.args[0], is_x)
    if isinstance(test, ast.Compare) and len(test.ops) == 1:
        l, op, r = test.left, test.ops[0], test.comparators[0]

        def is_len(e):
            return isinstance(e, ast.Call) and isinstance(e.func, ast.Name) and e.func.id == "len" and e.args and is_x(e.args[0])

        def const(e):
            return e.value if isinstance(e, ast.Constant) and isinstance(e.value, int) and not isinstance(e.value, bool) else None

        if is_len(l) and const(r) is not None:
            c = const(r)
            if isinstance(op, ast.Gt) and c == 0:
                return True
            if isinstance(op, ast.GtE) and c == 1:
                return True
            if isinstance(op, ast.NotEq) and c == 0:
                return True
            if isinstance(op, ast.Eq) and c == 0:
                return False
            if isinstance(op, ast.Lt) and c == 1:
                return False
            if isinstance(op, ast.LtE) and c == 0:
                return False
            return None
        if is_len(r) and const(l) is not None:
            c = const(l)
            if isinstance(op, ast.Lt) and c == 0:
                return True
            if isinstance(op, ast.LtE) and c == 1:
                return True
            if isinstance(op, ast.NotEq) and c == 0:
                return True
            if isinstance(op, ast.Eq) and c == 0:
                return False
            return None
        # X != [] / X == []
        if is_x(l) and isinstance(r, (ast.List, ast.Tuple)) and not r.elts:
            if isinstance(op, ast.NotEq):
                return True
            if isinstance(op, ast.Eq):
                return False
    return None


def is_self_attr(e: ast.AST, *attrs: str) -> bool:
    return (
        isinstance(e, ast.Attribute)
        and isinstance(e.value, ast.Name)
        and e.value.id == "self"
        and (not attrs or e.attr in attrs)
    )


def property_return_expr(repo: Repo, cls: Def, name: str) -> ast.AST | None:
    """If ``name`` is a property of ``cls`` whose body is a single return, the returned
    expression."""
    d = repo.class_attr(cls, name)
    if d is None or d.kind != "func":
        return None
    if not any(x in ("property", "cached_property", "functools.cached_property") for x in d.decorators()):
        return None
    rets = [n for n in d.own_nodes() if isinstance(n, ast.Return)]
    if len(rets) == 1 and rets[0].value is not None:
        return rets[0].value
    return None


def compare_norm(c: ast.Compare) -> tuple[str, ast.AST, ast.AST] | None:
    """Normalise a single comparison to (op, left, right) with op in {'>','>=','==','!='}
    by swapping sides for < and <=."""
    if len(c.ops) != 1:
        return None
    l, op, r = c.left, c.ops[0], c.comparators[0]
    if isinstance(op, ast.Gt):
        return (">", l, r)
    if isinstance(op, ast.GtE):
        return (">=", l, r)
    if isinstance(op, ast.Lt):
        return (">", r, l)
    if isinstance(op, ast.LtE):
        return (">=", r, l)
    if isinstance(op, ast.Eq):
        return ("==", l, r)
    if isinstance(op, ast.NotEq):
        return ("!=", l, r)
    return None


def kwarg(call: ast.Call, name: str) -> ast.AST | None:
    for k in call.keywords:
        if k.arg == name:
            return k.value
    return None


def has_star_kwargs(call: ast.Call) -> bool:
    return any(k.arg is None for k in call.keywords)


def stmt_of(d: Def, node: ast.AST) -> ast.stmt | None:
    """Innermost simple statement (or compound header) in d's own body containing node."""
    from .cfg import cfg_of

    c = cfg_of(d)
    if c.has(node):
        return c.nodes[c.node_of(node)].stmt
    return None


def parent_map(root: ast.AST) -> dict[int, ast.AST]:
    pm = {}
    for n in ast.walk(root):
        for ch in ast.iter_child_nodes(n):
            pm[id(ch)] = n
    return pm


def enclosing_tests(func_node: ast.AST, stmt: ast.AST) -> list[tuple[ast.AST, bool]]:
    """(test, polarity) of every `if`/`while` that syntactically encloses `stmt` inside
    `func_node`, outermost first: polarity True when `stmt` sits in the body, False in the
    else part.  Unlike path facts, this is *direct* control: an earlier `if c: raise` does not
    make (c, False) a guard of everything after it."""
    out: list[tuple[ast.AST, bool]] = []

    def find(node, acc):
        for fld in ("body", "orelse", "finalbody"):
            b = getattr(node, fld, None)
            if not (isinstance(b, list) and b and isinstance(b[0], ast.stmt)):
                continue
            for st in b:
                acc2 = acc
                if isinstance(node, (ast.If, ast.While)) and fld in ("body", "orelse"):
                    acc2 = acc + [(node.test, fld == "body")]
                if st is stmt:
                    out.extend(acc2)
                    return True
                if isinstance(st, (ast.FunctionDef, ast.AsyncFunctionDef, ast.ClassDef)):
                    continue
                if find(st, acc2 if isinstance(node, (ast.If, ast.While)) and fld in ("body", "orelse") else acc):
                    return True
        for h in getattr(node, "handlers", []) or []:
            if find(h, acc):
                return True
        return False

    find(func_node, [])
    return out


def kwarg_via(fl, call: ast.Call, name: str, at: int) -> ast.AST | None:
    """keyword argument `name` of `call`, also when it travels in a dict built just for the
    call: f(**opts) with opts = dict(name=…, …) / {"name": …, …} (single definition)"""
    v = kwarg(call, name)
    if v is not None:
        return v
    for k in call.keywords:
        if k.arg is None and isinstance(k.value, ast.Name):
            ds = fl.rdefs(k.value.id, at)
            if len(ds) != 1 or ds[0].value is None:
                continue
            d = ds[0].value
            if isinstance(d, ast.Call) and isinstance(d.func, ast.Name) and d.func.id == "dict" and not d.args:
                for kk in d.keywords:
                    if kk.arg == name:
                        return kk.value
            if isinstance(d, ast.Dict):
                for kk, vv in zip(d.keys, d.values):
                    if isinstance(kk, ast.Constant) and kk.value == name:
                        return vv
    return None
