"""Regenerate /verif/MANIFEST.json from sa.props (keeps the manifest valid at all times)."""

import json
import os

from . import VERIF_ROOT
from .props import CLAIMED, NOT_APPLICABLE, PROPS

ALL = [f"C{i:02d}" for i in range(1, 21)]


def build() -> dict:
    checks = []
    for p in CLAIMED:
        m = PROPS[p]
        checks.append(
            {
                "property_id": p,
                "quick_cmd": f"/venv/bin/python -m sa.check {p} --tier quick",
                "thorough_cmd": f"/venv/bin/python -m sa.check {p} --tier thorough",
                "evidence_file": f"/verif/evidence/{p}.json",
                "replay_cmd_template": "/venv/bin/python -m sa.check --replay {path}",
                "engine": "sa",
                "level_claimed": {"category": "other", "text": m["text"], "design_ref": m["design"]},
                "level_note": m["note"],
                "technique": m["technique"],
            }
        )
    na = []
    for p in ALL:
        if p in CLAIMED:
            continue
        na.append({"property_id": p, "reason": NOT_APPLICABLE.get(p, "static check not built yet in this session (planned, see DESIGN.md §4); not claimed until it exists")})
    return {
        "version": 1,
        "setup_cmd": "/venv/bin/python -m sa.selfcheck",
        "hooks": {
            "guard": "CUBED_VERIF_SA",
            "enable": "no source hooks are needed: every check parses /repo's working tree with ast (the guard variable is unused)",
            "baseline_off_cmd": "cd /repo && /venv/bin/python -m pytest -ra -q -p no:cacheprovider --timeout=900 --continue-on-collection-errors",
            "source_commits": [],
            "add_only": True,
        },
        "engines": [
            {
                "name": "sa",
                "path": "/verif/sa",
                "serves_properties": CLAIMED,
                "kind_free_text": "repository-specific static analysis over Python ast: index + call resolver, statement CFG with dominators, reaching definitions/origins, effect summaries with constant propagation, linear forms; rule runner with floors, exceptions and known findings",
            }
        ],
        "checks": checks,
        "not_applicable": na,
        "notes": "Exit 0 held / only known findings; 1 VIOLATION; 2 ANALYSIS-ERROR (anchor vanished: never a silent pass). Known findings: /verif/known_findings.json. fix: commits in /repo are listed in known_findings.json as status=fixed.",
    }


def main():
    m = build()
    with open(os.path.join(VERIF_ROOT, "MANIFEST.json"), "w") as f:
        json.dump(m, f, indent=1)
    print(f"MANIFEST.json: {len(m['checks'])} checks, {len(m['not_applicable'])} not applicable")


if __name__ == "__main__":
    main()
