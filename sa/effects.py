"""Component D: primitive effect sites and transitive effect summaries.

An *effect* is (kind, primitive site, call chain, guards).  Guards are atomic conditions
over parameters of the function that owns the summary; they are evaluated when a caller
passes a literal (constant propagation through parameter forwarding), renamed when the
caller forwards its own parameter, and dropped (conservatively: the effect stays) otherwise.
"""

from __future__ import annotations

import ast
from dataclasses import dataclass

from .cfg import cfg_of
from .flow import flow_of
from .index import Def, Repo, Target, attr_chain, walk_own

EXEC = "EXEC"
STORE_CREATE = "STORE_CREATE"
STORE_WRITE = "STORE_WRITE"
STORE_READ = "STORE_READ"
STORE_DELETE = "STORE_DELETE"
FS_WRITE = "FS_WRITE"
GLOBAL_WRITE = "GLOBAL_WRITE"
NONDET = "NONDET"
SPAWN = "SPAWN"
DEFERRED = "DEFERRED"

READ_MODES = ("r", "r+")

EXT_CREATE = {
    "zarr.create_array",
    "zarr.create",
    "zarr.create_group",
    "zarr.save",
    "zarr.save_array",
    "zarr.save_group",
    "zarr.array",
    "zarr.empty",
    "zarr.zeros",
    "zarr.ones",
    "zarr.full",
    "zarr.group",
}
EXT_OPEN_MODE = {"zarr.open", "zarr.open_group", "zarr.open_array_with_mode"}
EXT_READ = {"zarr.open_array", "zarr.open_consolidated"}
EXT_DELETE = {"shutil.rmtree", "os.remove", "os.unlink", "os.rmdir", "os.removedirs"}
METHOD_CREATE = {"create_array", "create_group", "require_array", "require_group"}
METHOD_WRITE = {"set_basic_selection", "set_orthogonal_selection", "set_coordinate_selection", "set_block_selection", "set_mask_selection"}
METHOD_DELETE = {"rmtree", "delete_dir", "erase"}
EXT_NONDET = {
    "time.time",
    "time.monotonic",
    "time.perf_counter",
    "time.time_ns",
    "datetime.datetime.now",
    "datetime.datetime.utcnow",
    "datetime.datetime.today",
    "uuid.uuid1",
    "uuid.uuid4",
    "os.getpid",
    "os.urandom",
    "builtin:id",
    "secrets.token_hex",
    "secrets.token_bytes",
}
EXT_NONDET_PREFIX = ("random.", "numpy.random.")
NONDET_OK = {
    # explicit-generator constructors: deterministic given their seed argument
    "numpy.random.Generator",
    "numpy.random.Philox",
    "numpy.random.PCG64",
    "numpy.random.SeedSequence",
    "numpy.random.default_rng",
    "random.Random",
}
EXT_SPAWN = {
    "asyncio.create_task",
    "asyncio.ensure_future",
    "asyncio.gather",
    "threading.Thread",
    "multiprocessing.Process",
    "concurrent.futures.ThreadPoolExecutor",
    "concurrent.futures.ProcessPoolExecutor",
}
EXT_FS_WRITE_METHODS = {"mkdir", "write_text", "write_bytes", "to_csv", "savefig", "write_image"}


@dataclass(frozen=True)
class Guard:
    param: str
    op: str  # truthy | in | eq | isnone
    consts: tuple
    pol: bool

    def eval(self, v) -> bool:
        if self.op == "truthy":
            r = bool(v)
        elif self.op == "in":
            r = v in self.consts
        elif self.op == "eq":
            r = v == self.consts[0]
        elif self.op == "isnone":
            r = v is None
        else:  # pragma: no cover
            return True
        return r == self.pol

    def __str__(self):
        neg = "" if self.pol else "not "
        if self.op == "truthy":
            return f"{neg}{self.param}"
        if self.op == "isnone":
            return f"{self.param} is {neg}None"
        return f"{neg}({self.param} {self.op} {self.consts})"


def _contradictory(gs) -> bool:
    """two guards over one parameter that no value satisfies: a positive membership/equality
    whose every allowed value is excluded by a negative one (or by another positive one)"""
    by: dict[str, list] = {}
    for g in gs:
        by.setdefault(g.param, []).append(g)
    for p, lst in by.items():
        pos = [set(g.consts) if g.op == "in" else {g.consts[0]} for g in lst if g.op in ("in", "eq") and g.pol]
        neg = [set(g.consts) if g.op == "in" else {g.consts[0]} for g in lst if g.op in ("in", "eq") and not g.pol]
        if pos:
            allowed = set.intersection(*pos)
            for n_ in neg:
                allowed = allowed - n_
            if any(g.op == "isnone" and g.pol for g in lst):
                allowed = {v for v in allowed if v is None}
            if not allowed:
                return True
    return False


@dataclass(frozen=True)
class Effect:
    kind: str
    site: str  # relpath:line
    owner: str  # qualname of the function containing the primitive site
    what: str  # the primitive (callee / form)
    guards: frozenset  # of Guard (over the summary owner's params)
    raw: tuple  # unparsed non-atomic conditions guarding the site, innermost function only
    chain: tuple  # call chain (qualnames) from summary owner to primitive owner

    def ident(self):
        return (self.kind, self.site, self.what, self.guards)


_UNKNOWN = object()


def atomic_guard(test: ast.AST, pol: bool, params: set[str]) -> list[Guard] | None:
    """Translate (test, polarity) into atomic guards over ``params``; None if not atomic."""
    if isinstance(test, ast.UnaryOp) and isinstance(test.op, ast.Not):
        return atomic_guard(test.operand, not pol, params)
    if isinstance(test, ast.Name) and test.id in params:
        return [Guard(test.id, "truthy", (), pol)]
    if isinstance(test, ast.BoolOp):
        # (A and B) true → both; (A or B) false → both negated
        if (isinstance(test.op, ast.And) and pol) or (isinstance(test.op, ast.Or) and not pol):
            out = []
            for v in test.values:
                g = atomic_guard(v, pol, params)
                if g:
                    out += g
            return out or None
        return None
    if isinstance(test, ast.Compare) and len(test.ops) == 1:
        l, op, r = test.left, test.ops[0], test.comparators[0]
        if isinstance(l, ast.Name) and l.id in params:
            if isinstance(op, (ast.In, ast.NotIn)) and isinstance(r, (ast.Tuple, ast.List, ast.Set)):
                cs = []
                for e in r.elts:
                    if not isinstance(e, ast.Constant):
                        return None
                    cs.append(e.value)
                return [Guard(l.id, "in", tuple(cs), pol == isinstance(op, ast.In))]
            if isinstance(op, (ast.Eq, ast.NotEq)) and isinstance(r, ast.Constant):
                return [Guard(l.id, "eq", (r.value,), pol == isinstance(op, ast.Eq))]
            if isinstance(op, (ast.Is, ast.IsNot)) and isinstance(r, ast.Constant) and r.value is None:
                return [Guard(l.id, "isnone", (), pol == isinstance(op, ast.Is))]
    return None


def expr_guards(d: Def, node: ast.AST) -> list[tuple[ast.AST, bool]]:
    """Conditions from enclosing IfExp / short-circuit / comprehension-if inside the
    statement that contains ``node``."""
    out: list[tuple[ast.AST, bool]] = []

    def visit(cur, acc):
        if cur is node:
            out.extend(acc)
            return True
        if isinstance(cur, (ast.FunctionDef, ast.AsyncFunctionDef, ast.Lambda, ast.ClassDef)) and cur is not d.node:
            return False
        if isinstance(cur, ast.IfExp):
            if visit(cur.test, acc):
                return True
            if visit(cur.body, acc + [(cur.test, True)]):
                return True
            return visit(cur.orelse, acc + [(cur.test, False)])
        if isinstance(cur, ast.BoolOp):
            pol = isinstance(cur.op, ast.And)
            a = list(acc)
            for v in cur.values:
                if visit(v, a):
                    return True
                a = a + [(v, pol)]
            return False
        if isinstance(cur, (ast.ListComp, ast.SetComp, ast.GeneratorExp, ast.DictComp)):
            a = list(acc)
            for g in cur.generators:
                if visit(g.iter, a):
                    return True
                for c in g.ifs:
                    if visit(c, a):
                        return True
                    a = a + [(c, True)]
            elts = [cur.key, cur.value] if isinstance(cur, ast.DictComp) else [cur.elt]
            for e in elts:
                if visit(e, a):
                    return True
            return False
        for ch in ast.iter_child_nodes(cur):
            if visit(ch, acc):
                return True
        return False

    return out if visit_stmt(d, node, visit) else []


def visit_stmt(d: Def, node: ast.AST, visit) -> bool:
    c = cfg_of(d)
    if not c.has(node):
        return False
    st = c.nodes[c.node_of(node)].stmt
    if st is None:
        return False
    # only the header expressions of compound statements
    if isinstance(st, (ast.If, ast.While)):
        roots = [st.test]
    elif isinstance(st, (ast.For, ast.AsyncFor)):
        roots = [st.iter]
    elif isinstance(st, (ast.With, ast.AsyncWith)):
        roots = [i.context_expr for i in st.items]
    elif isinstance(st, ast.ExceptHandler):
        roots = [st.type] if st.type else []
    else:
        roots = [st]
    for r in roots:
        if visit(r, []):
            return True
    return False


class Effects:
    def __init__(self, repo: Repo):
        self.repo = repo
        self.own: dict[str, list[Effect]] = {}
        self.calls: dict[str, list[tuple[ast.Call, list[Target], frozenset, tuple]]] = {}
        self.summary: dict[str, dict] = {}
        self.pcalls: dict[str, set[str]] = {}
        self._build_own()
        self._solve()

    # -- guards at a site ----------------------------------------------------------
    def site_guards(self, d: Def, node: ast.AST) -> tuple[frozenset, tuple]:
        c = cfg_of(d)
        params = set(d.params)
        fl = flow_of(self.repo, d)
        # a param that is reassigned anywhere is not safe to use in guards
        stable = {
            p
            for p in params
            if not any(s.name == p and s.kind != "param" for ss in fl.sites.values() for s in ss)
        }
        conds: list[tuple[ast.AST, bool]] = []
        if c.has(node):
            nid = c.node_of(node)
            conds += [(t, pol) for t, pol, _ in c.branch_conditions(nid)]
        conds += expr_guards(d, node)
        gs: set[Guard] = set()
        raw: list[str] = []
        for t, pol in conds:
            g = atomic_guard(t, pol, stable)
            if g:
                gs.update(g)
            else:
                raw.append(("" if pol else "not ") + ast.unparse(t))
        return frozenset(gs), tuple(raw)

    # -- primitive sites -------------------------------------------------------------
    def _prim(self, d: Def, node: ast.AST, kind: str, what: str) -> Effect:
        g, raw = self.site_guards(d, node)
        ln = getattr(node, "lineno", d.lineno)
        return Effect(kind, f"{d.module.relpath}:{ln}", d.qual, what, g, tuple(f"{d.qual}: {c}" for c in raw), ())

    def _mode_of_call(self, call: ast.Call, d: Def, pos: int | None):
        for k in call.keywords:
            if k.arg == "mode":
                return self.const_or_param(k.value, d)
        if pos is not None and len(call.args) > pos and not any(isinstance(a, ast.Starred) for a in call.args[: pos + 1]):
            return self.const_or_param(call.args[pos], d)
        return ("absent",)

    def const_or_param(self, e: ast.AST, d: Def):
        if isinstance(e, ast.Constant):
            return ("const", e.value)
        if isinstance(e, ast.Name):
            fl = flow_of(self.repo, d)
            c = cfg_of(d)
            try:
                sites = fl.rdefs(e.id, c.node_of(e))
            except Exception:
                return ("unknown",)
            if len(sites) == 1:
                s = sites[0]
                if s.kind == "param":
                    if not any(x.name == e.id and x.kind != "param" for ss in fl.sites.values() for x in ss):
                        return ("param", e.id)
                elif s.kind == "assign" and isinstance(s.value, ast.Constant):
                    return ("const", s.value.value)
        return ("unknown",)

    def _build_own(self) -> None:
        repo = self.repo
        for d in repo.functions():
            effs: list[Effect] = []
            calls = []
            pcs: set[str] = set()
            globs: set[str] = set()
            for n in d.own_nodes():
                if isinstance(n, ast.Global):
                    globs.update(n.names)
            for n in d.own_nodes():
                if isinstance(n, ast.Call):
                    ts = repo.resolve_call(n, d, d.module)
                    g, raw = self.site_guards(d, n)
                    calls.append((n, ts, g, raw))
                    for t in ts:
                        self._classify_call(d, n, t, effs, pcs)
                elif isinstance(n, (ast.Assign, ast.AugAssign, ast.AnnAssign)):
                    tgts = n.targets if isinstance(n, ast.Assign) else [n.target]
                    for t in tgts:
                        for sub in ast.walk(t):
                            if isinstance(sub, ast.Name) and isinstance(sub.ctx, ast.Store) and sub.id in globs:
                                effs.append(self._prim(d, n, GLOBAL_WRITE, f"global {sub.id}"))
                        if isinstance(t, ast.Subscript):
                            ch = attr_chain(t.value)
                            if ch:
                                rt = repo.resolve_name_chain(ch, d, d.module)
                                if rt.kind == "ext" and rt.ref == "os.environ":
                                    effs.append(self._prim(d, n, GLOBAL_WRITE, "os.environ[...]"))
                            if self._is_store_array(d, t.value):
                                effs.append(self._prim(d, n, STORE_WRITE, f"{ast.unparse(t.value)}[...] = ..."))
                        if isinstance(t, ast.Attribute):
                            ch = attr_chain(t.value)
                            if ch:
                                rt = repo.resolve_name_chain(ch, d, d.module)
                                if rt.kind in ("module", "ext"):
                                    effs.append(self._prim(d, n, GLOBAL_WRITE, f"{rt.qual}.{t.attr} = ..."))
            self.own[d.qual] = effs
            self.calls[d.qual] = calls
            self.pcalls[d.qual] = pcs

    def _is_store_array(self, d: Def, recv: ast.AST) -> bool:
        fl = flow_of(self.repo, d)
        try:
            rs = fl.roots(recv)
        except Exception:
            return False
        for r in rs:
            if r.startswith("call:") or r.startswith("mcall("):
                tail = r.split(":")[-1] if r.startswith("call:") else r.rsplit(").", 1)[-1]
                last = tail.split(".")[-1]
                if last in ("open", "open_if_lazy_zarr_array", "open_storage_array", "open_array", "create_array", "open_zarr_v3_array", "create"):
                    return True
        return False

    def _classify_call(self, d: Def, n: ast.Call, t: Target, effs: list, pcs: set) -> None:
        q = t.qual
        if t.kind == "param":
            pcs.add(str(t.ref))
            return
        if t.kind == "def":
            df: Def = t.ref
            if df.name == "execute_dag" and df.cls is not None:
                e = self._prim(d, n, EXEC, "<executor>.execute_dag")
                if not any(x.ident() == e.ident() for x in effs):
                    effs.append(e)
            return
        if t.kind in ("ext", "builtin"):
            if q in EXT_CREATE:
                effs.append(self._prim(d, n, STORE_CREATE, q))
            elif q in EXT_OPEN_MODE:
                m = self._mode_of_call(n, d, None)
                if not (m[0] == "const" and m[1] in READ_MODES):
                    e = self._prim(d, n, STORE_CREATE, f"{q}(mode={m})")
                    if m[0] == "param":
                        e = Effect(e.kind, e.site, e.owner, e.what, e.guards | {Guard(m[1], "in", READ_MODES, False)}, e.raw, e.chain)
                    effs.append(e)
                else:
                    effs.append(self._prim(d, n, STORE_READ, q))
            elif q in EXT_READ:
                effs.append(self._prim(d, n, STORE_READ, q))
            elif q in EXT_DELETE:
                effs.append(self._prim(d, n, STORE_DELETE, q))
            elif q in EXT_NONDET or (
                q.startswith(EXT_NONDET_PREFIX) and q not in NONDET_OK
            ):
                effs.append(self._prim(d, n, NONDET, q))
            elif t.kind == "builtin" and q == "id":
                effs.append(self._prim(d, n, NONDET, "id()"))
            elif q in EXT_SPAWN:
                effs.append(self._prim(d, n, SPAWN, q))
            elif q == "atexit.register":
                effs.append(self._prim(d, n, DEFERRED, q))
            elif t.kind == "builtin" and q == "open":
                m = None
                if len(n.args) >= 2 and isinstance(n.args[1], ast.Constant):
                    m = n.args[1].value
                for k in n.keywords:
                    if k.arg == "mode" and isinstance(k.value, ast.Constant):
                        m = k.value.value
                if m and any(c in str(m) for c in "wax+"):
                    effs.append(self._prim(d, n, FS_WRITE, f"open(mode={m!r})"))
            elif q.split(".")[-1] in EXT_FS_WRITE_METHODS or q in ("os.makedirs", "os.mkdir"):
                effs.append(self._prim(d, n, FS_WRITE, q))
            return
        if t.kind in ("method", "method?"):
            name = str(t.ref)
            if name in METHOD_CREATE:
                effs.append(self._prim(d, n, STORE_CREATE, f".{name}()"))
            elif name in METHOD_WRITE:
                effs.append(self._prim(d, n, STORE_WRITE, f".{name}()"))
            elif name in METHOD_DELETE:
                effs.append(self._prim(d, n, STORE_DELETE, f".{name}()"))
            elif name in EXT_FS_WRITE_METHODS or name == "write":
                effs.append(self._prim(d, n, FS_WRITE, f".{name}()"))
            elif name == "submit":
                effs.append(self._prim(d, n, SPAWN, ".submit()"))

    # -- parameter binding -------------------------------------------------------------
    def bind(self, call: ast.Call, callee: Def, caller: Def) -> dict[str, tuple]:
        """callee param → ('const', v) | ('param', caller_param) | ('expr', ast) | ('unknown',)"""
        out: dict[str, tuple] = {}
        pos = callee.positional_params
        is_method = callee.cls is not None and pos and pos[0] in ("self", "cls")
        decos = callee.decorators()
        if is_method and "staticmethod" not in decos:
            # bound call: receiver is the first positional
            if isinstance(call.func, ast.Attribute):
                pos = pos[1:]
            elif callee.name == "__init__":
                pos = pos[1:]
        star = False
        for i, a in enumerate(call.args):
            if isinstance(a, ast.Starred):
                star = True
                break
            if i < len(pos):
                out[pos[i]] = self._argval(a, caller)
        for k in call.keywords:
            if k.arg is None:
                star = True
                continue
            if k.arg in callee.params:
                out[k.arg] = self._argval(k.value, caller)
        # defaults
        a = callee.node.args
        pp = a.posonlyargs + a.args
        for p, dv in zip(pp[len(pp) - len(a.defaults) :], a.defaults):
            if p.arg not in out:
                out[p.arg] = ("unknown",) if star else self._constval(dv)
        for p, dv in zip(a.kwonlyargs, a.kw_defaults):
            if p.arg not in out and dv is not None:
                out[p.arg] = ("unknown",) if star else self._constval(dv)
        return out

    def _constval(self, e: ast.AST) -> tuple:
        if isinstance(e, ast.Constant):
            return ("const", e.value)
        return ("unknown",)

    def _argval(self, e: ast.AST, caller: Def) -> tuple:
        v = self.const_or_param(e, caller)
        if v[0] in ("const", "param"):
            return v
        return ("expr", e)

    # -- summaries --------------------------------------------------------------------
    def _is_leaf(self, df: Def) -> bool:
        # executors are opaque after the entry call
        return df.name == "execute_dag" and df.cls is not None

    def _translate(self, e: Effect, binding: dict, call_guards: frozenset, call_raw: tuple, callee_q: str, caller_q: str = "") -> Effect | None:
        gs = set(call_guards)
        for g in e.guards:
            b = binding.get(g.param, ("unknown",))
            if b[0] == "const":
                if not g.eval(b[1]):
                    return None
            elif b[0] == "param":
                gs.add(Guard(b[1], g.op, g.consts, g.pol))
            # unknown/expr: drop the guard, keep the effect (conservative)
        if _contradictory(gs):
            return None  # e.g. `mode in ("r", "r+")` established by the caller, effect only for other modes
        chain = (callee_q,) + e.chain
        if len(chain) > 14:
            chain = chain[:14]
        return Effect(e.kind, e.site, e.owner, e.what, frozenset(gs), e.raw, chain)

    def _solve(self) -> None:
        repo = self.repo
        funcs = {d.qual: d for d in repo.functions()}
        summ: dict[str, dict] = {q: {e.ident(): e for e in self.own[q]} for q in funcs}
        psumm: dict[str, set[tuple]] = {q: set() for q in funcs}  # (param-ref, guards)
        for q in funcs:
            for pr in self.pcalls[q]:
                psumm[q].add(pr)
        # callers map for worklist
        callers: dict[str, set[str]] = {}
        for q, calls in self.calls.items():
            for n, ts, g, raw in calls:
                for t in ts:
                    if t.kind == "def" and t.ref.is_func:
                        callers.setdefault(t.qual, set()).add(q)
        work = list(funcs)
        inwork = set(work)
        it = 0
        while work:
            q = work.pop()
            inwork.discard(q)
            it += 1
            if it > 200000:
                raise RuntimeError("effect fixpoint did not converge")
            d = funcs[q]
            cur = summ[q]
            changed = False
            for n, ts, g, raw in self.calls[q]:
                for t in ts:
                    if t.kind != "def" or not t.ref.is_func:
                        continue
                    callee: Def = t.ref
                    if self._is_leaf(callee):
                        continue
                    binding = self.bind(n, callee, d)
                    for e in list(summ.get(callee.qual, {}).values()):
                        ne = self._translate(e, binding, g, raw, callee.qual, q)
                        if ne is None:
                            continue
                        k = ne.ident()
                        if k not in cur:
                            cur[k] = ne
                            changed = True
                    # higher-order: callee calls one of its params → bind to our argument
                    for pr in list(psumm.get(callee.qual, ())):
                        owner, _, pname = pr.rpartition(":")
                        if owner != callee.qual:
                            continue
                        b = binding.get(pname)
                        if b is None:
                            continue
                        if b[0] == "param":
                            npr = f"{q}:{b[1]}"
                            if npr not in psumm[q]:
                                psumm[q].add(npr)
                                changed = True
                        elif b[0] == "expr":
                            for ft in repo.resolve_value(b[1], d, d.module):
                                if ft.kind == "def" and ft.ref.is_func and not self._is_leaf(ft.ref):
                                    for e in list(summ.get(ft.qual, {}).values()):
                                        ne = self._translate(e, {}, g, raw, f"{callee.qual}→{ft.qual}", q)
                                        if ne is not None and ne.ident() not in cur:
                                            cur[ne.ident()] = ne
                                            changed = True
            if changed:
                for c in callers.get(q, ()):
                    if c not in inwork:
                        work.append(c)
                        inwork.add(c)
        self.summary = summ
        self.param_calls = psumm

    def of(self, d: Def | str) -> list[Effect]:
        q = d.qual if isinstance(d, Def) else d
        return list(self.summary.get(q, {}).values())

    def kinds(self, d: Def | str, *kinds: str) -> list[Effect]:
        return [e for e in self.of(d) if e.kind in kinds]


_eff_cache: dict[int, Effects] = {}


def effects_of(repo: Repo) -> Effects:
    e = _eff_cache.get(id(repo))
    if e is None:
        e = Effects(repo)
        _eff_cache[id(repo)] = e
    return e


def fmt_effect(e: Effect) -> str:
    g = " & ".join(sorted(str(x) for x in e.guards))
    r = " & ".join(e.raw)
    cond = " if " + " & ".join(x for x in (g, r) if x) if (g or r) else ""
    ch = " → ".join(e.chain + (e.owner,)) if e.chain else e.owner
    return f"{e.kind} {e.what} at {e.site} via {ch}{cond}"
