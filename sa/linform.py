"""Component E: polynomial (linear-form) abstract interpretation of small arithmetic code.

Values are polynomials with rational coefficients over *symbols*.  A symbol is a dotted
name (``reserved_mem``, ``buffer_copies.read``) or ``Σ<sym>`` for "sum over the elements of
sequence <sym>" produced by a ``for x in xs: acc += f(x)`` accumulation or ``sum(genexp)``.
Used to compare coefficients against the property text — never source text.
"""

from __future__ import annotations

import ast
from dataclasses import dataclass, field
from fractions import Fraction

from .index import attr_chain


@dataclass
class Poly:
    # monomial (sorted tuple of symbols) -> coefficient ; () is the constant term
    terms: dict[tuple, Fraction] = field(default_factory=dict)

    @staticmethod
    def of_const(c) -> "Poly":
        return Poly({(): Fraction(c)}) if c != 0 else Poly({})

    @staticmethod
    def sym(s: str) -> "Poly":
        return Poly({(s,): Fraction(1)})

    def __add__(self, o: "Poly") -> "Poly":
        t = dict(self.terms)
        for k, v in o.terms.items():
            t[k] = t.get(k, 0) + v
            if t[k] == 0:
                del t[k]
        return Poly(t)

    def __neg__(self) -> "Poly":
        return Poly({k: -v for k, v in self.terms.items()})

    def __sub__(self, o: "Poly") -> "Poly":
        return self + (-o)

    def __mul__(self, o: "Poly") -> "Poly":
        t: dict[tuple, Fraction] = {}
        for k1, v1 in self.terms.items():
            for k2, v2 in o.terms.items():
                k = tuple(sorted(k1 + k2))
                t[k] = t.get(k, 0) + v1 * v2
                if t[k] == 0:
                    del t[k]
        return Poly(t)

    @property
    def const(self) -> Fraction:
        return self.terms.get((), Fraction(0))

    @property
    def coeffs(self) -> dict[tuple, Fraction]:
        return {k: v for k, v in self.terms.items() if k != ()}

    def coef(self, *syms: str) -> Fraction:
        return self.terms.get(tuple(sorted(syms)), Fraction(0))

    def subst_sum(self, var: str, seq: str) -> "Poly":
        """Replace per-element symbol ``var`` by Σ over ``seq`` (loop accumulation)."""
        t = {}
        for k, v in self.terms.items():
            nk = tuple(sorted(f"Σ{seq}" if s == var else s for s in k))
            t[nk] = t.get(nk, 0) + v
        return Poly(t)

    def symbols(self) -> set[str]:
        return {s for k in self.terms for s in k}

    def __str__(self):
        if not self.terms:
            return "0"
        parts = []
        for k, v in sorted(self.terms.items()):
            m = "*".join(k)
            parts.append(f"{v}" if not k else (m if v == 1 else f"{v}*{m}"))
        return " + ".join(parts)


class NotLinear(Exception):
    pass


def poly_of(e: ast.AST, env: dict[str, Poly] | None = None) -> Poly:
    env = env or {}
    if isinstance(e, ast.Constant) and isinstance(e.value, (int, float)) and not isinstance(e.value, bool):
        return Poly.of_const(Fraction(e.value).limit_denominator())
    if isinstance(e, ast.Name):
        return env.get(e.id, Poly.sym(e.id))
    if isinstance(e, ast.Attribute):
        c = attr_chain(e)
        if c:
            head = c.split(".")[0]
            if head in env and env[head].terms and len(env[head].terms) == 1:
                # alias of a symbol
                (k, v), = env[head].terms.items()
                if len(k) == 1 and v == 1:
                    return Poly.sym(k[0] + c[len(head):])
            return Poly.sym(c)
    if isinstance(e, ast.BinOp):
        l, r = poly_of(e.left, env), poly_of(e.right, env)
        if isinstance(e.op, ast.Add):
            return l + r
        if isinstance(e.op, ast.Sub):
            return l - r
        if isinstance(e.op, ast.Mult):
            return l * r
        raise NotLinear(ast.unparse(e))
    if isinstance(e, ast.UnaryOp) and isinstance(e.op, ast.USub):
        return -poly_of(e.operand, env)
    if isinstance(e, ast.UnaryOp) and isinstance(e.op, ast.UAdd):
        return poly_of(e.operand, env)
    if isinstance(e, ast.Call) and isinstance(e.func, ast.Name) and e.func.id == "sum" and len(e.args) == 1:
        a = e.args[0]
        if isinstance(a, (ast.GeneratorExp, ast.ListComp)) and len(a.generators) == 1 and not a.generators[0].ifs:
            g = a.generators[0]
            if isinstance(g.target, ast.Name):
                seq = attr_chain(g.iter) or ast.unparse(g.iter)
                inner = poly_of(a.elt, {**env, g.target.id: Poly.sym(g.target.id)})
                if g.target.id in env:
                    pass
                return inner.subst_sum(g.target.id, seq)
        c = attr_chain(a)
        if c:
            return Poly.sym(f"Σ{c}")
    if isinstance(e, ast.Call) and isinstance(e.func, ast.Name) and e.func.id == "int" and len(e.args) == 1:
        return poly_of(e.args[0], env)
    raise NotLinear(ast.unparse(e))


def linear_of(e: ast.AST) -> Poly | None:
    try:
        return poly_of(e)
    except NotLinear:
        return None


def eval_function(fn: ast.FunctionDef) -> Poly:
    """Abstractly execute a straight-line arithmetic function (assignments, ``+=``, simple
    ``for x in xs:`` accumulation loops, one return) and return the returned polynomial.
    Raises NotLinear for any statement form outside that fragment."""
    env: dict[str, Poly] = {}

    def run(stmts, env, loop_var=None, seq=None):
        for st in stmts:
            if isinstance(st, ast.Expr) and isinstance(st.value, ast.Constant):
                continue  # docstring
            if isinstance(st, ast.Assign) and len(st.targets) == 1 and isinstance(st.targets[0], ast.Name):
                env[st.targets[0].id] = poly_of(st.value, env)
            elif isinstance(st, ast.AnnAssign) and isinstance(st.target, ast.Name) and st.value is not None:
                env[st.target.id] = poly_of(st.value, env)
            elif isinstance(st, ast.AugAssign) and isinstance(st.target, ast.Name):
                cur = env.get(st.target.id, Poly.sym(st.target.id))
                v = poly_of(st.value, env)
                if isinstance(st.op, ast.Add):
                    env[st.target.id] = cur + v
                elif isinstance(st.op, ast.Sub):
                    env[st.target.id] = cur - v
                elif isinstance(st.op, ast.Mult):
                    env[st.target.id] = cur * v
                else:
                    raise NotLinear(ast.unparse(st))
            elif isinstance(st, ast.For) and isinstance(st.target, ast.Name) and not st.orelse:
                seqname = attr_chain(st.iter)
                if seqname is None:
                    raise NotLinear(ast.unparse(st.iter))
                var = st.target.id
                before = dict(env)
                body_env = dict(env)
                body_env[var] = Poly.sym(var)
                run(st.body, body_env)
                # each accumulator's per-iteration increment, summed over the sequence
                for k, v in body_env.items():
                    if k == var:
                        continue
                    base = before.get(k, Poly.sym(k))
                    delta = v - base
                    if delta.terms:
                        if k not in before:
                            raise NotLinear(f"loop defines non-accumulator {k}")
                        env[k] = base + delta.subst_sum(var, seqname)
            elif isinstance(st, ast.Return) and st.value is not None:
                return poly_of(st.value, env)
            elif isinstance(st, ast.Pass):
                continue
            elif isinstance(st, ast.Expr) and (isinstance(st.value, ast.Constant) or (isinstance(st.value, ast.Call) and not any(isinstance(x, ast.Name) and x.id in env for x in ast.walk(st.value.func)))):
                # a docstring, or a call for effect on something that is not one of the
                # function's own values (logging, warnings): no influence on the result
                continue
            else:
                raise NotLinear(f"unsupported statement: {ast.unparse(st)[:60]}")
        return None

    r = run(fn.body, env)
    if r is None:
        raise NotLinear("no return reached")
    return r
