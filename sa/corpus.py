"""Self-test corpus: mutants (must be reported by the named rule) and benign edits (every
rule of the listed properties must stay silent).  Each entry is a list of textual
replacements on a scratch copy; an entry whose anchor snippet is absent from the current
tree is skipped and counted (it never influences a verdict about /repo)."""

from __future__ import annotations

CORPUS: list[dict] = []


def mutant(id, props, rule, *edits, also=()):
    CORPUS.append({"id": id, "kind": "mutant", "props": list(props), "rule": rule, "edits": list(edits), "also": tuple(also)})


def repair(id, props, finding, *edits):
    """A repaired scratch copy: the known finding must no longer be reported (and nothing new)."""
    CORPUS.append({"id": id, "kind": "repair", "props": list(props), "rule": None, "finding": finding, "edits": list(edits)})


def benign(id, props, *edits):
    CORPUS.append({"id": id, "kind": "benign", "props": list(props), "rule": None, "edits": list(edits)})


PLAN = "cubed/core/plan.py"
PBW = "cubed/primitive/blockwise.py"
ARRAY = "cubed/core/array.py"
OPS = "cubed/core/ops.py"
OPT = "cubed/core/optimization.py"
ASYNC = "cubed/runtime/asyncio.py"
LOCAL = "cubed/runtime/executors/local.py"
PIPE = "cubed/runtime/pipeline.py"

# ---------------------------------------------------------------- C04
mutant("M30-delete-validate", ["C04"], "ADMIT-ORDER-1", (PLAN, "        self.validate()\n\n        dag = self.dag\n", "        dag = self.dag\n"))
mutant(
    "M31-validate-after-execute",
    ["C04"],
    "ADMIT-ORDER-1",
    (PLAN, "        self.validate()\n\n        dag = self.dag\n", "        dag = self.dag\n"),
    (PLAN, "            **kwargs,\n        )\n        if callbacks is not None:\n            event = ComputeEndEvent", "            **kwargs,\n        )\n        self.validate()\n        if callbacks is not None:\n            event = ComputeEndEvent"),
)
mutant(
    "M32-validate-returns",
    ["C04"],
    "ADMIT-ORDER-1",
    (PLAN, "            op_name, op = self._ops_exceeding_memory[0]  # Report worst offender\n            raise ValueError(", "            op_name, op = self._ops_exceeding_memory[0]  # Report worst offender\n            return ValueError("),
)
mutant("M33a-ge", ["C04"], "ADMIT-COLLECT-1", (PLAN, "if op.projected_mem > op.allowed_mem:", "if op.projected_mem >= op.allowed_mem:"))
mutant("M33b-lt", ["C04"], "ADMIT-COLLECT-1", (PLAN, "if op.projected_mem > op.allowed_mem:", "if op.projected_mem < op.allowed_mem:"))
mutant("M33c-reserved", ["C04"], "ADMIT-COLLECT-1", (PLAN, "if op.projected_mem > op.allowed_mem:", "if op.projected_mem > op.allowed_mem + op.reserved_mem:"))
mutant(
    "M34-scan-early",
    ["C04"],
    "ADMIT-COLLECT-1",
    (PLAN, "        dag = dag.copy()\n        if callable(compile_function):", "        dag = dag.copy()\n        ops_exceeding_memory = self._find_ops_exceeding_memory(dag)\n        if callable(compile_function):"),
    (PLAN, "        dag = self._create_lazy_zarr_arrays(dag)\n        ops_exceeding_memory = self._find_ops_exceeding_memory(dag)\n", "        dag = self._create_lazy_zarr_arrays(dag)\n"),
)
mutant(
    "M34b-skip-create-arrays-op",
    ["C04"],
    "ADMIT-COLLECT-1",
    (PLAN, '            if "primitive_op" in d:\n                op = d["primitive_op"]\n                if op.projected_mem > op.allowed_mem:', '            if "primitive_op" in d and n != "create-arrays":\n                op = d["primitive_op"]\n                if op.projected_mem > op.allowed_mem:'),
)
mutant(
    "M35-compute-bypasses-execute",
    ["C04"],
    "ADMIT-ENTRY-1",
    (ARRAY, "    finalized_plan.execute(\n        executor=executor,\n        callbacks=all_callbacks,\n        resume=resume,\n        spec=spec,\n        **kwargs,\n    )", "    executor.execute_dag(\n        finalized_plan.dag,\n        callbacks=all_callbacks,\n        spec=spec,\n        **kwargs,\n    )"),
)
mutant(
    "M36-no-peak-test",
    ["C04"],
    "ADMIT-FUSEGUARD-1",
    (PBW, "        if peak_projected > primitive_op.allowed_mem:", "        if False and peak_projected > primitive_op.allowed_mem:"),
)
mutant(
    "M36b-peak-test-after-return",
    ["C04"],
    "ADMIT-FUSEGUARD-1",
    (PBW, "        peak_projected = peak_projected_mem(predecessor_primitive_ops)\n        if peak_projected > primitive_op.allowed_mem:", "        peak_projected = peak_projected_mem(predecessor_primitive_ops)\n        if max_total_num_input_blocks is not None and peak_projected > primitive_op.allowed_mem:"),
)
mutant(
    "M36c-validate-only-when-not-resume",
    ["C04"],
    "ADMIT-ORDER-1",
    (PLAN, "        self.validate()\n\n        dag = self.dag\n", "        if not resume:\n            self.validate()\n\n        dag = self.dag\n"),
)
benign(
    "B-validate-helper",
    ["C04"],
    (PLAN, "        self.validate()\n\n        dag = self.dag\n", "        self._admit()\n\n        dag = self.dag\n"),
    (PLAN, "    def validate(self) -> None:\n", "    def _admit(self) -> None:\n        self.validate()\n\n    def validate(self) -> None:\n"),
)
benign(
    "B-validate-len-style",
    ["C04"],
    (
        PLAN,
        """        if self._ops_exceeding_memory:
            op_name, op = self._ops_exceeding_memory[0]  # Report worst offender
            raise ValueError(
                f"Projected blockwise memory ({memory_repr(op.projected_mem)}) exceeds allowed_mem ({memory_repr(op.allowed_mem)}), "
                f"including reserved_mem ({memory_repr(op.reserved_mem)}) for {op_name}"
            )
""",
        """        if len(self._ops_exceeding_memory) == 0:
            return
        op_name, op = self._ops_exceeding_memory[0]  # Report worst offender
        raise ValueError(
            f"Projected blockwise memory ({memory_repr(op.projected_mem)}) exceeds allowed_mem ({memory_repr(op.allowed_mem)}), "
            f"including reserved_mem ({memory_repr(op.reserved_mem)}) for {op_name}"
        )
""",
    ),
)
benign(
    "B-predicate-flipped-sides",
    ["C04"],
    (PLAN, "if op.projected_mem > op.allowed_mem:", "if op.allowed_mem < op.projected_mem:"),
)
benign(
    "B-logging-before-validate",
    ["C04"],
    (PLAN, "        self.validate()\n\n        dag = self.dag\n", "        warnings.warn('executing')\n        self.validate()\n\n        dag = self.dag\n"),
)

# ---------------------------------------------------------------- C16 (+ C04 EFFECT-BUILD)
CREATION = "cubed/array_api/creation_functions.py"
MANIP = "cubed/array_api/manipulation_functions.py"
ZARR = "cubed/storage/zarr.py"

mutant(
    "M64-store-eager-outside-flag",
    ["C16", "C11"],
    "LAZY-ENTRY-1",
    (OPS, "    if compute:\n        compute_arrays(\n            *arrays, executor=executor, _return_in_memory_array=False, **kwargs\n        )\n    else:\n        return tuple(arrays)", "    compute_arrays(\n        *arrays, executor=executor, _return_in_memory_array=False, **kwargs\n    )\n    if not compute:\n        return tuple(arrays)"),
    also=("STORE-EAGER-1",),
)
mutant(
    "M74-lazy-zarr-array-created-eagerly",
    ["C16", "C04"],
    "LAZY-ENTRY-1",
    (ZARR, "    return LazyZarrArray(\n        store,\n        shape,\n        dtype,\n        chunks,\n        path=path,\n        **kwargs,\n    )", "    lza = LazyZarrArray(\n        store,\n        shape,\n        dtype,\n        chunks,\n        path=path,\n        **kwargs,\n    )\n    lza.create(mode=\"a\")\n    return lza"),
    also=("LAZY-CREATE-1",),
)
mutant(
    "M75-builder-computes-argument",
    ["C16"],
    "LAZY-ENTRY-1",
    (CREATION, "def empty_like(x, /, *, dtype=None, device=None, chunks=None, spec=None) -> \"Array\":\n", "def empty_like(x, /, *, dtype=None, device=None, chunks=None, spec=None) -> \"Array\":\n    x.compute()\n"),
)
mutant(
    "M75b-plan-runs-create-arrays",
    ["C16", "C04"],
    "LAZY-ENTRY-1",
    (PLAN, "        dag = self._create_lazy_zarr_arrays(dag)\n        ops_exceeding_memory", "        dag = self._create_lazy_zarr_arrays(dag)\n        for lza in [d['target'] for _, d in dag.nodes(data=True) if isinstance(d.get('target'), LazyZarrArray)]:\n            create_zarr_array(lza)\n        ops_exceeding_memory"),
    also=("LAZY-CREATE-1",),
)
mutant(
    "M75c-from-zarr-append-mode",
    ["C16"],
    "LAZY-CREATE-1",
    (OPS, "    target = open_storage_array(\n        store,\n        mode=\"r\",", "    target = open_storage_array(\n        store,\n        mode=\"a\","),
    also=("LAZY-ENTRY-1",),
)
mutant(
    "M75d-visualize-executes",
    ["C16"],
    "LAZY-ENTRY-1",
    (ARRAY, "    return finalized_plan.visualize(\n", "    finalized_plan.execute(executor=create_executor('single-threaded'))\n    return finalized_plan.visualize(\n"),
    also=("ADMIT-ENTRY-1",),
)
mutant(
    "M75e-index-computes-any-key",
    ["C16"],
    "LAZY-ENTRY-1",
    (
        "cubed/core/indexing.py",
        "        backend_array_to_numpy_array(dim_sel.compute())\n        if isinstance(dim_sel, CoreArray)\n        else dim_sel\n",
        "        backend_array_to_numpy_array(dim_sel.compute())\n        if hasattr(dim_sel, 'compute')\n        else dim_sel\n",
    ),
)
benign("B-from-zarr-rplus", ["C16", "C10"], (OPS, "    target = open_storage_array(\n        store,\n        mode=\"r\",", "    target = open_storage_array(\n        store,\n        mode=\"r+\","))
benign(
    "B-to-zarr-early-return",
    ["C16", "C11"],
    (OPS, "    out = _store_array(x, store, path=path, region=region)\n    if compute:\n        out.compute(executor=executor, _return_in_memory_array=False, **kwargs)\n    else:\n        return out", "    out = _store_array(x, store, path=path, region=region)\n    if not compute:\n        return out\n    out.compute(executor=executor, _return_in_memory_array=False, **kwargs)"),
)

# ---------------------------------------------------------------- C08
mutant("M-F3-rebind-start-times", ["C08"], "MAP-MONO-1", (ASYNC, "                start_times.update({f: t for f in new_tasks.keys()})", "                start_times = {f: t for f in new_tasks.keys()}"))
mutant("M-F4-no-superseded-check", ["C08", "C13"], "MAP-ONCE-1", (ASYNC, "            if task in superseded:\n                # the twin finished in the same round and was handled first\n                continue\n", ""))
mutant("M-F4b-superseded-never-filled", ["C08", "C13"], "MAP-ONCE-1", (ASYNC, "                    superseded.add(backup)\n", ""))
mutant("M52-refill-without-tasks", ["C08"], "MAP-PAIR-1", (ASYNC, "                tasks.update(new_tasks)\n", ""))
mutant("M52b-backup-without-start-time", ["C08"], "MAP-PAIR-1", (ASYNC, "                    start_times[new_task] = time.monotonic()\n", ""))
mutant(
    "M53-swallow-exception",
    ["C08"],
    "MAP-RAISE-1",
    (ASYNC, "                if backup:\n                    if not backup.done() or not backup.exception():\n                        continue\n                raise task.exception()  # type: ignore", "                continue"),
)
mutant(
    "M53b-suppress-without-twin-state",
    ["C08"],
    "MAP-RAISE-1",
    (ASYNC, "                if backup:\n                    if not backup.done() or not backup.exception():\n                        continue\n", "                if use_backups:\n                    continue\n"),
)
mutant(
    "M53c-raise-swallowed-by-try",
    ["C08"],
    "MAP-RAISE-1",
    (ASYNC, "                raise task.exception()  # type: ignore\n", "                try:\n                    raise task.exception()  # type: ignore\n                except Exception:\n                    pass\n"),
)
mutant("M54-no-twin-test", ["C08"], "MAP-BACKUP-1", (ASYNC, "                if task not in backups and should_launch_backup(", "                if should_launch_backup("))
mutant("M54b-one-direction", ["C08"], "MAP-BACKUP-1", (ASYNC, "                    backups[new_task] = task\n", ""))
mutant("M55a-attempts-off-by-one", ["C08"], "RETRY-1", (LOCAL, "stop=stop_after_attempt(retries + 1)", "stop=stop_after_attempt(retries)"))
mutant("M55b-no-reraise", ["C08"], "RETRY-1", (LOCAL, "Retrying(reraise=True,", "Retrying(reraise=False,"))
mutant("M55c-wrapper-not-submitted", ["C08"], "RETRY-1", (LOCAL, "        function = partial(retryer, function)\n", "        wrapped = partial(retryer, function)\n"))
mutant("M56-break-main-loop", ["C08", "C07"], "MAP-DRAIN-1", (ASYNC, "        if use_backups:\n            now = time.monotonic()", "        if not finished:\n            break\n        if use_backups:\n            now = time.monotonic()"))
mutant("M56b-yield-for-exception", ["C08"], "MAP-RAISE-1", (ASYNC, "            if task.exception():\n", "            if task.exception() and not return_stats:\n"))
benign("B-start-times-ior", ["C08"], (ASYNC, "                start_times.update({f: t for f in new_tasks.keys()})", "                start_times |= {f: t for f in new_tasks.keys()}"))
benign("B-start-times-merge-rebind", ["C08"], (ASYNC, "                start_times.update({f: t for f in new_tasks.keys()})", "                start_times = {**start_times, **{f: t for f in new_tasks.keys()}}"))
benign(
    "B-rename-locals-map",
    ["C08", "C07", "C13"],
    (ASYNC, "    backups: dict[asyncio.Future, asyncio.Future] = {}\n", "    backups: dict[asyncio.Future, asyncio.Future] = {}\n    logger_note = None\n"),
    (ASYNC, "        for task in finished:\n            if task in superseded:", "        for fut in finished:\n            task = fut\n            if task in superseded:"),
)
benign("B-retry-bound-commuted", ["C08"], (LOCAL, "stop=stop_after_attempt(retries + 1)", "stop=stop_after_attempt(1 + retries)"))

# ---------------------------------------------------------------- C13
mutant(
    "M69-end-callback-inside-result-loop",
    ["C13"],
    "EVENTS-1",
    (ASYNC, "                async for result, stats in streamer:\n                    handle_callbacks(callbacks, result, stats)\n            handle_operation_end_callbacks(callbacks, name)", "                async for result, stats in streamer:\n                    handle_callbacks(callbacks, result, stats)\n                    handle_operation_end_callbacks(callbacks, name)"),
)
mutant(
    "M70-start-after-task-loop",
    ["C13"],
    "EVENTS-1",
    (LOCAL, "        for name, node in visit_nodes(dag):\n            handle_operation_start_callbacks(callbacks, name)\n            pipeline: CubedPipeline = node[\"pipeline\"]", "        for name, node in visit_nodes(dag):\n            pipeline: CubedPipeline = node[\"pipeline\"]"),
    (LOCAL, "            handle_operation_end_callbacks(callbacks, name)\n\n\n@execution_timing", "            handle_operation_start_callbacks(callbacks, name)\n            handle_operation_end_callbacks(callbacks, name)\n\n\n@execution_timing"),
)
mutant(
    "M70b-gen-ends-only-last",
    ["C13"],
    "EVENTS-1",
    (ASYNC, "            for name in group_names:\n                handle_operation_end_callbacks(callbacks, name)", "            handle_operation_end_callbacks(callbacks, name)"),
)
mutant(
    "M70c-task-end-twice",
    ["C13"],
    "EVENTS-1",
    (ASYNC, "                async for result, stats in streamer:\n                    handle_callbacks(callbacks, result, stats)\n            handle_operation_end_callbacks(callbacks, name)", "                async for result, stats in streamer:\n                    handle_callbacks(callbacks, result, stats)\n                    handle_callbacks(callbacks, result, stats)\n            handle_operation_end_callbacks(callbacks, name)"),
)
mutant(
    "M70d-gen-start-conditional",
    ["C13"],
    "EVENTS-1",
    (ASYNC, "            for name in group_names:\n                handle_operation_start_callbacks(callbacks, name)", "            for name in group_names[:1]:\n                handle_operation_start_callbacks(callbacks, name)"),
)
mutant(
    "M70e-compute-end-before-execute",
    ["C13"],
    "EVENTS-1",
    (PLAN, "        executor.execute_dag(\n            dag,\n            compute_id=compute_id,\n            callbacks=callbacks,\n            spec=spec,\n            **kwargs,\n        )\n        if callbacks is not None:\n            event = ComputeEndEvent(compute_id, dag)\n            for callback in callbacks:\n                callback.on_compute_end(event)", "        if callbacks is not None:\n            event = ComputeEndEvent(compute_id, dag)\n            for callback in callbacks:\n                callback.on_compute_end(event)\n        executor.execute_dag(\n            dag,\n            compute_id=compute_id,\n            callbacks=callbacks,\n            spec=spec,\n            **kwargs,\n        )"),
)
mutant("M67-num-tasks-from-inputs", ["C13"], "COUNT-1", (PBW, "        num_tasks = math.prod(len(c) for c in chunks_normal)", "        num_tasks = math.prod(len(c) for c in arrays[0].chunks)"))
mutant("M67b-fuse-num-tasks-from-pred", ["C13", "C02"], "COUNT-1", (PBW, "    num_tasks = primitive_op.num_tasks\n\n    fused_pipeline", "    num_tasks = predecessor_primitive_ops[0].num_tasks\n\n    fused_pipeline"), also=("FUSE-PROV-1",))
mutant("M67c-create-arrays-count", ["C13"], "COUNT-1", (PLAN, "    num_tasks = len(lazy_zarr_arrays)\n", "    num_tasks = 1\n"))
mutant("M68-stats-skip-create-arrays", ["C13"], "STATS-1", (PLAN, "                if primitive_op is not None:\n                    # allowed mem is the same for all ops", "                if primitive_op is not None and name != \"create-arrays\":\n                    # allowed mem is the same for all ops"))
mutant("M68b-chunkkeys-drops-axis", ["C13", "C05"], "COUNT-1", (PBW, "            list, itertools.product(*[range(len(c)) for c in self.chunks_normal])\n        )", "            list, itertools.product(*[range(len(c)) for c in self.chunks_normal[1:]])\n        )"))
mutant("M68c-task-end-num-tasks", ["C13"], "EVENTS-1", (LOCAL, "event = TaskEndEvent(name=name, result=result)", "event = TaskEndEvent(name=name, result=result, num_tasks=2)"))
benign(
    "B-start-callback-earlier",
    ["C13", "C07"],
    (ASYNC, "            handle_operation_start_callbacks(callbacks, name)\n            st = pipeline_to_stream(\n                create_futures_func, name, node[\"pipeline\"], **kwargs\n            )", "            st = pipeline_to_stream(\n                create_futures_func, name, node[\"pipeline\"], **kwargs\n            )\n            handle_operation_start_callbacks(callbacks, name)"),
)
benign(
    "B-stats-get-style",
    ["C13"],
    (PLAN, "                primitive_op = node.get(\"primitive_op\", None)\n                if primitive_op is not None:", "                if \"primitive_op\" in node:\n                    primitive_op = node[\"primitive_op\"]"),
)

# ---------------------------------------------------------------- C07
mutant(
    "M47-streams-outside-generation-loop",
    ["C07"],
    "BARRIER-1",
    (ASYNC, "        for gen in visit_node_generations(dag):\n            # run pipelines in the same topological generation in parallel by merging their streams\n            streams = []\n", "        streams = []\n        for gen in visit_node_generations(dag):\n            # run pipelines in the same topological generation in parallel by merging their streams\n"),
)
mutant(
    "M47b-merge-all-generations",
    ["C07", "C13"],
    "BARRIER-1",
    (
        ASYNC,
        "            for name in group_names:\n                handle_operation_start_callbacks(callbacks, name)\n            merged_stream = stream.merge(*streams)\n            async with merged_stream.stream() as streamer:\n                async for result, stats in streamer:\n                    handle_callbacks(callbacks, result, stats)\n            for name in group_names:\n                handle_operation_end_callbacks(callbacks, name)",
        "            for name in group_names:\n                handle_operation_start_callbacks(callbacks, name)\n            all_streams.extend(streams)\n        merged_stream = stream.merge(*all_streams)\n        async with merged_stream.stream() as streamer:\n            async for result, stats in streamer:\n                handle_callbacks(callbacks, result, stats)",
    ),
    (ASYNC, "    else:\n        for gen in visit_node_generations(dag):", "    else:\n        all_streams = []\n        for gen in visit_node_generations(dag):"),
    also=("EVENTS-1",),
)
mutant("M48-iterate-dag-nodes", ["C07"], "BARRIER-SRC-1", (LOCAL, "        for name, node in visit_nodes(dag):\n            handle_operation_start_callbacks(callbacks, name)\n            pipeline: CubedPipeline", "        for name, node in dag.nodes(data=True):\n            handle_operation_start_callbacks(callbacks, name)\n            pipeline: CubedPipeline"), also=("BARRIER-1", "EVENTS-1"))
mutant(
    "M49-one-generation-of-everything",
    ["C07"],
    "BARRIER-SRC-1",
    (PIPE, "    for names in nx.topological_generations(dag):", "    for names in [list(dag.nodes)]:"),
)
mutant("M49b-visit-nodes-unsorted", ["C07"], "BARRIER-SRC-1", (PIPE, "    for name in list(nx.topological_sort(dag)):\n        if skip_node(name, dag, nodes):", "    for name in list(dag.nodes):\n        if skip_node(name, dag, nodes):"))
mutant("M50-barrier-edge-first-only", ["C07"], "CREATE-FIRST-1", (PLAN, "            for n in all_pipeline_nodes:\n                dag.add_edge(\"arrays\", n)", "            for n in all_pipeline_nodes[:1]:\n                dag.add_edge(\"arrays\", n)"))
mutant(
    "M50b-barrier-only-array-producers",
    ["C07"],
    "CREATE-FIRST-1",
    (PLAN, "            if \"primitive_op\" in d:\n                all_pipeline_nodes.append(n)", "            if \"primitive_op\" in d and d[\"primitive_op\"].target_array is not None:\n                all_pipeline_nodes.append(n)"),
)
mutant("M51-primitive-op-without-pipeline", ["C07", "C02"], "NODEKEYS-1", (OPT, "    fused_nodes[name][\"pipeline\"] = fused_primitive_op.pipeline\n", ""))
mutant("M51b-source-edges-first-only", ["C07"], "PLAN-EDGES-1", (PLAN, "        for x in source_arrays:\n            if hasattr(x, \"name\"):\n                dag.add_edge(x.name, op_name_unique)", "        for x in source_arrays[:1]:\n            if hasattr(x, \"name\"):\n                dag.add_edge(x.name, op_name_unique)"))
mutant("M51c-source-arrays-sliced", ["C07"], "PLAN-EDGES-1", (OPS, "    source_arrays = list(arrays) + list(extra_source_arrays)\n\n    extra_projected_mem = kwargs.pop(\"extra_projected_mem\", 0)\n\n    num_input_blocks", "    source_arrays = list(arrays[:1]) + list(extra_source_arrays)\n\n    extra_projected_mem = kwargs.pop(\"extra_projected_mem\", 0)\n\n    num_input_blocks"))
mutant(
    "M51d-break-in-result-loop",
    ["C07"],
    "BARRIER-1",
    (ASYNC, "            async with st.stream() as streamer:\n                async for result, stats in streamer:\n                    handle_callbacks(callbacks, result, stats)", "            async with st.stream() as streamer:\n                async for result, stats in streamer:\n                    handle_callbacks(callbacks, result, stats)\n                    if result is None:\n                        break"),
)
mutant(
    "M51e-stream-spawned",
    ["C07"],
    "BARRIER-1",
    (ASYNC, "            async with st.stream() as streamer:\n                async for result, stats in streamer:\n                    handle_callbacks(callbacks, result, stats)\n            handle_operation_end_callbacks(callbacks, name)\n    else:", "            asyncio.ensure_future(_drain(st, callbacks))\n            handle_operation_end_callbacks(callbacks, name)\n    else:"),
    (ASYNC, "def pipeline_to_stream(", "async def _drain(st, callbacks):\n    async with st.stream() as streamer:\n        async for result, stats in streamer:\n            handle_callbacks(callbacks, result, stats)\n\n\ndef pipeline_to_stream("),
    also=("EVENTS-1",),
)
mutant("M59-skip-default-true", ["C07", "C09"], "BARRIER-SRC-1", (PIPE, "    return nodes[name].get(\"computed\", False)", "    return nodes[name].get(\"computed\", True)"))
benign(
    "B-barrier-edges-comprehension",
    ["C07"],
    (PLAN, "            for n in all_pipeline_nodes:\n                dag.add_edge(\"arrays\", n)", "            for n in all_pipeline_nodes:\n                dag.add_edge(\"arrays\", n)\n            logger_unused = None"),
)

# ---------------------------------------------------------------- C09
STORE_V3 = "cubed/storage/stores/zarr_python_v3.py"
mutant(
    "M56r-return-true-inside-scan",
    ["C09"],
    "RESUME-ALL-1",
    (PLAN, "                if target.ndim == 0 or target.nchunks_initialized != target.nchunks:\n                    return False\n", "                if target.ndim == 0 or target.nchunks_initialized != target.nchunks:\n                    return False\n                return True\n"),
)
mutant("M57-le-for-ne", ["C09"], "RESUME-ALL-1", (PLAN, "target.nchunks_initialized != target.nchunks:", "target.nchunks_initialized <= target.nchunks:"))
mutant("M57b-zero-dim-trusted", ["C09"], "RESUME-ALL-1", (PLAN, "if target.ndim == 0 or target.nchunks_initialized != target.nchunks:", "if target.nchunks_initialized != target.nchunks:"))
mutant("M57c-not-found-is-computed", ["C09"], "RESUME-ALL-1", (PLAN, "            except ArrayNotFoundError:\n                return False", "            except ArrayNotFoundError:\n                continue"))
mutant("M57d-first-successor-only", ["C09"], "RESUME-ALL-1", (PLAN, "    for output in dag.successors(name):\n        target = nodes[output].get(\"target\", None)\n        if target is not None:", "    for output in list(dag.successors(name))[:1]:\n        target = nodes[output].get(\"target\", None)\n        if target is not None:"))
mutant("M57e-create-arrays-skipped", ["C09"], "RESUME-ALL-1", (PLAN, "        [nodes[output].get(\"target\", None) is None for output in dag.successors(name)]\n    ):\n        return False", "        [nodes[output].get(\"target\", None) is None for output in dag.successors(name)]\n    ):\n        return True"))
mutant("M58-mark-without-resume", ["C09"], "RESUME-MARK-1", (PLAN, "        if resume:\n            # mark nodes as computed", "        if True:\n            # mark nodes as computed"))
mutant("M58b-mark-shared-graph", ["C09", "C10"], "RESUME-MARK-1", (PLAN, "            dag = dag.copy()\n            nodes = {n: d for (n, d) in dag.nodes(data=True)}\n            for name in list(nx.topological_sort(dag)):", "            nodes = {n: d for (n, d) in dag.nodes(data=True)}\n            for name in list(nx.topological_sort(dag)):"), also=("COPY-MUT-1",))
mutant("M58c-executor-gets-unmarked-graph", ["C09"], "RESUME-MARK-1", (PLAN, "        executor.execute_dag(\n            dag,\n            compute_id=compute_id,", "        executor.execute_dag(\n            self.dag,\n            compute_id=compute_id,"))
mutant("M46-create-mode-w", ["C09", "C06"], "CREATE-MODE-1", (PLAN, "    lazy_zarr_array.create(mode=\"a\")", "    lazy_zarr_array.create(mode=\"w\")"))
mutant("M46b-create-default-mode", ["C09", "C06"], "CREATE-MODE-1", (PLAN, "    lazy_zarr_array.create(mode=\"a\")", "    lazy_zarr_array.create()"))
mutant("M46c-overwrite", ["C09", "C06"], "CREATE-MODE-1", (STORE_V3, "                chunks=chunks,\n                name=path,\n                **kwargs,", "                chunks=chunks,\n                name=path,\n                overwrite=True,\n                **kwargs,"))
mutant("M46d-no-fallback", ["C09", "C06"], "CREATE-MODE-1", (STORE_V3, "        except zarr.errors.ContainsArrayError as e:\n            if mode == \"a\":\n                return zarr.open_array(store=store, path=path)  # type: ignore[arg-type]\n            raise e", "        except zarr.errors.ContainsArrayError as e:\n            raise e"))
mutant("M42-write-empty-chunks-false", ["C09"], "ZARR-CONFIG-1", (STORE_V3, "\"array.write_empty_chunks\": True,", "\"array.write_empty_chunks\": False,"))
benign("B-completeness-eq-style", ["C09"], (PLAN, "                if target.ndim == 0 or target.nchunks_initialized != target.nchunks:\n                    return False", "                if target.ndim == 0:\n                    return False\n                if target.nchunks_initialized == target.nchunks:\n                    continue\n                return False"))

# ---------------------------------------------------------------- C10 / C20 / C12
mutant(
    "M60-rechunk-retargets-in-place",
    ["C10", "C12"],
    "OWN-MUT-1",
    (OPS, "    out = x\n    for copy_chunks, target_chunks in _rechunk_plan(", "    out = x\n    x._zarray = x._zarray\n    for copy_chunks, target_chunks in _rechunk_plan("),
)
mutant(
    "M60b-op-mutated-by-optimizer",
    ["C10", "C02"],
    "OWN-MUT-1",
    (OPT, "    fused_primitive_op = fuse_multiple(primitive_op, *predecessor_primitive_ops)\n", "    fused_primitive_op = fuse_multiple(primitive_op, *predecessor_primitive_ops)\n    primitive_op.fusable_with_predecessors = False\n"),
)
mutant(
    "M60c-reads-map-updated-in-place",
    ["C10", "C02"],
    "OWN-MUT-1",
    (PBW, "    read_proxies = dict(bw_spec.reads_map)\n    for bws in predecessor_bw_specs:\n        read_proxies.update(bws.reads_map)", "    read_proxies = bw_spec.reads_map\n    for bws in predecessor_bw_specs:\n        bw_spec.reads_map.update(bws.reads_map)"),
)
mutant("M17-fuse-no-copy", ["C10", "C02"], "COPY-MUT-1", (OPT, "    fused_dag = dag.copy()\n", "    fused_dag = dag\n"))
mutant("M18-finalize-no-copy", ["C10", "C02"], "COPY-MUT-1", (PLAN, "        dag = dag.copy()\n        if callable(compile_function):", "        if callable(compile_function):"))
mutant("M18b-simple-optimize-no-copy", ["C10", "C02"], "COPY-MUT-1", (OPT, "    dag = dag.copy()\n    nodes = {n: d for (n, d) in dag.nodes(data=True)}\n\n    def can_fuse(n):", "    nodes = {n: d for (n, d) in dag.nodes(data=True)}\n\n    def can_fuse(n):"))
mutant("M18c-visualize-no-copy", ["C10"], "COPY-MUT-1", (PLAN, "        dag = self.dag.copy()  # make a copy since we mutate the DAG below", "        dag = self.dag"))
mutant("M61-gensym-no-increment", ["C10", "C20"], "GENSYM-1", ("cubed/core/array.py", "    global sym_counter\n    sym_counter += 1\n    return f\"{name}-{sym_counter:03}\"", "    global sym_counter\n    return f\"{name}-{sym_counter:03}\""))
mutant("M61b-counter-reset-in-compute", ["C10", "C20"], "GENSYM-1", ("cubed/core/array.py", "    spec = check_array_specs(arrays)  # guarantees all arrays have same spec\n", "    global sym_counter\n    sym_counter = 0\n    spec = check_array_specs(arrays)  # guarantees all arrays have same spec\n"))
mutant("M61c-name-without-counter", ["C10", "C20"], "GENSYM-1", (PLAN, "    global sym_counter\n    sym_counter += 1\n    return f\"{name}-{sym_counter:03}\"", "    global sym_counter\n    sym_counter += 1\n    return f\"{name}-001\""))
mutant("M61d-array-named-by-caller-constant", ["C10", "C20"], "GENSYM-1", (OPS, "    name = gensym()\n    spec = check_array_specs(arrays)\n    buffer_copies = get_buffer_copies(spec)\n    if target_store is None:", "    name = \"array-out\"\n    spec = check_array_specs(arrays)\n    buffer_copies = get_buffer_copies(spec)\n    if target_store is None:"))
mutant("M63-delete-work-dir", ["C10", "C20"], "CLEANUP-1", (PLAN, "    context_dir = join_path(work_dir, CONTEXT_ID)\n    delete_on_exit(context_dir)", "    context_dir = join_path(work_dir, CONTEXT_ID)\n    delete_on_exit(work_dir)"))
mutant("M63b-rmtree-elsewhere", ["C10"], "CLEANUP-1", (PLAN, "    dags = [x._plan.dag for x in arrays if hasattr(x, \"_plan\")]\n", "    dags = [x._plan.dag for x in arrays if hasattr(x, \"_plan\")]\n    shutil.rmtree(tempfile.gettempdir(), ignore_errors=True)\n"))
mutant("M63c-context-id-not-unique", ["C10", "C20"], "CLEANUP-1", (PLAN, "CONTEXT_ID = f\"cubed-{datetime.now().strftime('%Y%m%dT%H%M%S')}-{uuid.uuid4()}\"", "CONTEXT_ID = f\"cubed-{datetime.now().strftime('%Y%m%dT%H%M%S')}\""))
mutant("M66-array-wraps-input-storage", ["C12"], "META-1", (OPS, "    return Array(name, op.target_array, spec, plan)\n\n\ndef general_blockwise(", "    return Array(name, arrays[0]._zarray, spec, plan)\n\n\ndef general_blockwise("))
mutant("M66b-shape-from-first-input", ["C12"], "META-1", (OPS, "    shape = tuple(map(sum, _chunks))\n", "    shape = arrays[0].shape\n"))
mutant("M66c-corearray-shape-from-plan", ["C12"], "META-1", ("cubed/core/array.py", "        self._shape = zarray.shape\n", "        self._shape = getattr(plan, 'shape', None) or zarray.shape\n        self._shape = tuple(self._shape)\n"))
benign("B-gensym-format-first", ["C10", "C20"], ("cubed/core/array.py", "    global sym_counter\n    sym_counter += 1\n    return f\"{name}-{sym_counter:03}\"", "    global sym_counter\n    n = sym_counter + 1\n    sym_counter += 1\n    return f\"{name}-{sym_counter:03}\""))
benign("B-fresh-op-field-set", ["C10", "C02"], (PBW, "    return PrimitiveOperation(\n        pipeline=fused_pipeline,", "    _tmp = PrimitiveOperation(\n        pipeline=fused_pipeline,\n        source_array_names=source_array_names,\n        target_array=target_array,\n        projected_mem=projected_mem,\n        allowed_mem=allowed_mem,\n        reserved_mem=reserved_mem,\n        num_tasks=num_tasks,\n    )\n    _tmp.fusable_with_predecessors = True\n    return PrimitiveOperation(\n        pipeline=fused_pipeline,"))

# ---------------------------------------------------------------- C18 / C19
SPECPY = "cubed/spec.py"
UTILSPY = "cubed/utils.py"
SEARCH = "cubed/array_api/searching_functions.py"
mutant("M77-merge-without-check", ["C18"], "SPEC-CHECK-1", (PLAN, "    check_array_specs(arrays)\n    dags = [x._plan.dag for x in arrays if hasattr(x, \"_plan\")]", "    dags = [x._plan.dag for x in arrays if hasattr(x, \"_plan\")]"))
mutant("M77b-check-first-only", ["C18"], "SPEC-CHECK-1", (PLAN, "    check_array_specs(arrays)\n    dags = [x._plan.dag for x in arrays if hasattr(x, \"_plan\")]", "    check_array_specs(arrays[:1])\n    dags = [x._plan.dag for x in arrays if hasattr(x, \"_plan\")]"))
mutant("M77c-second-merge-point", ["C18"], "SPEC-CHECK-1", (OPS, "    arrays = []\n    for source, target, region in zip(sources, targets, regions_list):\n        array = _store_array(source, target, region=region)\n        arrays.append(array)\n    if compute:", "    arrays = []\n    for source, target, region in zip(sources, targets, regions_list):\n        array = _store_array(source, target, region=region)\n        arrays.append(array)\n    import networkx as nx\n    _merged = nx.compose_all([a._plan.dag for a in arrays])\n    if compute:"))
mutant("M77d-plan-new-drops-sources", ["C18", "C07"], "SPEC-CHECK-1", (PLAN, "            dag = arrays_to_dag(*source_arrays)\n", "            dag = arrays_to_dag(*source_arrays[:1])\n"))
mutant("M78-compare-allowed-mem-only", ["C18"], "SPEC-CHECK-2", (ARRAY, "    if not all(s == specs[0] for s in specs):", "    if not all(s.allowed_mem == specs[0].allowed_mem for s in specs):"))
mutant("M78b-check-warns-only", ["C18"], "SPEC-CHECK-2", (ARRAY, "        raise ValueError(\n            f\"Arrays must have same spec in single computation. Specs: {specs}\"\n        )", "        import warnings\n        warnings.warn(\n            f\"Arrays must have same spec in single computation. Specs: {specs}\"\n        )"))
mutant("M78c-any-instead-of-all", ["C18"], "SPEC-CHECK-2", (ARRAY, "    if not all(s == specs[0] for s in specs):", "    if not any(s == specs[0] for s in specs):"))
mutant("M79-eq-drops-reserved-mem", ["C18"], "SPEC-EQ-1", (SPECPY, "                and self.reserved_mem == other.reserved_mem\n", ""))
mutant("M79b-eq-drops-executor", ["C18"], "SPEC-EQ-1", (SPECPY, "                and self.executor == other.executor\n", ""))
mutant("M80-budget-doubled", ["C18"], "SPEC-BUDGET-1", (OPS, "        allowed_mem=spec.allowed_mem,\n        reserved_mem=spec.reserved_mem,\n        extra_projected_mem=extra_projected_mem,\n        target_store=target_store,", "        allowed_mem=spec.allowed_mem * 2,\n        reserved_mem=spec.reserved_mem,\n        extra_projected_mem=extra_projected_mem,\n        target_store=target_store,"))
mutant("M80b-budget-from-first-array", ["C18"], "SPEC-BUDGET-1", (OPS, "        allowed_mem=spec.allowed_mem,\n        reserved_mem=spec.reserved_mem,\n        extra_projected_mem=extra_projected_mem,\n        buffer_copies=buffer_copies,", "        allowed_mem=arrays[0].spec.allowed_mem,\n        reserved_mem=spec.reserved_mem,\n        extra_projected_mem=extra_projected_mem,\n        buffer_copies=buffer_copies,"))
mutant("M81a-base-1024", ["C18"], "BYTES-1", (UTILSPY, "unit_factor = 1000 ** units[unit]", "unit_factor = 1024 ** units[unit]"))
mutant("M81b-bad-string-falls-through", ["C18"], "BYTES-1", (UTILSPY, "        else:\n            raise ValueError(\n                f\"Invalid value: {size}. Expected the string to be a numeric value ending with an SI prefix.\"\n            )", "        else:\n            unit_factor = 1.0\n            value = \"0\""))
mutant("M81c-unit-table-shifted", ["C18"], "BYTES-1", (UTILSPY, "{\"kB\": 1, \"MB\": 2, \"GB\": 3, \"TB\": 4, \"PB\": 5}", "{\"kB\": 1, \"MB\": 2, \"GB\": 3, \"TB\": 3, \"PB\": 5}"))
mutant("M81d-negative-accepted", ["C18"], "BYTES-1", (UTILSPY, "    if size >= 0:\n        return size\n    else:\n        raise ValueError(f\"Invalid value: {size}. Must be a positive value\")", "    return size"))
mutant("M81e-truncate-float", ["C18"], "BYTES-1", (UTILSPY, "        else:\n            raise ValueError(\n                f\"Invalid value: {size}. Can't have a non-integer number of bytes\"\n            )", "        else:\n            size = int(size)"))
mutant("M81f-spec-bypasses-parser", ["C18"], "BYTES-1", (SPECPY, "            self._allowed_mem = convert_to_bytes(allowed_mem)", "            self._allowed_mem = int(allowed_mem)"))
mutant("M-F2-searchsorted-no-spec", ["C19"], "SPEC-THREAD-1", (SEARCH, "    x1_offsets = asarray(x1_chunk_offsets, chunks=1, spec=x1.spec)", "    x1_offsets = asarray(x1_chunk_offsets, chunks=1)"))
mutant("M82-broadcast-to-no-spec", ["C19"], "SPEC-THREAD-1", (MANIP, "empty(shape, dtype=nxp.int8, chunks=chunks, spec=x.spec)", "empty(shape, dtype=nxp.int8, chunks=chunks)"))
mutant("M83-tri-mask-no-spec", ["C19"], "SPEC-THREAD-1", (CREATION, "        arange(-k, M - k, chunks=chunks[1][0], spec=spec),", "        arange(-k, M - k, chunks=chunks[1][0]),"))
mutant("M83b-promote-scalar-default-spec", ["C19"], "SPEC-THREAD-1", ("cubed/array_api/array_object.py", "return asarray(scalar, dtype=self.dtype, spec=self.spec)", "return asarray(scalar, dtype=self.dtype)"))
mutant("M83c-offsets-array-spec-none", ["C19"], "SPEC-THREAD-1", (OPS, "        offsets = offsets_virtual_array(numblocks, arg0.spec)", "        offsets = offsets_virtual_array(numblocks, None)"))
mutant("M84-second-resolution-point", ["C19"], "SPEC-RESOLVE-1", (ARRAY, "        self.spec = spec or spec_from_config(config)", "        self.spec = spec or Spec()"))
mutant("M84b-work-dir-branches-builder", ["C19"], "SPEC-NEUTRAL-1", (OPS, "    name = gensym()\n    spec = check_array_specs(arrays)\n    buffer_copies = get_buffer_copies(spec)\n    if target_store is None:", "    name = gensym()\n    spec = check_array_specs(arrays)\n    if spec.work_dir is not None and spec.work_dir.startswith(\"s3://\") and len(arrays) > 4:\n        raise ValueError(\"too many inputs for cloud storage\")\n    buffer_copies = get_buffer_copies(spec)\n    if target_store is None:"))
benign("B-new-creation-forwarding-spec", ["C19", "C16"], (CREATION, "def zeros(shape, *, dtype=None, device=None, chunks=\"auto\", spec=None) -> \"Array\":", "def twos(shape, *, dtype=None, device=None, chunks=\"auto\", spec=None) -> \"Array\":\n    return full(shape, 2, dtype=dtype, device=device, chunks=chunks, spec=spec)\n\n\ndef zeros(shape, *, dtype=None, device=None, chunks=\"auto\", spec=None) -> \"Array\":"))
benign("B-no-lru-cache-spec-from-config", ["C19", "C18"], (SPECPY, "@lru_cache  # ensure arrays have the same Spec object for a given config\n", ""))
benign("B-eq-reordered", ["C18"], (SPECPY, "                self.work_dir == other.work_dir\n                and self.intermediate_store == other.intermediate_store", "                self.intermediate_store == other.intermediate_store\n                and self.work_dir == other.work_dir"))

# ---------------------------------------------------------------- C02 / C15 (fusion)
mutant(
    "M8-no-requested-array-guard",
    ["C02"],
    "FUSE-GUARD-1",
    (OPT, "    if len(array_names_intersect) > 0:\n        logger.debug(\n            \"can't fuse %s since predecessor ops produce one or more arrays being computed %s\",\n            name,\n            array_names_intersect,\n        )\n        return False\n", "    if len(array_names_intersect) > 0:\n        logger.debug(\n            \"can't fuse %s since predecessor ops produce one or more arrays being computed %s\",\n            name,\n            array_names_intersect,\n        )\n"),
)
mutant(
    "M9-always-fuse-before-guards",
    ["C02"],
    "FUSE-GUARD-1",
    (OPT, "    nodes = dict(dag.nodes(data=True))\n\n    # if node itself can't be fused then there is nothing to fuse\n    if not is_fusable_with_predecessors(nodes[name]):", "    nodes = dict(dag.nodes(data=True))\n    if always_fuse is not None and name in always_fuse:\n        return True\n\n    # if node itself can't be fused then there is nothing to fuse\n    if not is_fusable_with_predecessors(nodes[name]):"),
)
mutant("M9b-multi-output-ge-1", ["C02"], "FUSE-GUARD-1", (OPT, "        len(list(successors_unordered(dag, pre))) > 1\n", "        len(list(successors_unordered(dag, pre))) > 2\n"))
mutant("M9c-requested-guard-first-pred-only", ["C02"], "FUSE-GUARD-1", (OPT, "        array_name for _, array_name, _ in predecessor_ops_and_arrays(dag, name)\n    )", "        array_name for _, array_name, can_fuse in predecessor_ops_and_arrays(dag, name) if can_fuse and False\n    )"))
mutant("M10-flag-drops-single-consumer", ["C02"], "FUSE-GUARD-1", (OPT, "            and node_dict[\"primitive_op\"].fusable_with_successors\n            and out_degree_unique(dag, input) == 1\n", "            and node_dict[\"primitive_op\"].fusable_with_successors\n"))
mutant("M11-flag-or", ["C02"], "FUSE-GUARD-1", (OPT, "            and out_degree_unique(dag, input) == 1\n", "            or out_degree_unique(dag, input) == 1\n"))
mutant("M11b-flag-degree-of-op", ["C02"], "FUSE-GUARD-1", (OPT, "            and out_degree_unique(dag, input) == 1\n", "            and out_degree_unique(dag, pre) == 1\n"))
mutant("M11c-unflagged-pred-passed", ["C02"], "FUSE-GUARD-1", (OPT, "    predecessor_primitive_ops = [\n        nodes[pre][\"primitive_op\"] if can_fuse else None\n        for pre, _, can_fuse in predecessor_ops_and_arrays(dag, name)\n    ]\n\n    fused_primitive_op", "    predecessor_primitive_ops = [\n        nodes[pre].get(\"primitive_op\")\n        for pre, _, can_fuse in predecessor_ops_and_arrays(dag, name)\n    ]\n\n    fused_primitive_op"))
mutant("M12-legacy-no-requested-test", ["C02"], "FUSE-GUARD-2", (OPT, "        if op2_input in array_names:\n            return False\n", ""))
mutant("M12b-legacy-shared-input", ["C02"], "FUSE-GUARD-2", (OPT, "        if dag.out_degree(op2_input) != 1:\n            return False\n", ""))
mutant("M13-no-edge-inheritance", ["C02", "C07"], "FUSE-REWIRE-1", (OPT, "            for pre_input in predecessors_unordered(dag, pre):\n                fused_dag.add_edge(pre_input, name)\n", ""))
mutant("M13b-remove-unflagged", ["C02"], "FUSE-REWIRE-1", (OPT, "        if can_fuse:\n            # check if already removed for repeated arguments", "        if True:\n            # check if already removed for repeated arguments"))
mutant("M13c-inherit-from-mutated-copy", ["C02"], "FUSE-REWIRE-1", (OPT, "            for pre_input in predecessors_unordered(dag, pre):\n                fused_dag.add_edge(pre_input, name)", "            for pre_input in predecessors_unordered(fused_dag, pre):\n                fused_dag.add_edge(pre_input, name)"))
mutant("M14-fuse-write-proxies-from-pred", ["C02", "C05"], "FUSE-PROV-1", (PBW, "    write_proxies = pipeline2.config.writes_map\n", "    write_proxies = pipeline1.config.writes_map\n"))
mutant("M15-fuse-multiple-mappable-from-pred", ["C02", "C13"], "FUSE-PROV-1", (PBW, "        primitive_op.pipeline.mappable,\n        spec,\n    )", "        predecessor_primitive_ops[0].pipeline.mappable,\n        spec,\n    )"), also=("COUNT-1",))
mutant("M16-no-pred-reads", ["C02"], "FUSE-PROV-1", (PBW, "    for bws in predecessor_bw_specs:\n        read_proxies.update(bws.reads_map)\n", ""))
mutant("M16b-target-from-pred", ["C02"], "FUSE-PROV-1", (PBW, "    target_array = primitive_op.target_array\n    projected_mem = max(\n        primitive_op.projected_mem,", "    target_array = predecessor_primitive_ops[0].target_array\n    projected_mem = max(\n        primitive_op.projected_mem,"))
mutant("M16c-source-names-successor-only", ["C02"], "FUSE-PROV-1", (PBW, "        else:\n            source_array_names.extend(p.source_array_names)", "        else:\n            source_array_names.append(primitive_op.source_array_names[i])"))
mutant("M16d-function-dict-keyed-differently", ["C02", "C15"], "FUSE-PROV-1", (PBW, "            predecessor_functions_dict[name] = bws.function", "            predecessor_functions_dict[id(bws)] = bws.function"))
mutant("M71-iterator-branch-materialised", ["C15", "C03", "C02"], "NEST-LAZY-1", (PBW, "    else:\n        return (apply_blockwise_func(a, functions_dict) for a in arg)", "    else:\n        return [apply_blockwise_func(a, functions_dict) for a in arg]"))
mutant("M71b-map-nested-iterator-to-list", ["C15", "C03"], "NEST-LAZY-1", (PBW, "        return map(lambda item: _map_nested_impl(func, item), seq)", "        return list(map(lambda item: _map_nested_impl(func, item), seq))"))
mutant("M71c-key-func-iterator-to-list", ["C15", "C03"], "NEST-LAZY-1", (PBW, "    else:\n        return (\n            FunctionArgs(\n                *_apply_blockwise_key_func_to_chunk_key(\n                    a, back_key_functions_dict\n                ).args,\n                output_name=a.name,\n            )\n            for a in arg\n        )", "    else:\n        return [\n            FunctionArgs(\n                *_apply_blockwise_key_func_to_chunk_key(\n                    a, back_key_functions_dict\n                ).args,\n                output_name=a.name,\n            )\n            for a in arg\n        ]"))
mutant("M28-partial-reduce-materialises", ["C03"], "NEST-LAZY-1", (OPS, "    result = None\n    for array in arrays:\n        if initial_func is not None:", "    arrays = list(arrays)\n    result = None\n    for array in arrays:\n        if initial_func is not None:"))
mutant("M29-partial-reduce-key-no-iter", ["C03"], "NEST-LAZY-1", (OPS, "            iter([ChunkKey(x.name, tuple(p)) for p in product(*in_keys)]),", "            [ChunkKey(x.name, tuple(p)) for p in product(*in_keys)],"))
mutant("M72-key-name-from-first", ["C15", "C02"], "NEST-DISPATCH-1", (PBW, "                output_name=a.name,\n            )\n            for a in arg\n        ]", "                output_name=arg[0].name,\n            )\n            for a in arg\n        ]"))
mutant("M72b-map-nested-name-lost", ["C15"], "NEST-DISPATCH-1", (PBW, "            output_name=seq.output_name,\n        )\n    else:\n        return func(seq)", "            output_name=\"out\",\n        )\n    else:\n        return func(seq)"))
mutant("M72c-fused-func-skips-first-arg", ["C15", "C02"], "NEST-DISPATCH-1", (PBW, "    def fused_func_single(*args: Any) -> T:\n        func_args = [apply_blockwise_func(a, predecessor_functions_dict) for a in args]", "    def fused_func_single(*args: Any) -> T:\n        func_args = [apply_blockwise_func(a, predecessor_functions_dict) for a in args[1:]]"))
mutant("M72d-generator-ness-lost", ["C15", "C02"], "NEST-DISPATCH-1", (PBW, "        fused_func_generator\n        if inspect.isgeneratorfunction(function)\n        else fused_func_single", "        fused_func_single"))
mutant("M72e-passthrough-keyed-by-other-name", ["C15", "C02"], "NEST-DISPATCH-1", (PBW, "        if arg.output_name not in functions_dict:\n            return arg.args[0] if len(arg.args) == 1 else list(arg.args)\n        return functions_dict[arg.output_name](*arg.args)", "        if arg.output_name not in functions_dict:\n            return arg.args[0] if len(arg.args) == 1 else list(arg.args)\n        return functions_dict[arg.args[0].name if hasattr(arg.args[0], 'name') else arg.output_name](*arg.args)"))
benign("B-drop-fusable-conjunct", ["C02"], (OPT, "            and node_dict[\"primitive_op\"].fusable_with_successors\n            and out_degree_unique(dag, input) == 1\n", "            and out_degree_unique(dag, input) == 1\n"))
benign(
    "B-reorder-guards",
    ["C02"],
    (OPT, "    # if node is in never_fuse or always_fuse list then it overrides logic below\n    if never_fuse is not None and name in never_fuse:\n        logger.debug(\"can't fuse %s since it is in 'never_fuse'\", name)\n        return False\n", ""),
    (OPT, "    # if no predecessor ops can be fused then there is nothing to fuse\n    # (this may be because predecessor ops produce arrays with multiple dependents)", "    if never_fuse is not None and name in never_fuse:\n        return False\n    # if no predecessor ops can be fused then there is nothing to fuse\n    # (this may be because predecessor ops produce arrays with multiple dependents)"),
)
benign("B-multi-output-ge-2", ["C02"], (OPT, "        len(list(successors_unordered(dag, pre))) > 1\n", "        len(list(successors_unordered(dag, pre))) >= 2\n"))
benign("B-generator-for-iter-tuple", ["C03", "C15"], (OPS, "            iter(tuple(ChunkKey(x.name, cp.chunk_coords) for cp in indexer)),", "            (ChunkKey(x.name, cp.chunk_coords) for cp in indexer),"))

# ---------------------------------------------------------------- C03 (memory model)
MEMPY = "cubed/primitive/memory.py"
mutant("M19-model-drops-input-copy", ["C03"], "MEM-MODEL-1", (MEMPY, "        projected_mem += input * buffer_copies.read\n        projected_mem += input\n", "        projected_mem += input * buffer_copies.read\n"))
mutant("M20-model-output-write-only", ["C03"], "MEM-MODEL-1", (MEMPY, "    projected_mem += output\n    projected_mem += output * buffer_copies.write\n", "    projected_mem += output * buffer_copies.write\n"))
mutant("M21-model-without-reserved", ["C03"], "MEM-MODEL-1", (MEMPY, "    projected_mem = reserved_mem\n", "    projected_mem = 0\n"))
mutant("M21b-model-drops-operation", ["C03"], "MEM-MODEL-1", (MEMPY, "    projected_mem += operation\n", ""))
mutant("M21c-model-subtracts", ["C03"], "MEM-MODEL-1", (MEMPY, "    projected_mem += operation\n", "    projected_mem += operation\n    projected_mem -= reserved_mem\n"))
mutant("M22-inputs-first-only", ["C03"], "MEM-CALL-1", (PBW, "            array_memory(array.dtype, largest_chunk(array.chunks)) for array in arrays\n", "            array_memory(array.dtype, largest_chunk(array.chunks)) for array in arrays[:1]\n"))
mutant("M22b-output-last-only", ["C03"], "MEM-CALL-1", (PBW, "        output_chunk_memory = max(\n            output_chunk_memory, array_memory(dtypes[i], chunksize)\n        )", "        output_chunk_memory = array_memory(dtypes[i], chunksize)"))
mutant("M22c-extra-not-forwarded", ["C03"], "MEM-CALL-1", (PBW, "        operation=extra_projected_mem,\n", "        operation=0,\n"))
mutant("M22d-ops-drops-extra", ["C03"], "MEM-CALL-1", (OPS, "        reserved_mem=spec.reserved_mem,\n        extra_projected_mem=extra_projected_mem,\n        buffer_copies=buffer_copies,", "        reserved_mem=spec.reserved_mem,\n        buffer_copies=buffer_copies,"))
mutant("M23-fuse-no-max", ["C03", "C04"], "MEM-FUSEMAX-1", (PBW, "    projected_mem = max(primitive_op1.projected_mem, primitive_op2.projected_mem)", "    projected_mem = primitive_op2.projected_mem"))
mutant("M24-fuse-multiple-min", ["C03", "C04"], "MEM-FUSEMAX-1", (PBW, "    projected_mem = max(\n        primitive_op.projected_mem,\n        peak_projected_mem(p for p in predecessor_primitive_ops if p is not None),\n    )", "    projected_mem = min(\n        primitive_op.projected_mem,\n        peak_projected_mem(p for p in predecessor_primitive_ops if p is not None),\n    )"))
mutant("M25-peak-frees-everything", ["C03", "C04"], "MEM-FUSEMAX-1", (PBW, "        memory_modeller.free(p.projected_mem - chunkmem)", "        memory_modeller.free(p.projected_mem)"))
mutant("M25b-peak-skips-allocate", ["C03", "C04"], "MEM-FUSEMAX-1", (PBW, "        memory_modeller.allocate(p.projected_mem)\n", "        if p.fusable_with_predecessors:\n            memory_modeller.allocate(p.projected_mem)\n"))
mutant("M25c-modeller-peak-not-updated", ["C03", "C04"], "MEM-FUSEMAX-1", (MEMPY, "        self.current_mem += num_bytes\n        self.peak_mem = max(self.peak_mem, self.current_mem)\n\n    def free", "        self.current_mem += num_bytes\n\n    def free"))
mutant("M25d-peak-first-preds-only", ["C03", "C04"], "MEM-FUSEMAX-1", (PBW, "        peak_projected_mem(p for p in predecessor_primitive_ops if p is not None),\n    )\n    allowed_mem = primitive_op.allowed_mem", "        peak_projected_mem(p for p in predecessor_primitive_ops[:1] if p is not None),\n    )\n    allowed_mem = primitive_op.allowed_mem"))
mutant("M85-extra-mem-element-count", ["C03"], "MEM-UNITS-1", (OPS, "    extra_projected_mem = x.chunkmem + 2 * array_memory(dtype, to_chunksize(chunks))", "    extra_projected_mem = math.prod(x.chunksize) + 2 * math.prod(to_chunksize(chunks))"))
benign(
    "B-model-as-single-sum",
    ["C03"],
    (
        MEMPY,
        "    projected_mem = reserved_mem\n\n    for input in inputs:\n        projected_mem += input * buffer_copies.read\n        projected_mem += input\n\n    projected_mem += operation\n\n    projected_mem += output\n    projected_mem += output * buffer_copies.write\n\n    return projected_mem",
        "    return (\n        reserved_mem\n        + sum(i * (1 + buffer_copies.read) for i in inputs)\n        + operation\n        + output * (1 + buffer_copies.write)\n    )",
    ),
)
benign("B-total-copies-rewritten", ["C03"], (OPS, "    total_copies = 1 + buffer_copies.read + 1 + 1 + buffer_copies.write", "    total_copies = 3 + buffer_copies.read + buffer_copies.write"))
benign("B-inline-get-results", ["C03", "C06"], (PBW, "def get_results_in_different_scope(out_coords: list[int], *, config: BlockwiseSpec):", "def get_results_in_different_scope(out_coords: list[int], *, config: BlockwiseSpec):\n    # renamed helper semantics unchanged"))

# ---------------------------------------------------------------- C05 / C06 / C11
RANDOMPY = "cubed/random.py"
mutant("M37-region-without-proxy-chunks", ["C05"], "WRITE-REGION-1", (PBW, "        out_chunk_key = key_to_slices(\n            out_coords_tuple, write_proxy.array, write_proxy.chunks\n        )", "        out_chunk_key = key_to_slices(out_coords_tuple, write_proxy.array)"))
mutant("M38-augmented-store", ["C05", "C06"], "WRITE-REGION-1", (PBW, "            write_proxy.open()[out_chunk_key] = result", "            write_proxy.open()[out_chunk_key] += result"))
mutant("M38b-store-into-read-proxy", ["C05", "C10"], "WRITE-REGION-1", (PBW, "            write_proxy.open()[out_chunk_key] = result", "            list(config.reads_map.values())[0].open()[out_chunk_key] = result"))
mutant("M38c-region-from-other-coords", ["C05"], "WRITE-REGION-1", (PBW, "        out_chunk_key = key_to_slices(\n            out_coords_tuple, write_proxy.array, write_proxy.chunks\n        )", "        out_chunk_key = key_to_slices(\n            (0,) * len(out_coords_tuple), write_proxy.array, write_proxy.chunks\n        )"))
mutant("M39-proxy-chunks-from-storage", ["C05"], "WRITE-GRID-1", (PBW, "        write_proxies[target_names[i]] = CubedArrayProxy(ta, chunksize)", "        write_proxies[target_names[i]] = CubedArrayProxy(ta, ta.chunks)"))
mutant("M40-no-numblocks-guard", ["C05"], "WRITE-GRID-1", (PBW, "            if numblocks != numblocks0:\n                raise ValueError(\n                    f\"All outputs must have matching number of blocks in each dimension. Chunks specified: {chunkss}\"\n                )", "            pass"))
mutant("M40b-tasks-from-input-grid", ["C05", "C13"], "WRITE-GRID-1", (PBW, "    mappable = output_blocks if output_blocks is not None else ChunkKeys(chunks_normal)", "    mappable = output_blocks if output_blocks is not None else ChunkKeys(normalize_chunks(arrays[0].chunks, shape=arrays[0].shape, dtype=arrays[0].dtype))"), also=("COUNT-1",))
mutant("M41-no-shards-guard", ["C05", "C11"], "TARGET-COMPAT-1", (OPS, "                warn(warn_msg, stacklevel=2)\n                source = source.rechunk(target.shards)", "                warn(warn_msg, stacklevel=2)"))
mutant("M43-unseeded-generator", ["C06"], "TASK-RNG-1", (RANDOMPY, "    rg = Generator(Philox(key=root_seed + stream_id))", "    rg = Generator(Philox())"))
mutant("M43b-seed-from-time", ["C06"], "TASK-PURE-1", (RANDOMPY, "    rg = Generator(Philox(key=root_seed + stream_id))", "    import time\n    rg = Generator(Philox(key=int(time.time())))"), also=("TASK-RNG-1",))
mutant("M43c-stream-id-dropped", ["C06"], "TASK-RNG-1", (RANDOMPY, "    stream_id = block_id_to_offset(block_id, numblocks)\n", "    stream_id = block_id_to_offset(block_id[:1], numblocks[:1])\n"))
mutant("M44-write-into-input-block", ["C06", "C10"], "TASK-PURE-1", (OPS, "                out[out_select] = ai[chunk_select]", "                ai[chunk_select] = out[out_select]"))
mutant("M45-block-func-module-cache", ["C06"], "TASK-PURE-1", (OPS, "def _arg_func(a, **kwargs):\n    # pass through\n    return {\"i\": a[\"i\"], \"v\": a[\"v\"]}", "_ARG_CACHE = {}\n\n\ndef _arg_func(a, **kwargs):\n    # pass through\n    global _ARG_CACHE\n    _ARG_CACHE = {\"i\": a[\"i\"], \"v\": a[\"v\"]}\n    return _ARG_CACHE"))
mutant("M45b-block-func-mutates-input-dict", ["C06"], "TASK-PURE-1", (OPS, "def _arg_aggregate(a, axis=None):\n    # just return index values\n    return a[\"i\"]", "def _arg_aggregate(a, axis=None):\n    # just return index values\n    a[\"v\"] = None\n    return a[\"i\"]"))
mutant("M45c-task-spawns-thread", ["C06", "C07"], "TASK-PURE-1", (PBW, "            result = backend_array_to_numpy_array(result)\n            write_proxy.open()[out_chunk_key] = result", "            result = backend_array_to_numpy_array(result)\n            import threading\n            threading.Thread(target=write_proxy.open().__setitem__, args=(out_chunk_key, result)).start()"), also=("WRITE-REGION-1",))
mutant("M65-no-region-alignment-check", ["C11"], "STORE-GUARD-1", (OPS, "            if (sl.start is not None and sl.start % cs != 0) or (\n                sl.stop is not None and sl.stop % cs != 0 and sl.stop != shape[i]\n            ):", "            if False:"))
mutant("M65b-alignment-start-only", ["C11"], "STORE-GUARD-1", (OPS, "            if (sl.start is not None and sl.start % cs != 0) or (\n                sl.stop is not None and sl.stop % cs != 0 and sl.stop != shape[i]\n            ):", "            if sl.start is not None and sl.start % cs != 0:"))
mutant("M65c-no-shape-check", ["C11"], "STORE-GUARD-1", (OPS, "        if source.shape != indexer.shape:\n            raise ValueError(\n                f\"Source array shape {source.shape} does not match region shape {indexer.shape}\"\n            )\n", ""))
mutant("M65d-len-check-after-build", ["C11"], "STORE-GUARD-1", (OPS, "    if len(sources) != len(targets):\n        raise ValueError(\n            f\"Different number of sources ({len(sources)}) and targets ({len(targets)})\"\n        )\n", ""))
mutant("M65e-store-skips-pairs", ["C11"], "STORE-EAGER-1", (OPS, "        array = _store_array(source, target, region=region)\n        arrays.append(array)", "        array = _store_array(source, target, region=region)\n        if target is not None:\n            arrays.append(array)"))
mutant("M65f-store-computes-first-only", ["C11"], "STORE-EAGER-1", (OPS, "        compute_arrays(\n            *arrays, executor=executor, _return_in_memory_array=False, **kwargs\n        )", "        compute_arrays(\n            *arrays[:1], executor=executor, _return_in_memory_array=False, **kwargs\n        )"))
mutant("M65g-fresh-branch-returns-source", ["C11"], "STORE-PAIR-1", (OPS, "            return blockwise(\n                identity,\n                ind,\n                source,\n                ind,\n                dtype=source.dtype,\n                align_arrays=False,\n                target_store=target,\n                fusable_with_successors=False,\n                **blockwise_kwargs,\n            )", "            blockwise(\n                identity,\n                ind,\n                source,\n                ind,\n                dtype=source.dtype,\n                align_arrays=False,\n                target_store=target,\n                fusable_with_successors=False,\n                **blockwise_kwargs,\n            )\n            return source"))
benign("B-block-func-counter-only", ["C06"], (OPS, "def _arg_func(a, **kwargs):\n    # pass through\n", "def _arg_func(a, **kwargs):\n    # pass through\n    tmp = dict(a)\n    tmp[\"seen\"] = True\n"))
benign("B-task-body-helper-rename", ["C05", "C06"], (PBW, "    results = get_results_in_different_scope(out_coords, config=config)", "    results = get_results_in_different_scope(out_coords, config=config)\n    n_written = 0"))

# ---------------------------------------------------------------- C01 / C15 / C17
LINALG = "cubed/array_api/linalg.py"
mutant(
    "M-F1-stack-no-unify",
    ["C01", "C17"],
    "ALIGN-1",
    (MANIP, "    inds = [list(range(a.ndim)) for a in arrays]\n    uc_args = chain.from_iterable(zip(arrays, inds))\n    _, arrays = unify_chunks(*uc_args, warn=False)\n\n    a = arrays[0]\n\n    axis = validate_axis(axis, a.ndim + 1)", "    a = arrays[0]\n\n    axis = validate_axis(axis, a.ndim + 1)"),
)
mutant("M1-concat-no-unify", ["C01", "C17"], "ALIGN-1", (MANIP, "    chunkss, arrays = unify_chunks(*uc_args, warn=False)\n\n    # offsets along axis", "    chunkss, _unified = unify_chunks(*uc_args, warn=False)\n\n    # offsets along axis"))
mutant("M1b-concat-uses-pre-unification-list", ["C01", "C17"], "ALIGN-1", (MANIP, "    chunkss, arrays = unify_chunks(*uc_args, warn=False)\n\n    # offsets along axis", "    original = arrays\n    chunkss, arrays = unify_chunks(*uc_args, warn=False)\n    arrays = original\n\n    # offsets along axis"))
mutant("M2-elemwise-unaligned", ["C01"], "ALIGN-1", (OPS, "        *chain.from_iterable((a, tuple(range(a.ndim)[::-1])) for a in args),\n        dtype=dtype,\n    )", "        *chain.from_iterable((a, tuple(range(a.ndim)[::-1])) for a in args),\n        dtype=dtype,\n        align_arrays=False,\n    )"))
mutant("M3-blockwise-align-branches-swapped", ["C01"], "ALIGN-1", (OPS, "    if align_arrays:\n        chunkss, arrays = unify_chunks(*args)\n    else:", "    if not align_arrays:\n        chunkss, arrays = unify_chunks(*args)\n    else:"))
mutant("M3b-blockwise-unified-arrays-dropped", ["C01"], "ALIGN-1", (OPS, "    if align_arrays:\n        chunkss, arrays = unify_chunks(*args)\n    else:", "    if align_arrays:\n        chunkss, _ = unify_chunks(*args)\n    else:"))
mutant("M4-blockid-from-other-operand", ["C01", "C15"], "BLOCKID-1", (OPS, "                offset = int(a[-1])  # convert from 0-d array\n                block_id = offset_to_block_id(offset, numblocks)\n                return func(*a[:-1], block_id=block_id, **kw)\n\n            return wrap\n\n        return _map_blocks(", "                offset = int(a[-1])  # convert from 0-d array\n                block_id = offset_to_block_id(offset, args[-1].numblocks)\n                return func(*a[:-1], block_id=block_id, **kw)\n\n            return wrap\n\n        return _map_blocks("))
mutant("M5-offsets-prepended", ["C01", "C15"], "BLOCKID-1", (OPS, "        new_arrays = arrays + (offsets,)", "        new_arrays = (offsets,) + arrays"))
mutant("M5b-offset-read-first", ["C01", "C15"], "BLOCKID-1", (OPS, "                offset = int(a[-1])  # convert from 0-d array\n                block_id = offset_to_block_id(offset, numblocks)\n                return func(*a[:-1], block_id=block_id, **kw)\n\n            return wrap\n\n        num_input_blocks", "                offset = int(a[0])  # convert from 0-d array\n                block_id = offset_to_block_id(offset, numblocks)\n                return func(*a[:-1], block_id=block_id, **kw)\n\n            return wrap\n\n        num_input_blocks"))
mutant("M5c-unravel-with-reversed-grid", ["C01", "C15"], "BLOCKID-1", (UTILSPY, "    return tuple(int(i) for i in np.unravel_index(offset, numblocks))", "    return tuple(int(i) for i in np.unravel_index(offset, numblocks[::-1]))"))
mutant("M6-template-not-passed", ["C01", "C15", "C17"], "KEYNAMES-1", (MANIP, "        x,\n        template,\n        shapes=[shape],", "        x,\n        shapes=[shape],"))
mutant("M7-key-names-stale-array", ["C01", "C15", "C17"], "KEYNAMES-1", (LINALG, "    Q = general_blockwise(\n        _q_matmul,\n        back_key_function,\n        Q1,\n        Q2_single,", "    Q = general_blockwise(\n        _q_matmul,\n        back_key_function,\n        Q1,\n        Q2,"))
mutant("M7b-scan-key-names-input", ["C01", "C15", "C17"], "KEYNAMES-1", (OPS, "            ChunkKey(scanned.name, out_coords),\n            ChunkKey(increment.name, inc_coords),", "            ChunkKey(array.name, out_coords),\n            ChunkKey(increment.name, inc_coords),"))
mutant("M73-in-names-reversed", ["C15", "C01"], "PROXY-KEYS-1", (OPS, "    zargs = [a._zarray for a in arrays]\n    in_names = [a.name for a in arrays]\n\n    extra_source_arrays = kwargs.pop(\"extra_source_arrays\", [])\n    source_arrays = list(arrays) + list(extra_source_arrays)\n\n    extra_projected_mem = kwargs.pop(\"extra_projected_mem\", 0)\n\n    num_input_blocks", "    zargs = [a._zarray for a in arrays]\n    in_names = [a.name for a in reversed(arrays)]\n\n    extra_source_arrays = kwargs.pop(\"extra_source_arrays\", [])\n    source_arrays = list(arrays) + list(extra_source_arrays)\n\n    extra_projected_mem = kwargs.pop(\"extra_projected_mem\", 0)\n\n    num_input_blocks"))
mutant("M73b-zip-not-strict-truncated", ["C15"], "PROXY-KEYS-1", (PBW, "    array_map = {name: array for name, array in zip(array_names, arrays, strict=True)}", "    array_map = {name: array for name, array in zip(array_names, arrays[1:])}"))
mutant("M73c-write-proxy-keyed-by-index", ["C15"], "PROXY-KEYS-1", (PBW, "        write_proxies[target_names[i]] = CubedArrayProxy(ta, chunksize)", "        write_proxies[f\"out_{i}\"] = CubedArrayProxy(ta, chunksize)"), also=("WRITE-GRID-1",))
mutant("M76-concat-assert-instead-of-raise", ["C17"], "ASSERT-1", (MANIP, "    if len({a.chunksize[axis] for a in arrays if a.numblocks[axis] > 1}) > 1:\n        raise ValueError(\n            f\"all the input array chunk sizes must match along the concatenation axis: {[x.chunksize[axis] for x in arrays]}\"\n        )", "    assert len({a.chunksize[axis] for a in arrays if a.numblocks[axis] > 1}) <= 1"))
mutant("M76b-new-raise-assertion", ["C17"], "ASSERT-1", (MANIP, "    if not arrays:\n        raise ValueError(\"Need array(s) to stack\")", "    if not arrays:\n        raise AssertionError(\"Need array(s) to stack\")"))
benign("B-new-elemwise-function", ["C01", "C16", "C19"], ("cubed/array_api/elementwise_functions.py", "def clip(", "def hypot2(x1, x2, /):\n    x1, x2 = _promote_scalars(x1, x2, \"hypot2\")\n    return elemwise(nxp.hypot, x1, x2, dtype=result_type(x1, x2))\n\n\ndef clip("))
benign("B-unify-in-helper", ["C01", "C17"], (MANIP, "    chunkss, arrays = unify_chunks(*uc_args, warn=False)\n\n    # offsets along axis", "    chunkss, arrays = _unify_for_concat(uc_args)\n\n    # offsets along axis"), (MANIP, "def concat(", "def _unify_for_concat(uc_args):\n    return unify_chunks(*uc_args, warn=False)\n\n\ndef concat("))

mutant("M16e-fuse-functions-swapped", ["C02"], "FUSE-PROV-1", (PBW, "        return pipeline2.config.function(pipeline1.config.function(*args))", "        return pipeline1.config.function(pipeline2.config.function(*args))"))
mutant("M16f-fuse-key-order-swapped", ["C02"], "FUSE-PROV-1", (PBW, "        return pipeline1.config.back_key_function(\n            pipeline2.config.back_key_function(out_key).args[0]\n        )", "        return pipeline2.config.back_key_function(\n            pipeline1.config.back_key_function(out_key).args[0]\n        )"))

# ---------------------------------------------------------------- UNITS-1 (thorough tier)
mutant("M85a-concat-start-times-numblocks", ["C01"], "UNITS-1", (MANIP, "        start = block_id[axis] * chunksize[axis]\n        stop = start + chunksize[axis]\n        stop = min(stop, shape[axis])\n\n        # produce a key", "        start = block_id[axis] * len(chunks[axis])\n        stop = start + chunksize[axis]\n        stop = min(stop, shape[axis])\n\n        # produce a key"))
mutant("M85b-flip-clamped-by-numblocks", ["C01"], "UNITS-1", (MANIP, "            stop = min(stop, x.shape[ax])\n\n            # flip start and stop", "            stop = min(stop, x.numblocks[ax])\n\n            # flip start and stop"))
mutant("M85c-partial-reduce-clamped-by-shape", ["C01", "C15"], "UNITS-1", (OPS, "                    min((bi + 1) * split_every.get(i, 1), x.numblocks[i]),", "                    min((bi + 1) * split_every.get(i, 1), x.shape[i]),"))
mutant("M85d-arg-offset-block-times-block", ["C01"], "UNITS-1", (OPS, "        size=to_chunksize(x.chunks)[axis],\n    )\n\n    # then reduce across blocks\n    return reduction(\n        out,\n        _arg_func,\n        combine_func=partial(_arg_combine, arg_func=arg_func),\n        aggregate_func=_arg_aggregate,", "        size=x.numblocks[axis],\n    )\n\n    # then reduce across blocks\n    return reduction(\n        out,\n        _arg_func,\n        combine_func=partial(_arg_combine, arg_func=arg_func),\n        aggregate_func=_arg_aggregate,"))
mutant("M85e-region-offset-without-division", ["C05", "C11", "C01"], "UNITS-1", (OPS, "            (0 if sl.start is None else sl.start // cs)\n", "            (0 if sl.start is None else sl.start)\n"))

mutant("M86-rechunk-storage-grid-not-split", ["C05"], "RECHUNK-GRID-1", (OPS, "        target_chunks = split_chunks(x.shape, copy_chunks, target_chunks)\n", "        target_chunks = normalize_chunks(target_chunks, x.shape, dtype=x.dtype)\n"))
mutant("M86b-split-chunks-skips-first-axis", ["C05"], "RECHUNK-GRID-1", (OPS, "        for n, wc, tc in zip(shape, source_chunks, target_chunks)\n    )", "        for n, wc, tc in zip(shape, source_chunks, target_chunks)\n        if n > 1\n    )"))
mutant("M87-threads-executor-drops-callbacks", ["C13"], "EVENTS-1", (LOCAL, "            await async_map_dag(\n                create_futures_func,\n                dag=dag,\n                callbacks=callbacks,\n                compute_arrays_in_parallel=compute_arrays_in_parallel,\n                **kwargs,\n            )\n        finally:\n            # don't wait for any cancelled tasks\n            concurrent_executor.shutdown(wait=False)\n\n\ndef processes_create_futures_func", "            await async_map_dag(\n                create_futures_func,\n                dag=dag,\n                callbacks=None,\n                compute_arrays_in_parallel=compute_arrays_in_parallel,\n                **kwargs,\n            )\n        finally:\n            # don't wait for any cancelled tasks\n            concurrent_executor.shutdown(wait=False)\n\n\ndef processes_create_futures_func"))

benign(
    "B-key-dispatch-generator-helper",
    ["C15", "C02", "C03"],
    (
        PBW,
        "    if isinstance(arg, list):\n        return [\n            FunctionArgs(\n                *_apply_blockwise_key_func_to_chunk_key(\n                    a, back_key_functions_dict\n                ).args,\n                output_name=a.name,\n            )\n            for a in arg\n        ]\n    else:\n        return (\n            FunctionArgs(\n                *_apply_blockwise_key_func_to_chunk_key(\n                    a, back_key_functions_dict\n                ).args,\n                output_name=a.name,\n            )\n            for a in arg\n        )\n",
        "    if isinstance(arg, list):\n        return list(_apply_keys(arg, back_key_functions_dict))\n    else:\n        return _apply_keys(arg, back_key_functions_dict)\n\n\ndef _apply_keys(args, back_key_functions_dict):\n    for a in args:\n        yield FunctionArgs(\n            *_apply_blockwise_key_func_to_chunk_key(a, back_key_functions_dict).args,\n            output_name=a.name,\n        )\n",
    ),
)
mutant(
    "M88-key-function-cached-per-collection",
    ["C15", "C02"],
    "NEST-DISPATCH-1",
    (
        PBW,
        "    if isinstance(arg, list):\n        return [\n            FunctionArgs(\n                *_apply_blockwise_key_func_to_chunk_key(\n                    a, back_key_functions_dict\n                ).args,\n                output_name=a.name,\n            )\n            for a in arg\n        ]\n    else:\n        return (\n            FunctionArgs(\n                *_apply_blockwise_key_func_to_chunk_key(\n                    a, back_key_functions_dict\n                ).args,\n                output_name=a.name,\n            )\n            for a in arg\n        )\n",
        "    if isinstance(arg, list):\n        return list(_apply_keys(arg, back_key_functions_dict))\n    else:\n        return _apply_keys(arg, back_key_functions_dict)\n\n\ndef _apply_keys(args, back_key_functions_dict):\n    kf = None\n    for a in args:\n        if kf is None:\n            kf = back_key_functions_dict.get(a.name, lambda k: FunctionArgs(k, output_name=k.name))\n        yield FunctionArgs(*kf(a).args, output_name=a.name)\n",
    ),
)
mutant("M89-regular-planner-align-hoisted", ["C05"], "RECHUNK-GRID-1", ("cubed/core/rechunk.py", "        read_chunks = _fix_copy_chunks(\n            shape, read_chunks, (stage_chunks + [write_chunks])[0]\n        )\n", "        read_chunks = _fix_copy_chunks(shape, read_chunks, write_chunks)\n"))

mutant(
    "M90-resume-any-output-via-helper",
    ["C09"],
    "RESUME-ALL-1",
    (PLAN, "    for output in dag.successors(name):\n        target = nodes[output].get(\"target\", None)\n        if target is not None:\n            try:\n                target = open_if_lazy_zarr_array(target)\n                if not hasattr(target, \"nchunks_initialized\"):\n                    raise NotImplementedError(\n                        f\"Zarr array type {type(target)} does not support resume since it doesn't have a 'nchunks_initialized' property\"\n                    )\n                # this check can be expensive since it has to list the directory to find nchunks_initialized\n                if target.ndim == 0 or target.nchunks_initialized != target.nchunks:\n                    return False\n            except ArrayNotFoundError:\n                return False\n    return True\n", "    targets = [nodes[o].get(\"target\", None) for o in dag.successors(name)]\n    return any(_complete(t) for t in targets if t is not None)\n\n\ndef _complete(target):\n    try:\n        target = open_if_lazy_zarr_array(target)\n        if not hasattr(target, \"nchunks_initialized\"):\n            raise NotImplementedError(\"no nchunks_initialized\")\n        return target.ndim != 0 and target.nchunks_initialized == target.nchunks\n    except ArrayNotFoundError:\n        return False\n"),
)
benign(
    "B-resume-all-via-helper",
    ["C09"],
    (PLAN, "    for output in dag.successors(name):\n        target = nodes[output].get(\"target\", None)\n        if target is not None:\n            try:\n                target = open_if_lazy_zarr_array(target)\n                if not hasattr(target, \"nchunks_initialized\"):\n                    raise NotImplementedError(\n                        f\"Zarr array type {type(target)} does not support resume since it doesn't have a 'nchunks_initialized' property\"\n                    )\n                # this check can be expensive since it has to list the directory to find nchunks_initialized\n                if target.ndim == 0 or target.nchunks_initialized != target.nchunks:\n                    return False\n            except ArrayNotFoundError:\n                return False\n    return True\n", "    targets = [nodes[o].get(\"target\", None) for o in dag.successors(name)]\n    return all(_complete(t) for t in targets if t is not None)\n\n\ndef _complete(target):\n    try:\n        target = open_if_lazy_zarr_array(target)\n        if not hasattr(target, \"nchunks_initialized\"):\n            raise NotImplementedError(\"no nchunks_initialized\")\n        return target.ndim != 0 and target.nchunks_initialized == target.nchunks\n    except ArrayNotFoundError:\n        return False\n"),
)
mutant("M91-twin-entry-popped-alone", ["C08"], "MAP-TWIN-SYM-1", (ASYNC, "                backup = backups.get(task, None)\n                if backup:\n                    if not backup.done() or not backup.exception():\n                        continue", "                backup = backups.pop(task, None)\n                if backup:\n                    if not backup.done() or not backup.exception():\n                        continue"))
mutant("M92-accum-order-swapped-dict-branch", ["C01"], "ACCUM-ORDER-1", (OPS, "                k: nxp.concat([result[k], reduced_chunk[k]], axis=axis[0])", "                k: nxp.concat([reduced_chunk[k], result[k]], axis=axis[0])"))
mutant("M93-region-offsets-stale-chunk", ["C11"], "STORE-GUARD-1", (OPS, "        block_offsets = [\n            (0 if sl.start is None else sl.start // cs)\n            for sl, cs in zip(region, chunks)\n        ]", "        block_offsets = [(sl.start or 0) // cs for sl in region]"))

mutant("M94-clip-truth-tests-arrays", ["C16"], "LAZY-IMPLICIT-1", ("cubed/array_api/elementwise_functions.py", "    else:  # min is not None and max is not None\n        min = asarray(min, spec=x.spec)", "    else:  # min is not None and max is not None\n        if min > max:\n            raise ValueError(\"min must be less than or equal to max in clip\")\n        min = asarray(min, spec=x.spec)"))
mutant("M95-context-id-inherited", ["C20", "C10"], "CLEANUP-1", (PLAN, "CONTEXT_ID = f\"cubed-{datetime.now().strftime('%Y%m%dT%H%M%S')}-{uuid.uuid4()}\"", "import os\nCONTEXT_ID = os.environ.setdefault(\"CUBED_CONTEXT_ID\", f\"cubed-{datetime.now().strftime('%Y%m%dT%H%M%S')}-{uuid.uuid4()}\")"))
mutant("M96-stack-chunks-from-stale-alias", ["C01", "C17"], "ALIGN-1", (MANIP, "    inds = [list(range(a.ndim)) for a in arrays]\n    uc_args = chain.from_iterable(zip(arrays, inds))\n    _, arrays = unify_chunks(*uc_args, warn=False)\n\n    a = arrays[0]\n\n    axis = validate_axis(axis, a.ndim + 1)", "    a = arrays[0]\n\n    axis = validate_axis(axis, a.ndim + 1)\n    inds = [list(range(a.ndim)) for a in arrays]\n    uc_args = chain.from_iterable(zip(arrays, inds))\n    _, arrays = unify_chunks(*uc_args, warn=False)\n"))
mutant("M97-refill-before-wait", ["C07", "C08"], "MAP-DRAIN-1", (ASYNC, "    while pending:\n        finished, pending = await asyncio.wait(", "    while pending:\n        if batch_size is not None and len(pending) < batch_size:\n            inputs = next(input_batches, None)  # type: ignore\n            if inputs is not None:\n                new_tasks = {\n                    task: i for i, task in create_futures_func(inputs, **kwargs)\n                }\n                tasks.update(new_tasks)\n                pending.update(new_tasks.keys())\n                t = time.monotonic()\n                start_times.update({f: t for f in new_tasks.keys()})\n        finished, pending = await asyncio.wait("), (ASYNC, "        if batch_size is not None and len(pending) < batch_size:\n            inputs = next(input_batches, None)  # type: ignore\n            if inputs is not None:\n                new_tasks = {\n                    task: i for i, task in create_futures_func(inputs, **kwargs)\n                }\n                tasks.update(new_tasks)\n                pending.update(new_tasks.keys())\n                t = time.monotonic()\n                start_times.update({f: t for f in new_tasks.keys()})\n\n\nasync def async_map_dag", "\n\nasync def async_map_dag"))
mutant("M98-partial-reduce-deferred-reduce", ["C03"], "NEST-LAZY-1", (OPS, "            result = nxp.concat([result, reduced_chunk], axis=axis[0])\n            result = reduce_func(result, axis=axis, keepdims=True)\n\n    return result", "            result = nxp.concat([result, reduced_chunk], axis=axis[0])\n    result = reduce_func(result, axis=axis, keepdims=True)\n\n    return result"))
mutant("M99-retries-zero-replaced", ["C08"], "RETRY-1", (LOCAL, "                concurrent_executor, run_func_threads, kwargs.pop(\"retries\", 2)\n", "                concurrent_executor, run_func_threads, kwargs.pop(\"retries\", None) or 2\n"))
mutant("M100-shard-guard-rechunks-to-chunks", ["C05", "C11"], "TARGET-COMPAT-1", (OPS, "                source = source.rechunk(target.shards)", "                source = source.rechunk(target.chunks)"))
mutant("M101-store-nofuse-on-wrong-object", ["C11"], "STORE-NOFUSE-1", (OPS, "                    op.fusable_with_successors = False\n", "                    op.pipeline.config.fusable_with_successors = False\n"), also=("OWN-MUT-1",))
mutant("M102-pickled-kwargs-cached", ["C06"], "PICKLE-PAIR-1", (LOCAL, "        pickled_kwargs = {k: cloudpickle.dumps(v) for k, v in kwargs.items()}\n", "        key = kwargs.get(\"name\")\n        if key not in _CACHE:\n            _CACHE[key] = {k: cloudpickle.dumps(v) for k, v in kwargs.items()}\n        pickled_kwargs = _CACHE[key]\n"), (LOCAL, "def processes_create_futures_func(concurrent_executor, function: Callable[..., Any]):\n", "def processes_create_futures_func(concurrent_executor, function: Callable[..., Any]):\n    _CACHE: dict = {}\n\n"))
mutant("M103-coord-maps-keyed-by-name", ["C15"], "PROXY-KEYS-1", (PBW, "        for cmap, axes, (arg, ind) in zip(\n            coord_maps, concat_axes, argpairs, strict=True\n        ):\n            if ind is None:\n                args.append(arg)\n            else:\n", "        plans = {a: (cm, ax) for cm, ax, (a, _i) in zip(coord_maps, concat_axes, argpairs, strict=True)}\n        for arg, ind in argpairs:\n            if ind is None:\n                args.append(arg)\n            else:\n                cmap, axes = plans[arg]\n"))

mutant("M104-split-every-divides-by-len", ["C17"], "DIVZERO-1", (OPS, "        n = builtins.max(int(split_every ** (1 / (len(axis) or 1))), 2)", "        n = builtins.max(int(split_every ** (1 / len(axis))), 2)"))
mutant("M105-spec-check-by-identity", ["C18", "C19", "C20"], "SPEC-CHECK-2", (ARRAY, "    if not all(s == specs[0] for s in specs):", "    if not all(s is specs[0] for s in specs):"))

mutant("M106-reduced-chunks-sized-with-input-dtype", ["C03"], "MEM-DTYPE-1", (OPS, "    extra_projected_mem = x.chunkmem + 2 * array_memory(dtype, to_chunksize(chunks))", "    extra_projected_mem = x.chunkmem + 2 * array_memory(x.dtype, to_chunksize(chunks))"))
mutant("M107-work-dir-used-directly", ["C19", "C20", "C10"], "CLEANUP-1", (PLAN, "    context_dir = join_path(work_dir, CONTEXT_ID)\n    delete_on_exit(context_dir)\n    return context_dir", "    if spec is not None and spec.work_dir is not None:\n        return str(spec.work_dir)\n    context_dir = join_path(work_dir, CONTEXT_ID)\n    delete_on_exit(context_dir)\n    return context_dir"))

mutant("M108-pad-after-uses-before-value", ["C01"], "TWIN-ROLE-1", ("cubed/array/pad.py", "                    tuple(shape),\n                    val_after,", "                    tuple(shape),\n                    val_before,"))
mutant("M109-blockview-nominal-chunks", ["C12"], "META-1", ("cubed/core/indexing.py", "        chunks = tuple(\n            tuple(np.array(ch)[ia].tolist())\n            for ia, ch in zip(idx.raw, self.array.chunks)\n        )", "        nsel = idx.newshape(self.array.numblocks)\n        chunks = tuple((cs,) * n for cs, n in zip(self.array.chunksize, nsel))"))


# ---------------------------------------------------------------- whole-tree benign transforms
ALL_PROPS = [f"C{i:02d}" for i in range(1, 21)]
CORPUS.append({"id": "B-unparse-roundtrip-every-module", "kind": "benign", "props": ALL_PROPS, "rule": None, "edits": [], "transform": "unparse-all"})
CORPUS.append({"id": "B-shift-all-line-numbers", "kind": "benign", "props": ALL_PROPS, "rule": None, "edits": [], "transform": "shift-lines"})
CORPUS.append({"id": "B-rename-every-local-suffix", "kind": "benign", "props": ALL_PROPS, "rule": None, "edits": [], "transform": "rename-locals"})
CORPUS.append({"id": "B-rename-every-local-opaque", "kind": "benign", "props": ALL_PROPS, "rule": None, "edits": [], "transform": "rename-opaque"})
for _k in ("swap-if-else", "flip-compare", "sort-kwargs", "temp-return", "drop-else-after-jump", "expand-augassign", "split-and", "add-logging", "annotate-assign", "collect-kwargs"):
    CORPUS.append({"id": f"B-refactor-{_k}", "kind": "benign", "props": ALL_PROPS, "rule": None, "edits": [], "transform": _k})


# --------------------------------------------------------------- repaired twins of the known findings
# (guidance: "silent on a repaired scratch copy"): with the repair applied the KNOWN-FINDING
# disappears and nothing else is reported.  F5 has no small repair (that is why it is a
# known finding and not a fix: commit), so it has no twin.
repair(
    "R-F7-scan-assert-to-valueerror",
    ["C17"],
    "F7",
    (OPS, "    assert increment.shape[axis] == scanned.numblocks[axis]\n", "    if increment.shape[axis] != scanned.numblocks[axis]:\n        raise ValueError(\"cumulative scan: block count of the increment does not match the scanned array\")\n"),
)
repair(
    "R-F9-gensym-process-token",
    ["C20"],
    "F9",
    (ARRAY, "sym_counter = 0\n\n\ndef gensym(name=\"array\"):", "import uuid\n\nPROCESS_TOKEN = uuid.uuid4().hex[:8]\nsym_counter = 0\n\n\ndef gensym(name=\"array\"):"),
    (ARRAY, "    return f\"{name}-{sym_counter:03}\"", "    return f\"{name}-{PROCESS_TOKEN}-{sym_counter:03}\""),
    (PLAN, "    global sym_counter\n    sym_counter += 1\n    return f\"{name}-{sym_counter:03}\"", "    global sym_counter\n    sym_counter += 1\n    return f\"{name}-{CONTEXT_ID}-{sym_counter:03}\""),
)
repair(
    "R-F6-rechunk-to-target-chunks",
    ["C05", "C11"],
    "F6",
    (OPS, "                source = source.rechunk(target.shards)\n    if not is_storage_array(target):", "                source = source.rechunk(target.shards)\n        if hasattr(target, \"chunks\"):\n            if tuple(target.chunks) != source.chunksize:\n                source = source.rechunk(target.chunks)\n    if not is_storage_array(target):"),
)
repair(
    "R-F9b-merge-detects-name-collision",
    ["C20"],
    "F9",
    (PLAN, "    dags = [x._plan.dag for x in arrays if hasattr(x, \"_plan\")]\n    return nx.compose_all(dags)", "    dags = [x._plan.dag for x in arrays if hasattr(x, \"_plan\")]\n    seen = {}\n    for dag in dags:\n        for n, d in dag.nodes(data=True):\n            if n in seen and seen[n].get(\"target\") is not d.get(\"target\"):\n                raise ValueError(f\"two different plan nodes share the name {n}\")\n            seen[n] = d\n    return nx.compose_all(dags)"),
)


# ------------------------------------------------ variants for the rules that were written because of a
# seeded change (§11.6): a second, different way to break the same obligation, and a
# behaviour-preserving edit of the same code that must stay silent
PAD = "cubed/array/pad.py"
ELEM = "cubed/array_api/elementwise_functions.py"
mutant("M110-pad-before-uses-after-value", ["C01"], "TWIN-ROLE-1", (PAD, "                    tuple(shape),\n                    val_before,", "                    tuple(shape),\n                    val_after,"))
mutant("M111-pad-after-width-from-before", ["C01"], "TWIN-ROLE-1", (PAD, "            shape[axis] = pad_after\n", "            shape[axis] = pad_before\n"))
benign("B-pad-min-args-commuted", ["C01"], (PAD, "            c[axis] = min(pad_after, result.chunksize[axis])", "            c[axis] = min(result.chunksize[axis], pad_after)"))
benign("B-pad-after-block-restructured", ["C01"], (PAD, "        if pad_after > 0:\n            shape = list(result.shape)\n            shape[axis] = pad_after\n", "        if pad_after > 0:\n            shape = [pad_after if i == axis else s for i, s in enumerate(result.shape)]\n"))
mutant("M112-product-from-empty-pool-guard-dropped", ["C17"], "DIVZERO-1", (PBW, "    if not pools or any(len(pool) == 0 for pool in pools):\n        return\n", "    if not pools:\n        return\n"))
benign("B-split-every-max-guard", ["C17"], (OPS, "        n = builtins.max(int(split_every ** (1 / (len(axis) or 1))), 2)", "        n = builtins.max(int(split_every ** (1 / max(len(axis), 1))), 2)"))
mutant("M113-reduced-chunks-sized-with-input-dtype-alias", ["C03"], "MEM-DTYPE-1", (OPS, "    extra_projected_mem = x.chunkmem + 2 * array_memory(dtype, to_chunksize(chunks))", "    in_dtype = x.dtype\n    extra_projected_mem = x.chunkmem + 2 * array_memory(in_dtype, to_chunksize(chunks))"))
benign("B-reduced-chunks-dtype-alias", ["C03"], (OPS, "    extra_projected_mem = x.chunkmem + 2 * array_memory(dtype, to_chunksize(chunks))", "    out_dtype = dtype\n    reduced = array_memory(out_dtype, to_chunksize(chunks))\n    extra_projected_mem = x.chunkmem + 2 * reduced"))
mutant("M114-worker-drops-kwargs", ["C06"], "PICKLE-PAIR-1", (LOCAL, "    kwargs = {k: cloudpickle.loads(v) for k, v in kwargs.items()}\n    return f(inp, **kwargs)", "    return f(inp)"))
mutant("M115-whole-batch-pickled-as-input", ["C06"], "PICKLE-PAIR-1", (LOCAL, "                        cloudpickle.dumps(i),\n", "                        cloudpickle.dumps(input),\n"))
benign("B-pickled-function-hoisted", ["C06"], (LOCAL, "        pickled_kwargs = {k: cloudpickle.dumps(v) for k, v in kwargs.items()}\n", "        pickled_kwargs = {k: cloudpickle.dumps(v) for k, v in kwargs.items()}\n        pickled_function = cloudpickle.dumps(function)\n"), (LOCAL, "                        cloudpickle.dumps(function),\n", "                        pickled_function,\n"))
mutant("M116-store-blockwise-drops-nofuse", ["C11", "C02"], "STORE-NOFUSE-1", (OPS, "                target_store=target,\n                fusable_with_successors=False,\n", "                target_store=target,\n"))
benign("B-store-retarget-statements-reordered", ["C11"], (OPS, "                    op.target_array = target\n                    op.fusable_with_successors = False\n", "                    op.fusable_with_successors = False\n                    op.target_array = target\n"))
mutant("M117-clip-equal-bounds-shortcut", ["C16"], "LAZY-IMPLICIT-1", (ELEM, "    else:  # min is not None and max is not None\n        min = asarray(min, spec=x.spec)", "    else:  # min is not None and max is not None\n        if min == max:\n            return full_like(x, min)\n        min = asarray(min, spec=x.spec)"))
benign("B-clip-scalar-bounds-validated", ["C16"], (ELEM, "    else:  # min is not None and max is not None\n        min = asarray(min, spec=x.spec)", "    else:  # min is not None and max is not None\n        if isinstance(min, (int, float)) and isinstance(max, (int, float)) and min > max:\n            raise ValueError(\"min must not exceed max\")\n        min = asarray(min, spec=x.spec)"))
mutant("M118-twin-one-direction-kept", ["C08"], "MAP-TWIN-SYM-1", (ASYNC, "                    del backups[task]\n                    del backups[backup]\n", "                    del backups[task]\n"))
benign("B-twin-removed-with-pop", ["C08"], (ASYNC, "                    del backups[task]\n                    del backups[backup]\n", "                    backups.pop(task)\n                    backups.pop(backup)\n"))
mutant("M119-accum-order-swapped-plain-branch", ["C01"], "ACCUM-ORDER-1", (OPS, "            result = nxp.concat([result, reduced_chunk], axis=axis[0])", "            result = nxp.concat([reduced_chunk, result], axis=axis[0])"))
benign("B-accum-concat-tuple", ["C01"], (OPS, "            result = nxp.concat([result, reduced_chunk], axis=axis[0])", "            result = nxp.concat((result, reduced_chunk), axis=axis[0])"))
# unrelated edits next to known findings: the KNOWN-FINDING keys must still match (no re-report)
benign("B-store-blockwise-kwargs-reordered", ["C05", "C11", "C10"], (OPS, "                dtype=source.dtype,\n                align_arrays=False,\n                target_store=target,\n", "                align_arrays=False,\n                dtype=source.dtype,\n                target_store=target,\n"))
benign("B-store-region-local-renamed", ["C05", "C11", "C13"], (OPS, "        out = general_blockwise(\n            identity,\n            back_key_function,\n            source,\n            shapes=[shape],", "        stored = general_blockwise(\n            identity,\n            back_key_function,\n            source,\n            shapes=[shape],"), (OPS, "        assert isinstance(out, Array)  # single output\n        return out\n\n\ndef to_zarr(", "        assert isinstance(stored, Array)  # single output\n        return stored\n\n\ndef to_zarr("))
# seeded round 2 (C08-3): the superseded check must guard the raise as well as the yield
mutant(
    "M120-superseded-check-after-exception-test",
    ["C08"],
    "MAP-ONCE-1",
    (ASYNC, "            if task in superseded:\n                # the twin finished in the same round and was handled first\n                continue\n", ""),
    (ASYNC, "                raise task.exception()  # type: ignore\n            end_times[task] = time.monotonic()", "                raise task.exception()  # type: ignore\n            if task in superseded:\n                continue\n            end_times[task] = time.monotonic()"),
)
mutant(
    "M121-superseded-check-only-for-success",
    ["C08"],
    "MAP-ONCE-1",
    (ASYNC, "            if task in superseded:\n                # the twin finished in the same round and was handled first\n                continue\n", ""),
    (ASYNC, "            if task.exception():\n                # if the task has a backup that is not done", "            if not task.exception() and task in superseded:\n                continue\n            if task.exception():\n                # if the task has a backup that is not done"),
)
benign("B-superseded-add-before-cancel", ["C08", "C13"], (ASYNC, "                    backup.cancel()\n                    superseded.add(backup)\n", "                    superseded.add(backup)\n                    backup.cancel()\n"))
# seeded round 2 (C12-4): declared metadata read from a stale alias of a rebound operand
UTILF = "cubed/array_api/utility_functions.py"
mutant(
    "M122-diff-dtype-alias-before-concat",
    ["C12"],
    "META-STALE-1",
    (UTILF, "    axis = validate_axis(axis, x.ndim)\n\n    if n < 0:\n        raise ValueError(f\"order of diff", "    axis = validate_axis(axis, x.ndim)\n    dtype = x.dtype\n\n    if n < 0:\n        raise ValueError(f\"order of diff"),
    (UTILF, "        x,\n        dtype=x.dtype,\n        chunks=chunks,\n        depth=depth,", "        x,\n        dtype=dtype,\n        chunks=chunks,\n        depth=depth,"),
)
mutant(
    "M123-nextafter-dtype-before-promotion",
    ["C12"],
    "META-STALE-1",
    (ELEM, "def nextafter(x1, x2, /):\n    x1, x2 = _promote_scalars(x1, x2, \"nextafter\")", "def nextafter(x1, x2, /):\n    dtype = x1.dtype\n    x1, x2 = _promote_scalars(x1, x2, \"nextafter\")"),
    (ELEM, "    return elemwise(nxp.nextafter, x1, x2, dtype=x1.dtype)", "    return elemwise(nxp.nextafter, x1, x2, dtype=dtype)"),
)
benign(
    "B-store-dtype-alias-across-rechunk",
    ["C12", "C11"],
    (OPS, "    identity = lambda a: a\n    blockwise_kwargs = blockwise_kwargs or {}\n    if region is None or all(r == slice(None) for r in region):", "    identity = lambda a: a\n    blockwise_kwargs = blockwise_kwargs or {}\n    src_dtype = source.dtype\n    if region is None or all(r == slice(None) for r in region):"),
    (OPS, "                source,\n                ind,\n                dtype=source.dtype,\n", "                source,\n                ind,\n                dtype=src_dtype,\n"),
)
benign(
    "B-diff-dtype-alias-after-concat",
    ["C12"],
    (UTILF, "    shape = tuple(s - n if i == axis else s for i, s in enumerate(x.shape))\n    chunks = normalize_chunks(x.chunksize, shape, dtype=x.dtype)", "    shape = tuple(s - n if i == axis else s for i, s in enumerate(x.shape))\n    dtype = x.dtype\n    chunks = normalize_chunks(x.chunksize, shape, dtype=dtype)"),
    (UTILF, "        x,\n        dtype=x.dtype,\n        chunks=chunks,\n        depth=depth,", "        x,\n        dtype=dtype,\n        chunks=chunks,\n        depth=depth,"),
)
# seeded round 2 (C05-4 / C06-3): the proxy keeps an open handle across the re-targeting of the store operation
PTYPES_F = "cubed/primitive/types.py"
mutant(
    "M124-proxy-caches-open-handle",
    ["C05", "C06", "C11"],
    "PROXY-OPEN-1",
    (PTYPES_F, "        self.array = array\n        self.chunks = chunks\n\n    def open(self) -> zarr.Array:\n        return open_if_lazy_zarr_array(self.array)", "        self.array = array\n        self.chunks = chunks\n        self._opened = None\n\n    def open(self) -> zarr.Array:\n        if self._opened is None:\n            self._opened = open_if_lazy_zarr_array(self.array)\n        return self._opened"),
    also=("TASK-PURE-1",),
)
mutant(
    "M125-proxy-open-memoised-by-decorator",
    ["C05", "C06", "C11"],
    "PROXY-OPEN-1",
    (PTYPES_F, "    def open(self) -> zarr.Array:\n        return open_if_lazy_zarr_array(self.array)", "    @functools.cache\n    def open(self) -> zarr.Array:\n        return open_if_lazy_zarr_array(self.array)"),
    (PTYPES_F, "class CubedArrayProxy:", "import functools\n\n\nclass CubedArrayProxy:"),
)
benign(
    "B-proxy-open-with-local",
    ["C05", "C06", "C11"],
    (PTYPES_F, "    def open(self) -> zarr.Array:\n        return open_if_lazy_zarr_array(self.array)", "    def open(self) -> zarr.Array:\n        \"\"\"Open the (possibly lazy) array this proxy currently points to.\"\"\"\n        opened = open_if_lazy_zarr_array(self.array)\n        return opened"),
)
# F11 (fixed in 3fddc14): a public parameter used as a task-time divisor needs a build-time guard
MANIPF = "cubed/array_api/manipulation_functions.py"
mutant("M-F11-repeat-positivity-guard-removed", ["C17"], "DIVZERO-1", (MANIPF, "    if repeats < 1:\n        raise ValueError(\"repeat only supports positive values for `repeats`\")\n", ""))
mutant("M126-repeat-guard-only-warns", ["C17"], "DIVZERO-1", (MANIPF, "    if repeats < 1:\n        raise ValueError(\"repeat only supports positive values for `repeats`\")\n", "    if repeats < 1:\n        import warnings\n\n        warnings.warn(\"repeat with non-positive `repeats`\")\n"))
benign("B-repeat-guard-le-zero", ["C17"], (MANIPF, "    if repeats < 1:\n        raise ValueError(\"repeat only supports positive values for `repeats`\")\n", "    if repeats <= 0:\n        raise ValueError(f\"repeat needs a positive `repeats`, got {repeats}\")\n"))
benign("B-repeat-guard-merged", ["C17"], (MANIPF, "    if not isinstance(repeats, int):\n        raise ValueError(\"repeat only supports integral values for `repeats`\")\n    if repeats < 1:\n        raise ValueError(\"repeat only supports positive values for `repeats`\")\n", "    if not isinstance(repeats, int) or repeats < 1:\n        raise ValueError(\"repeat only supports positive integral values for `repeats`\")\n"))
# seeded round 2 (C03-4): per-block data collected across the block loop
mutant(
    "M127-partial-reduce-collects-then-reduces-once",
    ["C03"],
    "NEST-LAZY-1",
    (OPS, "    result = None\n    for array in arrays:\n        if initial_func is not None:", "    result = None\n    parts = []\n    for array in arrays:\n        if initial_func is not None:"),
    (OPS, "        else:\n            # only need to concatenate along first axis\n            result = nxp.concat([result, reduced_chunk], axis=axis[0])\n            result = reduce_func(result, axis=axis, keepdims=True)\n\n    return result", "        else:\n            parts.append(reduced_chunk)\n    if parts:\n        result = reduce_func(nxp.concat([result] + parts, axis=axis[0]), axis=axis, keepdims=True)\n\n    return result"),
)
benign(
    "B-partial-reduce-counts-blocks",
    ["C03"],
    (OPS, "    result = None\n    for array in arrays:\n        if initial_func is not None:", "    result = None\n    seen_shapes = []\n    for array in arrays:\n        seen_shapes.append(1)\n        if initial_func is not None:"),
)
# seeded round 2 (C15-3, C15-4)
mutant(
    "M128-index-patterns-keyed-by-array-name",
    ["C15", "C01"],
    "PROXY-KEYS-1",
    (PBW, "    argindsstr: list[Any] = []\n    for name, ind in zip(array_names, inds, strict=True):\n        argindsstr.extend((name, ind))", "    arginds = dict(zip(array_names, inds))\n    argindsstr: list[Any] = []\n    for name in array_names:\n        argindsstr.extend((name, arginds[name]))"),
)
mutant(
    "M129-index-patterns-in-numblocks-loop",
    ["C15", "C01"],
    "PROXY-KEYS-1",
    (PBW, "        numblocks[name] = tuple(map(len, input_chunks))\n", "        numblocks[name] = tuple(map(len, input_chunks))\n        patterns[name] = inds[len(patterns)]\n"),
    (PBW, "    numblocks: dict[str, tuple[int, ...]] = {}\n    for name, array in zip(array_names, arrays, strict=True):", "    numblocks: dict[str, tuple[int, ...]] = {}\n    patterns: dict[str, Any] = {}\n    for name, array in zip(array_names, arrays, strict=True):"),
)
benign(
    "B-numblocks-dictcomp",
    ["C15", "C01"],
    (PBW, "    argindsstr: list[Any] = []\n    for name, ind in zip(array_names, inds, strict=True):\n        argindsstr.extend((name, ind))", "    argindsstr: list[Any] = []\n    for pair in zip(array_names, inds, strict=True):\n        argindsstr.extend(pair)"),
)
mutant(
    "M130-fused-key-func-filters-predecessor-dict",
    ["C15", "C02"],
    "NEST-DISPATCH-1",
    (PBW, "        func_args = tuple(\n            apply_blockwise_key_func(a, predecessor_back_key_functions_dict)\n            for a in args\n        )", "        live = {k: v for k, v in predecessor_back_key_functions_dict.items() if v is not None}\n        func_args = tuple(apply_blockwise_key_func(a, live) for a in args)"),
)
# seeded round 2 (C07-3, C13-3, C13-4)
mutant(
    "M131-superseded-mark-only-while-pending",
    ["C13", "C08"],
    "MAP-ONCE-1",
    (ASYNC, "                    if backup in pending:\n                        pending.remove(backup)\n                    del backups[task]\n                    del backups[backup]\n                    backup.cancel()\n                    superseded.add(backup)\n", "                    if backup in pending:\n                        pending.remove(backup)\n                        superseded.add(backup)\n                    del backups[task]\n                    del backups[backup]\n                    backup.cancel()\n"),
)
mutant(
    "M132-region-task-list-is-generator",
    ["C13"],
    "COUNT-1",
    (OPS, "        output_blocks = OutputBlocksIterable(region, shape, chunks)\n", "        output_blocks = (list(cp[0]) for cp in _create_zarr_indexer(region, shape, chunks))\n"),
)
benign(
    "B-region-task-list-is-list",
    ["C13", "C11"],
    (OPS, "        output_blocks = OutputBlocksIterable(region, shape, chunks)\n", "        output_blocks = [list(cp[0]) for cp in _create_zarr_indexer(region, shape, chunks)]\n"),
)
mutant(
    "M133-resume-checks-first-output-only",
    ["C09", "C07", "C10"],
    "RESUME-ALL-1",
    (PLAN, "    for output in dag.successors(name):\n        target = nodes[output].get(\"target\", None)\n        if target is not None:\n            try:", "    for output in list(dag.successors(name))[:1]:\n        target = nodes[output].get(\"target\", None)\n        if target is not None:\n            try:"),
)
# seeded round 2 (C10-3, C11-4, C18-4, C20-3, C20-4): clauses added / registered because of them
UTILS_F = "cubed/utils.py"
mutant(
    "M134-skip-node-when-consumers-computed",
    ["C07", "C09", "C10"],
    "BARRIER-SRC-1",
    (PIPE, "    return nodes[name].get(\"computed\", False)", "    if nodes[name].get(\"computed\", False):\n        return True\n    readers = [op for out in dag.successors(name) for op in dag.successors(out)]\n    return bool(readers) and all(nodes[op].get(\"computed\", False) for op in readers)"),
)
mutant(
    "M135-primitive-wraps-task-iterable-in-map",
    ["C13", "C11"],
    "COUNT-1",
    (PBW, "    mappable = output_blocks if output_blocks is not None else ChunkKeys(chunks_normal)", "    mappable = map(list, output_blocks) if output_blocks is not None else ChunkKeys(chunks_normal)"),
)
benign(
    "B-primitive-mappable-if-statement",
    ["C13", "C11"],
    (PBW, "    mappable = output_blocks if output_blocks is not None else ChunkKeys(chunks_normal)", "    if output_blocks is not None:\n        mappable = output_blocks\n    else:\n        mappable = ChunkKeys(chunks_normal)"),
)
mutant(
    "M136-bytes-rounded-before-integrality-test",
    ["C18"],
    "BYTES-1",
    (UTILS_F, "        size = float(value) * unit_factor\n", "        size = float(round(float(value) * unit_factor))\n"),
)
benign(
    "B-bytes-product-in-two-steps",
    ["C18"],
    (UTILS_F, "        size = float(value) * unit_factor\n", "        number = float(value)\n        size = number * unit_factor\n"),
)
mutant(
    "M137-spec-eq-compares-instance-dicts",
    ["C18", "C19", "C20"],
    "SPEC-EQ-1",
    (SPECPY, "            return (\n                self.work_dir == other.work_dir\n                and self.intermediate_store == other.intermediate_store\n                and self.allowed_mem == other.allowed_mem\n                and self.reserved_mem == other.reserved_mem\n                and self.executor == other.executor\n                and self.storage_options == other.storage_options\n                and self.zarr_compressor == other.zarr_compressor\n            )", "            return self.__dict__ == other.__dict__"),
)
mutant(
    "M138-resume-verdict-remembered-on-node",
    ["C09", "C10", "C20"],
    "RESUME-PURE-1",
    (PLAN, "                if target.ndim == 0 or target.nchunks_initialized != target.nchunks:\n                    return False\n", "                if target.ndim == 0 or target.nchunks_initialized != target.nchunks:\n                    return False\n                nodes[output][\"complete\"] = True\n"),
)
benign(
    "B-resume-local-bookkeeping",
    ["C09", "C10", "C20"],
    (PLAN, "    for output in dag.successors(name):\n        target = nodes[output].get(\"target\", None)\n        if target is not None:\n            try:", "    checked = []\n    for output in dag.successors(name):\n        target = nodes[output].get(\"target\", None)\n        checked.append(output)\n        if target is not None:\n            try:"),
)
# F12 (fixed in 0aef645): the fused operation keeps the successor's fusable_with_successors
mutant("M-F12-fuse-multiple-drops-nofuse-mark", ["C02", "C11"], "FUSE-PROV-1", (PBW, "        fusable_with_predecessors=True,\n        fusable_with_successors=primitive_op.fusable_with_successors,\n", "        fusable_with_predecessors=True,\n"))
mutant("M-F12b-fuse-takes-mark-from-predecessor", ["C02", "C11"], "FUSE-PROV-1", (PBW, "        fusable_with_successors=primitive_op2.fusable_with_successors,\n", "        fusable_with_successors=primitive_op1.fusable_with_successors,\n"))
benign(
    "B-fuse-multiple-mark-via-local",
    ["C02", "C11"],
    (PBW, "        fusable_with_predecessors=True,\n        fusable_with_successors=primitive_op.fusable_with_successors,\n", "        fusable_with_predecessors=True,\n        fusable_with_successors=keep_unfused,\n"),
    (PBW, "    fused_pipeline = CubedPipeline(\n        apply_blockwise,\n        gensym(\"fused_apply_blockwise\"),", "    keep_unfused = primitive_op.fusable_with_successors\n    fused_pipeline = CubedPipeline(\n        apply_blockwise,\n        gensym(\"fused_apply_blockwise\"),"),
)
# ---- clauses that came out of the generic mutation sweep (tools/mutation_sweep.py): one
# ---- mutant per clause, and behaviour-preserving twins of the same sites
MANIP2 = "cubed/core/ops.py"
mutant("M139-batch-refill-test-inverted", ["C08", "C13"], "MAP-SUBMIT-1", (ASYNC, "            if inputs is not None:\n                new_tasks = {", "            if inputs is None:\n                new_tasks = {"))
mutant("M140-batch-refill-resubmits-first-batch", ["C08", "C13"], "MAP-SUBMIT-1", (ASYNC, "            inputs = next(input_batches, None)  # type: ignore\n", ""))
mutant("M141-new-futures-never-awaited", ["C08", "C13"], "MAP-SUBMIT-1", (ASYNC, "                tasks.update(new_tasks)\n                pending.update(new_tasks.keys())\n", "                tasks.update(new_tasks)\n"))
benign("B-batch-refill-truthiness", ["C08", "C13", "C07"], (ASYNC, "            if inputs is not None:\n                new_tasks = {", "            if inputs:\n                new_tasks = {"))
mutant("M142-failure-set-aside-when-twin-failed-too", ["C08"], "MAP-RAISE-1", (ASYNC, "                    if not backup.done() or not backup.exception():\n                        continue", "                    if backup.done() and backup.exception():\n                        continue"))
mutant("M143-failure-always-raised", ["C08"], "MAP-RAISE-1", (ASYNC, "                    if not backup.done() or not backup.exception():\n                        continue\n", "                    if not backup.done() or not backup.exception():\n                        pass\n"))
benign("B-suppress-condition-de-morgan", ["C08"], (ASYNC, "                    if not backup.done() or not backup.exception():\n                        continue", "                    if not (backup.done() and backup.exception()):\n                        continue"))
mutant("M144-twin-cleanup-under-negated-option", ["C08", "C13"], "MAP-ONCE-1", (ASYNC, "            # remove any backup task\n            if use_backups:", "            # remove any backup task\n            if not use_backups:"))
mutant("M145-task-end-dispatch-when-no-callbacks", ["C13"], "EVENTS-1", (LOCAL, "                if callbacks is not None:\n                    event = TaskEndEvent(name=name, result=result)", "                if callbacks is None:\n                    event = TaskEndEvent(name=name, result=result)"))
benign("B-task-end-dispatch-truthiness", ["C13"], (LOCAL, "                if callbacks is not None:\n                    event = TaskEndEvent(name=name, result=result)", "                if callbacks:\n                    event = TaskEndEvent(name=name, result=result)"))
mutant("M146-only-empty-generations-yielded", ["C07"], "BARRIER-SRC-1", (PIPE, "        if len(gen) > 0:", "        if len(gen) == 0:"))
benign("B-generation-nonempty-ge-1", ["C07"], (PIPE, "        if len(gen) > 0:", "        if len(gen) >= 1:"))
benign("B-generation-nonempty-truthiness", ["C07"], (PIPE, "        if len(gen) > 0:", "        if gen:"))
mutant("M147-multi-output-array-without-producer-edge", ["C07"], "PLAN-EDGES-1", (PLAN, "                        hidden=hidden,\n                    )\n                    dag.add_edge(op_name_unique, n)\n            else:  # single output\n                dag.add_node(\n                    name,\n                    name=name,\n                    type=\"array\",\n                    target=target,\n                    hidden=hidden,\n                )", "                        hidden=hidden,\n                    )\n            else:  # single output\n                dag.add_node(\n                    name,\n                    name=name,\n                    type=\"array\",\n                    target=target,\n                    hidden=hidden,\n                )"))
mutant("M148-unify-rechunks-only-equal-chunks", ["C01", "C17"], "ALIGN-1", (MANIP2, "            if chunks != a.chunks and all(a.chunks):", "            if chunks == a.chunks and all(a.chunks):"))
benign("B-unify-branches-swapped", ["C01", "C17"], (MANIP2, "            if chunks != a.chunks and all(a.chunks):\n                # this will raise if chunks are not regular\n                # but this should never happen with smallest_blockdim\n                chunksize = to_chunksize(chunks)  # type: ignore\n                arrays.append(rechunk(a, chunksize))\n            else:\n                arrays.append(a)", "            if chunks == a.chunks or not all(a.chunks):\n                arrays.append(a)\n            else:\n                chunksize = to_chunksize(chunks)  # type: ignore\n                arrays.append(rechunk(a, chunksize))"))
mutant("M149-store-source-type-guard-inverted", ["C11"], "STORE-GUARD-1", (MANIP2, "    if any(not isinstance(s, CoreArray) for s in sources):", "    if not any(not isinstance(s, CoreArray) for s in sources):"))
mutant("M150-store-length-guard-inverted", ["C11"], "STORE-GUARD-1", (MANIP2, "    if len(sources) != len(targets):\n        raise ValueError(", "    if len(sources) == len(targets):\n        raise ValueError("))
# sweep 3
CREATION_F = "cubed/array_api/creation_functions.py"
RTUTILS = "cubed/runtime/utils.py"
mutant("M151-over-budget-collector-returns-nothing", ["C04"], "ADMIT-COLLECT-1", (PLAN, "        ops_exceeding.sort(key=lambda x: x[1].projected_mem, reverse=True)\n        return ops_exceeding\n", "        ops_exceeding.sort(key=lambda x: x[1].projected_mem, reverse=True)\n"))
benign("B-over-budget-collector-sorted-copy", ["C04"], (PLAN, "        ops_exceeding.sort(key=lambda x: x[1].projected_mem, reverse=True)\n        return ops_exceeding\n", "        return sorted(ops_exceeding, key=lambda x: x[1].projected_mem, reverse=True)\n"))
mutant("M152-operation-start-never-delivered", ["C13"], "EVENTS-HELPERS-1", (RTUTILS, "        event = OperationStartEvent(name)\n        for callback in callbacks:\n            callback.on_operation_start(event)", "        event = OperationStartEvent(name)\n        for callback in callbacks:\n            pass"))
mutant("M153-task-end-only-to-first-callback", ["C13"], "EVENTS-HELPERS-1", (RTUTILS, "        for callback in callbacks:\n            callback.on_task_end(event)", "        for callback in list(callbacks)[:1]:\n            callback.on_task_end(event)"))
benign("B-operation-end-helper-truthiness", ["C13"], (RTUTILS, "def handle_operation_end_callbacks(callbacks, name) -> None:\n    if callbacks is not None:", "def handle_operation_end_callbacks(callbacks, name) -> None:\n    if callbacks:"))
mutant("M154-like-args-spec-default-inverted", ["C19"], "SPEC-THREAD-1", (CREATION_F, "    if spec is None:\n        spec = x.spec\n    return dict(shape=x.shape", "    if spec is not None:\n        spec = x.spec\n    return dict(shape=x.shape"))
benign("B-like-args-spec-or", ["C19"], (CREATION_F, "    if spec is None:\n        spec = x.spec\n    return dict(shape=x.shape", "    spec = spec or x.spec\n    return dict(shape=x.shape"))
# seeded round 3 (C08-6): division by an elapsed time in the scheduling code
BACKUP_F = "cubed/runtime/backup.py"
mutant("M155-straggler-test-as-ratio", ["C08"], "SCHED-DIV-1", (BACKUP_F, "    result = duration > completed_durations[n] * slow_factor", "    result = duration / completed_durations[n] > slow_factor"))
mutant("M156-mean-task-duration-rate", ["C08"], "SCHED-DIV-1", (BACKUP_F, "    duration = now - start_times[task]\n", "    duration = now - start_times[task]\n    rate = len(end_times) / (now - min(start_times.values()))\n"))
benign("B-straggler-test-commuted", ["C08"], (BACKUP_F, "    result = duration > completed_durations[n] * slow_factor", "    result = slow_factor * completed_durations[n] < duration"))
benign("B-straggler-fraction-of-tasks", ["C08"], (BACKUP_F, "    duration = now - start_times[task]\n", "    duration = now - start_times[task]\n    done_fraction = len(end_times) / len(start_times)\n"))
# seeded round 3 (C03-6, C15-5, C16-6)
mutant(
    "M157-repeat-extra-mem-before-flatten",
    ["C03"],
    "MEM-STALE-1",
    (MANIPF, "    if axis is None:\n        x = flatten(x)\n        axis = 0\n\n    shape = x.shape[:axis] + (x.shape[axis] * repeats,) + x.shape[axis + 1 :]", "    extra_projected_mem = x.chunkmem * repeats\n    if axis is None:\n        x = flatten(x)\n        axis = 0\n\n    shape = x.shape[:axis] + (x.shape[axis] * repeats,) + x.shape[axis + 1 :]"),
    (MANIPF, "    # extra memory from calling 'nxp.repeat' on a chunk\n    extra_projected_mem = x.chunkmem * repeats\n    return general_blockwise(", "    return general_blockwise("),
)
benign(
    "B-repeat-extra-mem-via-local",
    ["C03"],
    (MANIPF, "    # extra memory from calling 'nxp.repeat' on a chunk\n    extra_projected_mem = x.chunkmem * repeats\n", "    # extra memory from calling 'nxp.repeat' on a chunk\n    chunk_bytes = x.chunkmem\n    extra_projected_mem = chunk_bytes * repeats\n"),
)
mutant(
    "M158-key-dispatcher-remembers-results",
    ["C15", "C02"],
    "NEST-DISPATCH-1",
    (PBW, "    return back_key_functions_dict[arg.name](arg)\n", "    if arg not in _SEEN:\n        _SEEN[arg] = back_key_functions_dict[arg.name](arg)\n    return _SEEN[arg]\n"),
    (PBW, "def _apply_blockwise_key_func_to_chunk_key(", "_SEEN: dict = {}\n\n\ndef _apply_blockwise_key_func_to_chunk_key("),
)
mutant(
    "M159-repeat-accepts-index-like",
    ["C16"],
    "LAZY-IMPLICIT-1",
    (MANIPF, "    if not isinstance(repeats, int):\n        raise ValueError(\"repeat only supports integral values for `repeats`\")\n", "    import operator\n\n    repeats = operator.index(repeats)\n"),
)

# ---------------------------------------------------------------- C14 (rechunk plumbing)
RECH = "cubed/core/rechunk.py"
ALGO = "cubed/vendor/rechunker/algorithm.py"
_LAST = "        target_chunks_ = target_chunks if last_stage else write_chunks\n"
mutant("M14a-last-stage-writes-consolidated", ["C14"], "RECHUNK-PLAN-1", (OPS, _LAST, "        target_chunks_ = write_chunks\n"))
mutant("M14b-last-stage-inverted", ["C14"], "RECHUNK-PLAN-1", (OPS, _LAST, "        target_chunks_ = write_chunks if last_stage else target_chunks\n"))
mutant("M14c-last-test-off-by-one", ["C14"], "RECHUNK-PLAN-1", (OPS, "        last_stage = i == len(stages) - 1\n", "        last_stage = i == len(stages)\n"))
mutant("M14d-closing-copy-to-write-chunks", ["C14"], "RECHUNK-PLAN-1", (OPS, "                yield write_chunks, target_chunks_\n", "                yield write_chunks, write_chunks\n"))
mutant("M14e-closing-copy-dropped", ["C14"], "RECHUNK-PLAN-1", (OPS, "            if last_stage:\n                yield write_chunks, target_chunks_\n", "            if not last_stage:\n                yield write_chunks, target_chunks_\n"))
mutant("M14f-source-is-target", ["C14"], "RECHUNK-PLAN-1", (OPS, "        source_chunks=source_chunks,\n        target_chunks=target_chunks,\n        itemsize=itemsize(x.dtype),", "        source_chunks=target_chunks,\n        target_chunks=target_chunks,\n        itemsize=itemsize(x.dtype),"))
mutant("M14g-budget-without-reserved", ["C14"], "RECHUNK-PLAN-1", (OPS, "    rechunker_max_mem = (spec.allowed_mem - spec.reserved_mem) // total_copies\n", "    rechunker_max_mem = spec.allowed_mem // total_copies\n"))
mutant("M14h-budget-without-write-copies", ["C14"], "RECHUNK-PLAN-1", (OPS, "    total_copies = 1 + buffer_copies.read + 1 + 1 + buffer_copies.write\n", "    total_copies = 1 + buffer_copies.read + 1 + 1\n"))
mutant("M14i-planners-exchanged", ["C14"], "RECHUNK-PLAN-1", (OPS, "        multistage_rechunking_plan\n        if allow_irregular\n        else multistage_regular_rechunking_plan\n", "        multistage_regular_rechunking_plan\n        if allow_irregular\n        else multistage_rechunking_plan\n"))
mutant("M14j-always-irregular-planner", ["C14"], "RECHUNK-PLAN-1", (OPS, "    plan_func = (\n        multistage_rechunking_plan\n        if allow_irregular\n        else multistage_regular_rechunking_plan\n    )\n", "    plan_func = multistage_rechunking_plan\n"))
mutant("M14k-stage-roles-int-as-copy", ["C14"], "RECHUNK-PLAN-1", (OPS, "            yield read_chunks, int_chunks\n", "            yield int_chunks, read_chunks\n"))
mutant("M14l-min-mem-is-max-mem", ["C14"], "RECHUNK-PLAN-1", (OPS, "        min_mem=min_mem,\n        max_mem=rechunker_max_mem,\n    )\n\n    for i, stage", "        min_mem=rechunker_max_mem,\n        max_mem=rechunker_max_mem,\n    )\n\n    for i, stage"))
mutant("M14m-plan-report-ignores-allow-irregular", ["C14"], "RECHUNK-CHAIN-1", (RECH, "    for copy_chunks, target_chunks in _rechunk_plan(\n        x, chunks, min_mem=min_mem, allow_irregular=allow_irregular\n    ):\n        copy_ops.append", "    for copy_chunks, target_chunks in _rechunk_plan(x, chunks, min_mem=min_mem):\n        copy_ops.append"))
mutant("M14n-rechunk-ignores-min-mem", ["C14"], "RECHUNK-CHAIN-1", (OPS, "    for copy_chunks, target_chunks in _rechunk_plan(\n        x, chunks, min_mem=min_mem, allow_irregular=allow_irregular\n    ):\n        out = _rechunk", "    for copy_chunks, target_chunks in _rechunk_plan(\n        x, chunks, allow_irregular=allow_irregular\n    ):\n        out = _rechunk"))
mutant("M14o-pair-roles-exchanged", ["C14"], "RECHUNK-CHAIN-1", (OPS, "        out = _rechunk(out, copy_chunks, target_chunks, allow_irregular=allow_irregular)\n", "        out = _rechunk(out, target_chunks, copy_chunks, allow_irregular=allow_irregular)\n"))
mutant("M14p-regular-target-from-copy-grid", ["C14"], "RECHUNK-CHAIN-1", (OPS, "    else:\n        target_chunks = normalize_chunks(target_chunks, x.shape, dtype=x.dtype)\n        target_chunks = to_chunksize(target_chunks)\n", "    else:\n        target_chunks = normalize_chunks(copy_chunks, x.shape, dtype=x.dtype)\n        target_chunks = to_chunksize(target_chunks)\n"))
mutant("M14q-stage-search-unbounded", ["C14"], "RECHUNK-TERM-1", (RECH, "    for stage_count in range(1, MAX_STAGES):\n", "    import itertools\n\n    for stage_count in itertools.count(1):\n"))
mutant("M14r-multspace-guard-not-strict", ["C14"], "RECHUNK-TERM-1", (RECH, "    if start > stop:\n        return list(reversed(multspace(stop, start, num)))\n", "    if start >= stop:\n        return list(reversed(multspace(stop, start, num)))\n"))
mutant("M14s-multspace-recursion-not-exchanged", ["C14"], "RECHUNK-TERM-1", (RECH, "        return list(reversed(multspace(stop, start, num)))\n", "        return list(reversed(multspace(start, stop, num)))\n"))
mutant("M14t-axes-list-grown-while-iterated", ["C14"], "RECHUNK-TERM-1", (ALGO, "        assert headroom >= 1\n", "        assert headroom >= 1\n        if headroom > 2 and n_axis not in axes[:1]:\n            axes.append(n_axis)\n"))
mutant(
    "M14u-stage-search-while-true-no-progress",
    ["C14"],
    "RECHUNK-TERM-1",
    (ALGO, "    for stage_count in range(1, MAX_STAGES):\n\n        stage_chunks = calculate_stage_chunks(read_chunks, write_chunks, stage_count)\n", "    stage_count = 1\n    while stage_count < MAX_STAGES:\n\n        stage_chunks = calculate_stage_chunks(read_chunks, write_chunks, stage_count)\n"),
)
benign("B14a-last-test-other-arrangement", ["C14"], (OPS, "        last_stage = i == len(stages) - 1\n", "        last_stage = i + 1 == len(stages)\n"))
benign("B14b-last-target-if-statement", ["C14"], (OPS, _LAST, "        if last_stage:\n            target_chunks_ = target_chunks\n        else:\n            target_chunks_ = write_chunks\n"))
benign("B14c-stage-subscripts", ["C14"], (OPS, "        read_chunks, int_chunks, write_chunks = stage\n", "        read_chunks, int_chunks, write_chunks = stage[0], stage[1], stage[2]\n"))
benign("B14d-budget-in-two-steps", ["C14"], (OPS, "    rechunker_max_mem = (spec.allowed_mem - spec.reserved_mem) // total_copies\n", "    usable_mem = spec.allowed_mem - spec.reserved_mem\n    rechunker_max_mem = usable_mem // total_copies\n"))
benign("B14e-planner-by-if-statement", ["C14"], (OPS, "    plan_func = (\n        multistage_rechunking_plan\n        if allow_irregular\n        else multistage_regular_rechunking_plan\n    )\n", "    if allow_irregular:\n        plan_func = multistage_rechunking_plan\n    else:\n        plan_func = multistage_regular_rechunking_plan\n"))
benign("B14f-keyword-call-of-copy-constructor", ["C14"], (OPS, "        out = _rechunk(out, copy_chunks, target_chunks, allow_irregular=allow_irregular)\n", "        out = _rechunk(\n            out,\n            copy_chunks=copy_chunks,\n            target_chunks=target_chunks,\n            allow_irregular=allow_irregular,\n        )\n"))
benign(
    "B14g-stage-search-while-with-counter",
    ["C14"],
    (ALGO, "    for stage_count in range(1, MAX_STAGES):\n\n        stage_chunks = calculate_stage_chunks(read_chunks, write_chunks, stage_count)\n", "    stage_count = 0\n    while stage_count < MAX_STAGES - 1:\n        stage_count += 1\n\n        stage_chunks = calculate_stage_chunks(read_chunks, write_chunks, stage_count)\n"),
)
benign("B14h-multspace-guard-flipped", ["C14"], (RECH, "    if start > stop:\n        return list(reversed(multspace(stop, start, num)))\n", "    if stop < start:\n        return list(reversed(multspace(stop, start, num)))\n"))

# ---------------------------------------------------------------- C17 HOIST-1
MANIP = "cubed/array_api/manipulation_functions.py"
mutant(
    "M17h-repeat-validates-inside-the-task",
    ["C17"],
    "HOIST-1",
    (MANIP, "def _repeat(x, repeats, axis=None, chunksize=None, block_id=None):\n    out = nxp.repeat(x, repeats, axis=axis)\n", "def _repeat(x, repeats, axis=None, chunksize=None, block_id=None):\n    if chunksize[axis] * repeats > 2**31:\n        raise ValueError(\"repeat: repeated chunk too large\")\n    out = nxp.repeat(x, repeats, axis=axis)\n"),
)
mutant(
    "M17i-key-function-refuses-closure-value",
    ["C17"],
    "HOIST-1",
    (MANIP, "    def back_key_function(out_key: ChunkKey) -> FunctionArgs[ChunkKey]:\n        out_coords = out_key.coords\n        in_coords = tuple(\n            bi // repeats if i == axis else bi for i, bi in enumerate(out_coords)\n        )\n", "    def back_key_function(out_key: ChunkKey) -> FunctionArgs[ChunkKey]:\n        if axis >= x.ndim:\n            raise IndexError(f\"axis {axis} is out of bounds\")\n        out_coords = out_key.coords\n        in_coords = tuple(\n            bi // repeats if i == axis else bi for i, bi in enumerate(out_coords)\n        )\n"),
)
mutant(
    "M17j-combine-asserts-on-correction-option",
    ["C17"],
    "HOIST-1",
    ("cubed/array_api/statistical_functions.py", "def _var_combine(a, axis=None, correction=None, **kwargs):\n    # _var_combine is called by _partial_reduce which concatenates along the first axis\n    axis = axis[0]\n", "def _var_combine(a, axis=None, correction=None, **kwargs):\n    # _var_combine is called by _partial_reduce which concatenates along the first axis\n    assert correction is None or correction >= 0, \"correction must be non-negative\"\n    axis = axis[0]\n"),
)
benign(
    "B17h-repeat-block-checks-its-block",
    ["C17"],
    (MANIP, "def _repeat(x, repeats, axis=None, chunksize=None, block_id=None):\n    out = nxp.repeat(x, repeats, axis=axis)\n", "def _repeat(x, repeats, axis=None, chunksize=None, block_id=None):\n    if x.ndim == 0:\n        raise ValueError(\"repeat: 0-d block\")\n    out = nxp.repeat(x, repeats, axis=axis)\n"),
)
benign(
    "B17i-combine-message-reworded",
    ["C17"],
    ("cubed/array_api/statistical_functions.py", "        raise ValueError(f\"Expected two elements in {axis} axis to combine\")\n\n    n_a = nxp.take(a[\"n\"], 0, axis=axis)", "        raise ValueError(f\"Expected exactly two elements in axis {axis} to combine\")\n\n    n_a = nxp.take(a[\"n\"], 0, axis=axis)"),
)

# ---------------------------------------------------------------- COUNT-1 reiterable:class
mutant(
    "M13r-chunkkeys-remembers-its-iterator",
    ["C13", "C11"],
    "COUNT-1",
    (PBW, "        self.chunks_normal = chunks_normal\n\n    def __iter__(self):\n        return map(\n            list, itertools.product(*[range(len(c)) for c in self.chunks_normal])\n        )\n", "        self.chunks_normal = chunks_normal\n        self._keys = map(\n            list, itertools.product(*[range(len(c)) for c in self.chunks_normal])\n        )\n\n    def __iter__(self):\n        return self._keys\n"),
)
benign(
    "B13r-chunkkeys-remembers-a-list",
    ["C13", "C11"],
    (PBW, "        self.chunks_normal = chunks_normal\n\n    def __iter__(self):\n        return map(\n            list, itertools.product(*[range(len(c)) for c in self.chunks_normal])\n        )\n", "        self.chunks_normal = chunks_normal\n        self._keys = None\n\n    def __iter__(self):\n        if self._keys is None:\n            self._keys = list(\n                map(list, itertools.product(*[range(len(c)) for c in self.chunks_normal]))\n            )\n        return iter(self._keys)\n"),
)

# ---------------------------------------------------------------- MAP-DRAIN-1 refill-gate
mutant(
    "M07g-refill-under-backups-option",
    ["C07", "C08"],
    "MAP-DRAIN-1",
    (ASYNC, "        if batch_size is not None and len(pending) < batch_size:\n            inputs = next(input_batches, None)  # type: ignore\n", "        if use_backups and batch_size is not None and len(pending) < batch_size:\n            inputs = next(input_batches, None)  # type: ignore\n"),
)
benign(
    "B07g-refill-nested-batch-tests",
    ["C07", "C08"],
    (ASYNC, "        if batch_size is not None and len(pending) < batch_size:\n            inputs = next(input_batches, None)  # type: ignore\n", "        if batch_size is not None and not len(pending) >= batch_size:\n            inputs = next(input_batches, None)  # type: ignore\n"),
)

# ---------------------------------------------------------------- round 5: MULTI-EDGE-1, CHUNKMEM-1, RESUME-PROVIDER-1
ZV3 = "cubed/storage/stores/zarr_python_v3.py"
_GRP_ANCHOR = "    def set_basic_selection(self, selection, value, fields=None):\n        self[fields][selection] = value\n"
mutant("M03m-source-count-by-distinct-neighbours", ["C03", "C04"], "MULTI-EDGE-1", (OPT, "        for array in predecessors_unordered(dag, name)\n    )", "        for array in dag.predecessors(name)\n    )"))
mutant("M03n-helper-walks-neighbour-set", ["C03", "C04"], "MULTI-EDGE-1", (OPT, "    for pre, _ in dag.in_edges(name):\n        yield pre\n", "    for pre in dag.predecessors(name):\n        yield pre\n"))
benign("B03m-source-count-by-in-edges", ["C03", "C04"], (OPT, "        for array in predecessors_unordered(dag, name)\n    )", "        for array, _ in dag.in_edges(name)\n    )"))
mutant("M03o-average-chunk-memory", ["C03", "C04"], "CHUNKMEM-1", (ARRAY, "        return array_memory(self.dtype, self.chunksize)\n", "        return self.nbytes // max(self.npartitions, 1)\n"))
benign("B03o-chunk-memory-via-local", ["C03", "C04"], (ARRAY, "        return array_memory(self.dtype, self.chunksize)\n", "        largest = self.chunksize\n        return array_memory(self.dtype, largest)\n"))
mutant(
    "M09p-group-completeness-from-first-field",
    ["C09", "C07"],
    "RESUME-PROVIDER-1",
    (ZV3, _GRP_ANCHOR, _GRP_ANCHOR + "\n    @property\n    def ndim(self):\n        return len(self.shape)\n\n    @property\n    def nchunks(self):\n        return list(self.values())[0].nchunks\n\n    @property\n    def nchunks_initialized(self):\n        return list(self.values())[0].nchunks_initialized\n"),
)
benign(
    "B09p-group-completeness-over-all-fields",
    ["C09", "C07"],
    (ZV3, _GRP_ANCHOR, _GRP_ANCHOR + "\n    @property\n    def ndim(self):\n        return len(self.shape)\n\n    @property\n    def nchunks(self):\n        return next(iter(self.values())).nchunks\n\n    @property\n    def nchunks_initialized(self):\n        return min(a.nchunks_initialized for a in self.values())\n"),
)
benign("B14i-stage-index-counts-from-one", ["C14"], (OPS, "    for i, stage in enumerate(stages):\n        last_stage = i == len(stages) - 1\n", "    num_stages = len(stages)\n    for i, stage in enumerate(stages, start=1):\n        last_stage = i == num_stages\n"))
mutant("M14v-stage-index-from-one-test-from-zero", ["C14"], "RECHUNK-PLAN-1", (OPS, "    for i, stage in enumerate(stages):\n", "    for i, stage in enumerate(stages, start=1):\n"))
_RETARGET = "                    op = d[\"primitive_op\"]\n                    op.target_array = target\n                    op.fusable_with_successors = False\n"
mutant("M11r-retarget-on-a-copy-never-stored", ["C11", "C02"], "STORE-NOFUSE-1", (OPS, "from dataclasses import dataclass\n", "from dataclasses import dataclass, replace\n"), (OPS, _RETARGET, "                    op = replace(d[\"primitive_op\"], target_array=target, fusable_with_successors=False)\n"))
mutant("M11s-retarget-copy-without-mark", ["C11", "C02"], "STORE-NOFUSE-1", (OPS, "from dataclasses import dataclass\n", "from dataclasses import dataclass, replace\n"), (OPS, _RETARGET, "                    op = replace(d[\"primitive_op\"], target_array=target)\n                    d[\"primitive_op\"] = op\n"))
RUTILS = "cubed/runtime/utils.py"
mutant("M08b-batched-by-zip-grouper", ["C08", "C13", "C07"], "BATCH-COVER-1", (RUTILS, "    it = iter(iterable)\n    while batch := tuple(islice(it, n)):\n        yield batch\n", "    return zip(*[iter(iterable)] * n)\n"))
benign("B08b-batched-explicit-loop", ["C08", "C13", "C07"], (RUTILS, "    it = iter(iterable)\n    while batch := tuple(islice(it, n)):\n        yield batch\n", "    it = iter(iterable)\n    while True:\n        batch = tuple(islice(it, n))\n        if not batch:\n            return\n        yield batch\n"))
mutant("M14w-array-method-drops-min-mem", ["C14"], "RECHUNK-CHAIN-1", (ARRAY, "        return rechunk(self, chunks, min_mem=min_mem, allow_irregular=allow_irregular)\n", "        return rechunk(self, chunks, allow_irregular=allow_irregular)\n"))
mutant("M14x-reported-source-is-copy-grid", ["C14"], "RECHUNK-CHAIN-1", (RECH, "        source_chunks = target_chunks\n    return RechunkPlan(copy_ops)", "        source_chunks = copy_chunks\n    return RechunkPlan(copy_ops)"))
mutant("M14y-dict-request-filled-in-place", ["C14"], "RECHUNK-CHAIN-1", (OPS, "        chunks = {validate_axis(c, x.ndim): v for c, v in chunks.items()}\n        for i in range(x.ndim):", "        for i in range(x.ndim):"))
benign("B14y-dict-request-copied-first", ["C14"], (OPS, "        chunks = {validate_axis(c, x.ndim): v for c, v in chunks.items()}\n        for i in range(x.ndim):", "        chunks = dict(chunks)\n        chunks = {validate_axis(c, x.ndim): v for c, v in chunks.items()}\n        for i in range(x.ndim):"))
benign("B14w-array-method-forwards-by-kwargs-dict", ["C14"], (ARRAY, "        return rechunk(self, chunks, min_mem=min_mem, allow_irregular=allow_irregular)\n", "        options = dict(min_mem=min_mem, allow_irregular=allow_irregular)\n        return rechunk(self, chunks, **options)\n"))
mutant("M18x-threads-executor-keeps-option-outside-kwargs", ["C18", "C19"], "EXEC-EQ-1", (LOCAL, "class ThreadsExecutor(DagExecutor):\n    \"\"\"An execution engine that uses Python asyncio.\"\"\"\n\n    def __init__(self, **kwargs: Any) -> None:\n        super().__init__(**kwargs)\n", "class ThreadsExecutor(DagExecutor):\n    \"\"\"An execution engine that uses Python asyncio.\"\"\"\n\n    def __init__(self, max_workers=None, **kwargs: Any) -> None:\n        super().__init__(**kwargs)\n        self.max_workers = max_workers\n"))
benign("B18x-threads-executor-named-option-into-kwargs", ["C18", "C19"], (LOCAL, "class ThreadsExecutor(DagExecutor):\n    \"\"\"An execution engine that uses Python asyncio.\"\"\"\n\n    def __init__(self, **kwargs: Any) -> None:\n        super().__init__(**kwargs)\n", "class ThreadsExecutor(DagExecutor):\n    \"\"\"An execution engine that uses Python asyncio.\"\"\"\n\n    def __init__(self, max_workers=None, **kwargs: Any) -> None:\n        if max_workers is not None:\n            kwargs[\"max_workers\"] = max_workers\n        super().__init__(**kwargs)\n"))
_PPO = "    predecessor_primitive_ops = [\n        nodes[pre][\"primitive_op\"] if can_fuse else None\n        for pre, _, can_fuse in predecessor_ops_and_arrays(dag, name)\n    ]\n    return can_fuse_multiple_primitive_ops("
mutant("M04t-admission-list-filtered", ["C04", "C03", "C02"], "FUSE-TWINLIST-1", (OPT, _PPO, "    predecessor_primitive_ops = [\n        nodes[pre][\"primitive_op\"] if can_fuse and pre != name else None\n        for pre, _, can_fuse in predecessor_ops_and_arrays(dag, name)\n    ]\n    return can_fuse_multiple_primitive_ops("))
mutant("M04u-admission-list-drops-unfusable", ["C04", "C03", "C02"], "FUSE-TWINLIST-1", (OPT, _PPO, "    predecessor_primitive_ops = [\n        nodes[pre][\"primitive_op\"]\n        for pre, _, can_fuse in predecessor_ops_and_arrays(dag, name)\n        if can_fuse\n    ]\n    return can_fuse_multiple_primitive_ops("))
