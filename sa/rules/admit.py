"""C04 — over-budget plans are refused before anything runs (admission rules)."""

from __future__ import annotations

import ast

from .. import anchors as A
from ..astutil import (
    compare_norm,
    is_self_attr,
    mentions_attr,
    nonempty_polarity,
    property_return_expr,
    unparse,
)
from ..cfg import cfg_of, is_falsy_return, is_raise
from ..effects import EXEC, STORE_CREATE, STORE_WRITE, effects_of
from ..flow import flow_of
from ..index import Def, attr_chain, walk_own
from ..runner import Ctx, rule

HEAVY = (EXEC, STORE_CREATE, STORE_WRITE)


def over_budget_attrs(ctx: Ctx) -> set[str]:
    """Attributes of FinalizedPlan that __init__ fills from the constructor parameter
    through which _finalize hands over the over-budget list."""
    repo = ctx.repo
    init = repo.get(A.FP_INIT)
    fin = repo.get(A.PLAN_FINALIZE)
    # which ctor parameter receives the list?
    ctor_calls = [c for c in repo.calls_to(fin, A.FP)]
    ctx.need(ctor_calls, "no FinalizedPlan(...) construction in Plan._finalize")
    eff = effects_of(repo)
    params: set[str] = set()
    fl = flow_of(repo, fin)
    for c in ctor_calls:
        b = eff.bind(c, init, fin)
        for p, v in b.items():
            e = v[1] if v[0] == "expr" else None
            if e is None and v[0] == "param":
                continue
            if e is not None and any(r == f"call:{A.FIND_EXCEEDING}" for r in fl.roots(e)):
                params.add(p)
    attrs: set[str] = set()
    fli = flow_of(repo, init)
    for n in init.own_nodes():
        if isinstance(n, ast.Assign):
            for t in n.targets:
                if is_self_attr(t) and (fli.taint(n.value) & params):
                    attrs.add(t.attr)
    return attrs


@rule("ADMIT-ORDER-1", props=["C04"], floor=3)
def admit_order(ctx: Ctx) -> None:
    """validate() dominates every execute/store effect in FinalizedPlan.execute and raises
    whenever the over-budget list is non-empty (must-pass-through)"""
    repo = ctx.repo
    ex = repo.get(A.FP_EXECUTE)
    val = repo.get(A.FP_VALIDATE)
    cfg = cfg_of(ex)
    eff = effects_of(repo)
    vnodes = set()
    for c, ts in repo.calls_in(ex):
        for t in ts:
            if t.kind == "def" and (t.ref is val or _must_call(repo, t.ref, val)):
                vnodes.add(cfg.node_of(c))
    sinks = []
    for n, ts, g, raw in eff.calls[ex.qual]:
        heavy = False
        for t in ts:
            if t.kind == "def" and t.ref.is_func:
                if t.ref.name == "execute_dag" and t.ref.cls is not None:
                    heavy = True
                elif eff.kinds(t.ref, *HEAVY):
                    heavy = True
        if heavy:
            sinks.append(n)
    for e in eff.own[ex.qual]:
        pass
    ctx.need(sinks, "FinalizedPlan.execute reaches no executor entry: anchor lost")
    for s in sinks:
        sn = cfg.node_of(s)
        ok = any(cfg.dominates(v, sn) and v != sn for v in vnodes)
        ctx.ob(
            ex,
            s,
            ok,
            f"call `{unparse(s.func)}` (runs tasks / writes storage) must be dominated by validate()"
            + ("" if ok else " — a path from entry reaches it without admission"),
            sel=f"sink:{unparse(s.func)}",
        )
    # validate raises on every path where the over-budget list is non-empty
    attrs = over_budget_attrs(ctx)
    ctx.need(attrs, "FinalizedPlan.__init__ does not store the over-budget list")
    vc = cfg_of(val)
    cls = val.cls

    def is_x(e):
        if is_self_attr(e) and e.attr in attrs:
            return True
        if is_self_attr(e):
            pe = property_return_expr(repo, cls, e.attr)
            if pe is not None and any(is_self_attr(s) and s.attr in attrs for s in ast.walk(pe)):
                return nonempty_polarity(pe, lambda z: is_self_attr(z) and z.attr in attrs) is True
        return False

    guards = []
    for bn in vc.stmts(ast.If):
        pol = nonempty_polarity(bn.stmt.test, is_x)
        if pol is None:
            continue
        edge = "true" if pol else "false"
        tg = vc.edge_targets(bn.id, edge)
        raises_only = all(vc.exits_only_to(t, {bn.id}, is_raise) for t in tg) and bool(tg)
        guards.append((bn, raises_only))
    good = [bn for bn, ro in guards if ro]
    ok = bool(good) and any(vc.all_paths_pass(vc.entry, vc.exit, {bn.id}) for bn in good)
    # and the non-empty edge can never reach the normal exit
    ctx.ob(
        val,
        val.node,
        ok,
        "validate() must raise on every path where the over-budget list "
        f"({', '.join(sorted(attrs))}) is non-empty"
        + ("" if ok else " — a path returns normally without testing it / without raising"),
        sel="raises",
    )
    # __init__ stores it without losing entries
    ctx.ob(
        repo.get(A.FP_INIT),
        None,
        bool(attrs),
        "FinalizedPlan.__init__ stores the over-budget list handed over by _finalize",
        sel="stores-list",
    )


def _must_call(repo, f: Def, target: Def) -> bool:
    """All normal paths through f pass a call to target (one-level helper extraction)."""
    if not f.is_func or f is target:
        return False
    c = cfg_of(f)
    nodes = {c.node_of(call) for call in repo.calls_to(f, target.qual)}
    if not nodes:
        return False
    return c.all_paths_pass(c.entry, c.exit, nodes)


@rule("ADMIT-COLLECT-1", props=["C04"], floor=4)
def admit_collect(ctx: Ctx) -> None:
    """the over-budget list is computed from the final dag, with projected_mem > allowed_mem,
    over every node that has a primitive op"""
    repo = ctx.repo
    fin = repo.get(A.PLAN_FINALIZE)
    find = repo.get(A.FIND_EXCEEDING)
    cfg = cfg_of(fin)
    fl = flow_of(repo, fin)
    finds = repo.calls_to(fin, A.FIND_EXCEEDING)
    ctors = repo.calls_to(fin, A.FP)
    ctx.need(ctors, "no FinalizedPlan(...) in _finalize")
    ok = bool(finds)
    ctx.ob(fin, fin.node, ok, "_finalize computes the over-budget list with _find_ops_exceeding_memory", sel="calls-find")
    mutators = []
    for c, ts in repo.calls_in(fin):
        for t in ts:
            if t.kind == "def" and t.ref.name in ("_create_lazy_zarr_arrays", "optimize", "_compile_blockwise"):
                mutators.append(c)
    ctx.need(mutators, "_finalize no longer calls optimize/_create_lazy_zarr_arrays")
    for f in finds:
        fn = cfg.node_of(f)
        late = [m for m in mutators if cfg.can_reach(fn, cfg.node_of(m)) and cfg.node_of(m) != fn]
        ctx.ob(
            fin,
            f,
            not late,
            "the over-budget scan must come after optimisation, compilation and create-arrays"
            + ("" if not late else f" — `{unparse(late[0])}` can still run after it"),
            sel="scan-last",
        )
        # same dag object as the one frozen into the FinalizedPlan
        farg = f.args[0] if f.args else None
        for c in ctors:
            dag_arg = c.args[0] if c.args else None
            same = False
            if farg is not None and dag_arg is not None:
                names_f = [n for n in ast.walk(farg) if isinstance(n, ast.Name)]
                names_c = [n for n in ast.walk(dag_arg) if isinstance(n, ast.Name) and n.id in {x.id for x in names_f}]
                if names_f and names_c:
                    sf = {(s.node, s.kind) for n in names_f for s in fl.rdefs(n.id, fn)}
                    sc = {(s.node, s.kind) for n in names_c for s in fl.rdefs(n.id, cfg.node_of(c))}
                    same = bool(sf) and sf == sc
            ctx.ob(
                fin,
                c,
                same,
                "the dag scanned for over-budget ops is the dag handed to FinalizedPlan"
                + ("" if same else " — they have different reaching definitions"),
                sel="same-dag",
            )
    # the value passed to the constructor is the scan's result
    init = repo.get(A.FP_INIT)
    eff = effects_of(repo)
    for c in ctors:
        b = eff.bind(c, init, fin)
        hit = False
        for p, v in b.items():
            if v[0] == "expr" and f"call:{A.FIND_EXCEEDING}" in fl.roots(v[1]):
                hit = True
        ctx.ob(fin, c, hit, "FinalizedPlan(...) receives the result of _find_ops_exceeding_memory", sel="ctor-arg")

    # the selection predicate inside _find_ops_exceeding_memory
    cmps = []
    for n in find.own_nodes():
        if isinstance(n, ast.Compare) and mentions_attr(n, "projected_mem", "allowed_mem", "reserved_mem"):
            cmps.append(n)
    ok = False
    msg = "selection test must be `projected_mem > allowed_mem` (strict, of the same operation)"
    if len(cmps) == 1:
        nm = compare_norm(cmps[0])
        if nm is not None:
            op, l, r = nm
            # <X>.projected_mem > <X>.allowed_mem with the same base expression X (a name, an
            # attribute chain or a subscript such as node["primitive_op"])
            if (
                op == ">"
                and isinstance(l, ast.Attribute)
                and isinstance(r, ast.Attribute)
                and l.attr == "projected_mem"
                and r.attr == "allowed_mem"
                and unparse(l.value, 200) == unparse(r.value, 200)
            ):
                ok = True
        if not ok:
            msg += f" — found `{unparse(cmps[0])}`"
    else:
        msg += f" — found {len(cmps)} memory comparisons"
    ctx.ob(find, cmps[0] if cmps else find.node, ok, msg, sel="predicate")
    # every node carrying a primitive op is visited: the collecting statement is guarded
    # only by the membership test for "primitive_op" and the comparison above
    c2 = cfg_of(find)
    collect = []
    for n in find.own_nodes():
        if isinstance(n, ast.Call) and isinstance(n.func, ast.Attribute) and n.func.attr in ("append", "add", "extend"):
            collect.append(n)
    comp = [n for n in find.own_nodes() if isinstance(n, (ast.ListComp, ast.GeneratorExp)) and cmps and any(cmps[0] is x for x in ast.walk(n))]
    if collect:
        for cl in collect:
            conds = c2.branch_conditions(c2.node_of(cl))
            extra = []
            for t, pol, _ in conds:
                if cmps and t is cmps[0] and pol:
                    continue
                if isinstance(t, ast.Compare) and isinstance(t.left, ast.Constant) and t.left.value == "primitive_op" and pol:
                    continue
                if isinstance(t, ast.Compare) and isinstance(t.ops[0], ast.IsNot) and pol:
                    continue  # `op is not None`
                extra.append(("" if pol else "not ") + unparse(t))
            loops = c2.nodes[c2.node_of(cl)].loops
            it_ok = False
            for l in loops:
                itx = c2.nodes[l].stmt.iter
                if isinstance(itx, ast.Call) and isinstance(itx.func, ast.Attribute) and itx.func.attr in ("nodes", "items"):
                    it_ok = True
                elif isinstance(itx, ast.Attribute) and itx.attr == "nodes":
                    it_ok = True
            ctx.ob(
                find,
                cl,
                not extra and it_ok,
                "every node with a primitive_op is tested: no further filter on the collecting branch"
                + ("" if not extra else f" — extra condition(s): {extra}")
                + ("" if it_ok else " — not iterating over dag.nodes"),
                sel="coverage",
            )
        # ... and the function hands back that very list on every path
        acc = {cl.func.value.id for cl in collect if isinstance(cl.func.value, ast.Name)}
        rets = c2.returns()
        ok_r = bool(rets) and all(r.stmt.value is not None and any(isinstance(x, ast.Name) and x.id in acc for x in ast.walk(r.stmt.value)) for r in rets) and not c2.falls_off_end()
        ctx.ob(
            find,
            rets[0].stmt if rets else find.node,
            ok_r,
            "the collector returns the list it collected into, on every path"
            + ("" if ok_r else " — a path returns something else / nothing: the caller sees an empty (falsy) result and no plan is ever refused"),
            sel="returns-collected",
        )
    elif comp:
        for cm in comp:
            extra = []
            for g in cm.generators:
                for cond in g.ifs:
                    for part in (cond.values if isinstance(cond, ast.BoolOp) and isinstance(cond.op, ast.And) else [cond]):
                        if cmps and part is cmps[0]:
                            continue
                        if isinstance(part, ast.Compare) and isinstance(part.left, ast.Constant) and part.left.value == "primitive_op":
                            continue
                        # for n, op in dag.nodes(data="primitive_op") if op is not None
                        if isinstance(part, ast.Compare) and isinstance(part.ops[0], ast.IsNot) and isinstance(part.comparators[0], ast.Constant) and part.comparators[0].value is None and isinstance(part.left, ast.Name) and "'primitive_op'" in unparse(g.iter, 200):
                            continue
                        extra.append(unparse(part))
            ctx.ob(find, cm, not extra, "every node with a primitive_op is tested" + ("" if not extra else f" — extra filter {extra}"), sel="coverage")
    else:
        ctx.ob(find, find.node, False, "could not find where over-budget ops are collected", sel="coverage")


@rule("ADMIT-ENTRY-1", props=["C04"], floor=3)
def admit_entry(ctx: Ctx) -> None:
    """who-may-call: executors are entered only from FinalizedPlan.execute, which is called
    only from compute; FinalizedPlan is constructed only by Plan._finalize"""
    repo = ctx.repo
    ex = repo.get(A.FP_EXECUTE)
    fin = repo.get(A.PLAN_FINALIZE)
    comp = repo.get(A.COMPUTE)
    runtime_pkg = "cubed.runtime."
    for d, c, ts in repo.all_call_sites():
        dq = d.qual if d is not None else "<module>"
        for t in ts:
            if t.kind not in ("def", "class"):
                continue
            tgt: Def = t.ref
            if t.kind == "def" and tgt.name == "execute_dag":
                # executor classes may delegate to their own implementation
                allowed = d is ex or (d is not None and d.name in ("execute_dag",) and d.module.qual.startswith(runtime_pkg))
                ctx.ob(
                    d or "<module>",
                    c,
                    allowed,
                    f"`{unparse(c.func)}` enters an executor; only FinalizedPlan.execute may (admission would be bypassed)",
                    sel=f"enters-executor",
                )
                break
            if t.kind == "def" and tgt.qual in (f"{A.RT_ASYNC}.async_map_dag", f"{A.RT_ASYNC}.async_map_unordered"):
                allowed = d is not None and d.module.qual.startswith(runtime_pkg)
                ctx.ob(d or "<module>", c, allowed, f"`{unparse(c.func)}` runs tasks; only executors may call it", sel="runs-tasks")
                break
            if t.kind == "class" and tgt.qual == A.FP:
                ctx.ob(d or "<module>", c, d is fin, "FinalizedPlan is constructed only by Plan._finalize (which computes the over-budget list)", sel="constructs-plan")
                break
            if t.kind == "def" and tgt is ex:
                ctx.ob(d or "<module>", c, d is comp, "FinalizedPlan.execute is called only from compute()", sel="calls-execute")
                break


@rule("ADMIT-FUSEGUARD-1", props=["C04"], floor=2)
def admit_fuseguard(ctx: Ctx) -> None:
    """non-forced fusion is refused when the predecessors' peak projected memory exceeds
    allowed_mem, and the quantity tested is the quantity the fused op reports"""
    repo = ctx.repo
    can = repo.get(f"{A.PBW}.can_fuse_multiple_primitive_ops")
    fm = repo.get(f"{A.PBW}.fuse_multiple")
    cfg = cfg_of(can)
    fl = flow_of(repo, can)
    peak_q = f"{A.PBW}.peak_projected_mem"
    # guard: a branch whose test compares peak_projected_mem(preds) > <op>.allowed_mem and whose
    # true edge leads only to falsy returns
    guards = []
    for bn in cfg.stmts(ast.If):
        t = bn.stmt.test
        if not isinstance(t, ast.Compare):
            continue
        nm = compare_norm(t)
        if nm is None:
            continue
        op, l, r = nm
        lroots = fl.roots(l, bn.id)
        rc = attr_chain(r)
        if op == ">" and f"call:{peak_q}" in lroots and rc and rc.endswith(".allowed_mem"):
            tg = cfg.edge_targets(bn.id, "true")
            if tg and all(cfg.exits_only_to(x, {bn.id}, is_falsy_return) for x in tg):
                guards.append(bn)
    truthy = [r for r in cfg.returns() if not is_falsy_return(r)]
    ctx.need(truthy, "can_fuse_multiple_primitive_ops has no truthy return")
    for r in truthy:
        ok = any(cfg.dominates(g.id, r.id) for g in guards)
        ctx.ob(
            can,
            r.stmt,
            ok,
            "a truthy return must be dominated by the test `peak_projected_mem(preds) > allowed_mem → return False`"
            + ("" if ok else " — this return is reachable without it"),
            sel=f"return:{unparse(r.stmt.value, 40)}",
        )
    # sibling agreement: the argument of peak_projected_mem in the guard and in fuse_multiple
    # cover the same predecessors (the parameter list, possibly filtered for None)
    flm = flow_of(repo, fm)
    pk_can = repo.calls_to(can, peak_q)
    pk_fm = repo.calls_to(fm, peak_q)
    ok = bool(pk_can) and bool(pk_fm)
    if ok:
        tc = fl.taint(pk_can[0].args[0]) if pk_can[0].args else set()
        tf = flm.taint(pk_fm[0].args[0]) if pk_fm[0].args else set()
        ok = "predecessor_primitive_ops" in tc and "predecessor_primitive_ops" in tf
    ctx.ob(
        fm,
        pk_fm[0] if pk_fm else fm.node,
        ok,
        "fuse_multiple reports peak_projected_mem over the same predecessor list the admission guard tested",
        sel="sibling-peak",
    )


def _pred_list_shape(repo, f, call_kw_value, fl, cfg, at):
    """how a predecessor-op list is built: set of (element text, condition text) with local
    names erased; None when the construction is not understood"""
    from ..index import anon, scope_locals

    loc = scope_locals(f)

    def shape_of(v, node):
        if isinstance(v, ast.Name):
            ds = [s for s in fl.rdefs(v.id, node) if s.value is not None]
            if len(ds) == 1 and ds[0].kind == "assign":
                return shape_of(ds[0].value, ds[0].node)
            return None
        if isinstance(v, (ast.ListComp, ast.GeneratorExp)) and len(v.generators) == 1:
            g = v.generators[0]
            src = anon(g.iter, loc, 200)
            flt = tuple(sorted(anon(c, loc, 200) for c in g.ifs))
            el = v.elt
            if isinstance(el, ast.IfExp):
                return {(src, flt, anon(el.body, loc, 200), anon(el.test, loc, 200), anon(el.orelse, loc, 200))}
            return {(src, flt, anon(el, loc, 200), "True", "-")}
        if isinstance(v, ast.List) and not v.elts:
            # filled by a loop: appends under conditions
            return "loop"
        if isinstance(v, ast.Call):
            if isinstance(v.func, ast.Name) and v.func.id in ("list", "tuple") and len(v.args) == 1:
                return shape_of(v.args[0], node)
            qs = sorted(t.qual for t in repo.resolve_call(v, f, f.module) if t.kind == "def")
            if qs:
                # the same helper called the same way at both sites
                return {("call", qs[0], tuple(anon(a, loc, 200) for a in v.args), tuple(sorted((k.arg or "**", anon(k.value, loc, 200)) for k in v.keywords)))}
        return None

    return shape_of(call_kw_value, at)


@rule("FUSE-TWINLIST-1", props=["C04", "C03", "C02"], floor=1)
def fuse_twinlist(ctx: Ctx) -> None:
    """the predecessor operations the admission test of fusion is shown (can_fuse_predecessors →
    can_fuse_multiple_primitive_ops) are built by the same expression as the ones that are then
    fused (fuse_predecessors → fuse_multiple): a test that sees fewer predecessors (a repeated
    one counted once, a filter) admits a fused operation larger than what it judged"""
    repo = ctx.repo
    can = repo.get(f"{A.OPT}.can_fuse_predecessors")
    fus = repo.get(f"{A.OPT}.fuse_predecessors")
    shapes = {}
    for f, callee in ((can, "can_fuse_multiple_primitive_ops"), (fus, "fuse_multiple")):
        fl, cfg = flow_of(repo, f), cfg_of(f)
        cs = [c for c in f.own_nodes() if isinstance(c, ast.Call) and any(t.kind == "def" and t.ref.name == callee for t in repo.resolve_call(c, f, f.module))]
        ctx.need(len(cs) == 1, f"{f.name} does not call {callee} exactly once")
        c = cs[0]
        # the predecessor list: third positional of the test, the starred argument of the fusion
        arg = None
        for a in c.args:
            if isinstance(a, ast.Starred):
                arg = a.value
        if arg is None and len(c.args) >= 3:
            arg = c.args[2]
        ctx.need(arg is not None, f"{f.name}: predecessor list argument of {callee} not found")
        shapes[f.name] = (_pred_list_shape(repo, f, arg, fl, cfg, cfg.node_of(c)), c, arg)
    (s1, c1, a1), (s2, c2, a2) = shapes[can.name], shapes[fus.name]
    if s1 is None or s2 is None or s1 == "loop" or s2 == "loop":
        if s1 == "loop" and s2 != "loop" and s2 is not None:
            # the test's list is filled by a loop while the fusion's is the one-line form: look
            # for a membership / seen-set condition in front of an append (a de-duplication)
            fl, cfg = flow_of(repo, can), cfg_of(can)
            seen_sets = set()
            for n in can.own_nodes():
                if isinstance(n, ast.Call) and isinstance(n.func, ast.Attribute) and n.func.attr == "add" and isinstance(n.func.value, ast.Name):
                    seen_sets.add(n.func.value.id)
            dedup = None
            for n in can.own_nodes():
                if isinstance(n, ast.Compare) and len(n.ops) == 1 and isinstance(n.ops[0], (ast.NotIn, ast.In)) and isinstance(n.comparators[0], ast.Name) and n.comparators[0].id in seen_sets:
                    dedup = n
            if dedup is not None:
                ctx.ob(can, dedup, False, f"the admission test is shown every predecessor that is fused — `{unparse(dedup, 40)}` leaves out a predecessor that was seen before: an operation that feeds two arguments is judged once and fused twice", sel="twinlist:same", firm=True)
                return
        ctx.need(False, "predecessor lists of can_fuse_predecessors / fuse_predecessors: construction not understood")
    ok = s1 == s2
    ctx.ob(
        can,
        c1,
        ok,
        "the admission test is shown the same predecessor list that is fused (same source, same filter, same element)"
        + ("" if ok else f" — test: {sorted(s1)[0][1:]}; fusion: {sorted(s2)[0][1:]}: the memory and fan-in limits are judged on a different set than the one fused"),
        sel="twinlist:same",
        firm=True,
    )
