"""C07 barriers, C13 events/counts, C09 resume decision logic."""

from __future__ import annotations

import ast

from .. import anchors as A
from ..astutil import is_self_attr, kwarg, mentions_attr, mentions_name, subscript_keys, unparse
from ..cfg import CFG, cfg_of, is_falsy_return
from ..effects import effects_of
from ..flow import flow_of
from ..index import Def, Repo, attr_chain, walk_own
from ..runner import Ctx, rule
from .runtime import conjuncts, facts_at

VISIT_NODES = f"{A.RT_PIPE}.visit_nodes"
VISIT_GENS = f"{A.RT_PIPE}.visit_node_generations"
SKIP_NODE = f"{A.RT_PIPE}.skip_node"
OP_START = f"{A.RT_UTILS}.handle_operation_start_callbacks"
OP_END = f"{A.RT_UTILS}.handle_operation_end_callbacks"
TASK_END = f"{A.RT_UTILS}.handle_callbacks"
P2S = f"{A.RT_ASYNC}.pipeline_to_stream"


def executor_entries(repo: Repo, tier: str) -> list[Def]:
    out = [
        repo.get(f"{A.RT_LOCAL}.SingleThreadedExecutor.execute_dag"),
        repo.get(f"{A.RT_ASYNC}.async_map_dag"),
    ]
    return out


def op_loops(repo: Repo, f: Def):
    """(cfg node of loop, kind) for loops over visit_nodes / visit_node_generations."""
    cfg = cfg_of(f)
    out = []
    for n in cfg.stmts((ast.For, ast.AsyncFor)):
        it = n.stmt.iter
        if isinstance(it, ast.Call):
            qs = repo.callee_quals(it, f)
            if VISIT_NODES in qs:
                out.append((n, "seq"))
            elif VISIT_GENS in qs:
                out.append((n, "gen"))
    return out


def _calls_in_loop(repo: Repo, f: Def, cfg: CFG, loop_id: int, *quals: str) -> list[ast.Call]:
    return [c for c in repo.calls_to(f, *quals) if cfg.has(c) and cfg.in_loop(cfg.node_of(c), loop_id)]


def _is_drain_helper(repo: Repo, h: Def) -> bool:
    """h contains a loop with a task-end dispatch in it and starts no operation itself"""
    hc = cfg_of(h)
    sites = [c for c in h.own_nodes() if isinstance(c, ast.Call) and hc.has(c) and (TASK_END in repo.callee_quals(c, h) or (isinstance(c.func, ast.Attribute) and c.func.attr == "on_task_end"))]
    return bool(sites) and all(hc.nodes[hc.node_of(c)].loops for c in sites) and not repo.calls_to(h, OP_START) and not repo.calls_to(h, OP_END)


def _check_drain_helper(ctx: Ctx, repo: Repo, h: Def, kind: str) -> None:
    hc = cfg_of(h)
    sites = [c for c in h.own_nodes() if isinstance(c, ast.Call) and hc.has(c) and (TASK_END in repo.callee_quals(c, h) or (isinstance(c.func, ast.Attribute) and c.func.attr == "on_task_end"))]
    ok = len(sites) == 1
    extra = []
    if ok:
        K = hc.nodes[hc.node_of(sites[0])].loops[-1]
        for t, pol, b in hc.branch_conditions(hc.node_of(sites[0])):
            if hc.in_loop(b, K):
                extra.append(("" if pol else "not ") + unparse(t, 40))
        # nothing leaves the helper before the stream is exhausted
        early = [n for n in hc.nodes if n.kind == "stmt" and isinstance(n.stmt, (ast.Break, ast.Return)) and hc.in_loop(n.id, K)]
        ok = not extra and not early
    ctx.ob(h, sites[0] if sites else h.node, ok, f"[{kind}] the stream-draining helper {h.name} dispatches exactly one task-end per result and returns only when the stream is exhausted" + ("" if ok else f" — {extra or 'early exit / several dispatch sites'}"), sel=f"{kind}:drain-helper")


def _task_end_sites(repo: Repo, f: Def, cfg: CFG, loop_id: int) -> list[ast.Call]:
    out = _calls_in_loop(repo, f, cfg, loop_id, TASK_END)
    for n in f.own_nodes():
        if isinstance(n, ast.Call) and isinstance(n.func, ast.Attribute) and n.func.attr == "on_task_end":
            if cfg.has(n) and cfg.in_loop(cfg.node_of(n), loop_id):
                out.append(n)
    return out


def _consume_loop(cfg: CFG, site: ast.AST, f: Def) -> int | None:
    """Innermost loop around ``site`` that is not a loop over the callbacks."""
    for l in reversed(cfg.nodes[cfg.node_of(site)].loops):
        it = cfg.nodes[l].stmt.iter
        if isinstance(it, ast.Name) and it.id == "callbacks":
            continue
        return l
    return None


def _top_in(cfg: CFG, nid: int, outer: int) -> int:
    """The outermost construct directly inside loop ``outer`` that contains nid: nid itself
    if its innermost loop is ``outer``, else the header of the next loop below ``outer``."""
    loops = cfg.nodes[nid].loops
    if outer in loops:
        i = loops.index(outer)
        if i + 1 < len(loops):
            return loops[i + 1]
    return nid


@rule("EVENTS-1", props=["C13"], floor=8)
def events(ctx: Ctx) -> None:
    """per operation exactly one start notification before and one end notification after the
    loop that consumes its task results; one task-end notification per result, inside it;
    compute start/end bracket the executor call"""
    repo = ctx.repo
    for f in executor_entries(repo, ctx.tier):
        cfg = cfg_of(f)
        fl = flow_of(repo, f)
        loops = op_loops(repo, f)
        ctx.need(loops, f"{f.qual}: no loop over visit_nodes / visit_node_generations")
        all_D = []
        for ln, kind in loops:
            L = ln.id
            D = _task_end_sites(repo, f, cfg, L)
            all_D += D
            ks = {_consume_loop(cfg, d_, f) for d_ in D}
            if not D:
                # the consuming loop may have been extracted into a private coroutine/function
                # that drains one stream and dispatches one task-end per result: the call of
                # that helper then stands for the consuming loop
                drains = []
                for c in f.own_nodes():
                    if isinstance(c, ast.Call) and cfg.has(c) and cfg.in_loop(cfg.node_of(c), L):
                        for t_ in repo.resolve_call(c, f, f.module):
                            if t_.kind == "def" and t_.ref.is_func and t_.ref.module is f.module and _is_drain_helper(repo, t_.ref):
                                drains.append((c, t_.ref))
                if len(drains) == 1:
                    c, h = drains[0]
                    _check_drain_helper(ctx, repo, h, kind)
                    D = [c]
                    all_D += D
                    ks = {cfg.node_of(c)}
                elif drains:
                    ctx.need(False, f"{f.qual}: several stream-draining helpers are called in one operation loop; not followed")
            ok = len(D) == 1 and None not in ks and L not in ks
            ctx.ob(f, D[0] if D else ln.stmt, ok, f"[{kind}] exactly one task-end dispatch per consumed result, inside the consuming loop (found {len(D)})", sel=f"{kind}:task-end")
            if not ok:
                continue
            K = ks.pop()
            # the dispatch is unconditional inside the consuming loop, except for "callbacks
            # were given" (`callbacks is not None` / truthiness), with the right polarity
            extra = []
            for t, pol, b in cfg.branch_conditions(cfg.node_of(D[0])):
                if not cfg.in_loop(b, K):
                    continue
                for fact, fp in conjuncts(t, pol):
                    names = {x.id for x in ast.walk(fact) if isinstance(x, ast.Name)}
                    if names <= {"callbacks"} and names:
                        given = None
                        if isinstance(fact, ast.Name):
                            given = fp
                        elif isinstance(fact, ast.Compare) and isinstance(fact.comparators[0], ast.Constant) and fact.comparators[0].value is None:
                            given = fp if isinstance(fact.ops[0], ast.IsNot) else (not fp) if isinstance(fact.ops[0], ast.Is) else None
                        if given is True:
                            continue
                    extra.append(("" if fp else "not ") + unparse(fact, 40))
            ctx.ob(f, D[0], not extra, f"[{kind}] the task-end dispatch runs for every consumed result whenever callbacks are given" + ("" if not extra else f" — it is conditional on `{extra[0]}`"), sel=f"{kind}:task-end-unconditional")
            S = _calls_in_loop(repo, f, cfg, L, OP_START)
            E = _calls_in_loop(repo, f, cfg, L, OP_END)
            ctx.ob(f, S[0] if S else ln.stmt, len(S) == 1, f"[{kind}] exactly one operation-start call site per operation (found {len(S)})", sel=f"{kind}:start-count")
            ctx.ob(f, E[0] if E else ln.stmt, len(E) == 1, f"[{kind}] exactly one operation-end call site per operation (found {len(E)})", sel=f"{kind}:end-count")
            for s in S:
                sn = cfg.node_of(s)
                top = _top_in(cfg, sn, L)
                ok = not cfg.in_loop(sn, K) and cfg.dominates(top, K) and top != K
                ctx.ob(f, s, ok, f"[{kind}] operation start is notified before the first task result is consumed" + ("" if ok else " — it does not dominate the consuming loop"), sel=f"{kind}:start-before")
                ctx.ob(f, s, _names_op(fl, cfg, s, ln, f), f"[{kind}] the start notification carries the operation's own name", sel=f"{kind}:start-name")
            for e in E:
                en = cfg.node_of(e)
                top = _top_in(cfg, en, L)
                # on normal paths, after the consuming loop ends the end notification follows
                exits = cfg.edge_targets(K, "exit") if isinstance(cfg.nodes[K].stmt, (ast.For, ast.AsyncFor, ast.While)) else [s_ for s_, lab_ in cfg.nodes[K].succ if lab_ not in ("exc", "raise", "reraise", "assert-fail")]
                ok = not cfg.in_loop(en, K) and top != K and bool(exits) and all(
                    cfg.all_paths_pass(x, L, {top}) for x in exits
                ) and cfg.dominates(K, top)
                ctx.ob(f, e, ok, f"[{kind}] operation end is notified after the last task result, once" + ("" if ok else " — it is inside the consuming loop or can be skipped"), sel=f"{kind}:end-after")
                ctx.ob(f, e, _names_op(fl, cfg, e, ln, f), f"[{kind}] the end notification carries the operation's own name", sel=f"{kind}:end-name")
        # no task-end dispatch outside the op loops
        stray = [n for n in f.own_nodes() if isinstance(n, ast.Call) and ((isinstance(n.func, ast.Attribute) and n.func.attr == "on_task_end") or TASK_END in repo.callee_quals(n, f)) and n not in all_D]
        ctx.ob(f, stray[0] if stray else None, not stray, "no task-end dispatch outside an operation's consuming loop", sel="task-end:stray")
    # compute start / end around the executor call
    ex = repo.get(A.FP_EXECUTE)
    cfg = cfg_of(ex)
    xs = [c for c, ts in repo.calls_in(ex) if any(t.kind == "def" and t.ref.name == "execute_dag" for t in ts)]
    ctx.need(xs, "no executor call in FinalizedPlan.execute")
    X = cfg.node_of(xs[0])
    for attr, before in (("on_compute_start", True), ("on_compute_end", False)):
        sites = [n for n in ex.own_nodes() if isinstance(n, ast.Call) and isinstance(n.func, ast.Attribute) and n.func.attr == attr]
        ok = len(sites) == 1
        msg = f"exactly one `{attr}` dispatch site (found {len(sites)})"
        if ok:
            sn = cfg.node_of(sites[0])
            loop = cfg.nodes[sn].loops[-1] if cfg.nodes[sn].loops else sn
            guards = [b for t, pol, b in cfg.branch_conditions(loop) if pol and isinstance(t, ast.Compare) and mentions_name(t, "callbacks")]
            if before:
                if guards:
                    b = guards[-1]
                    ok = cfg.dominates(b, X) and all(cfg.all_paths_pass(t, X, {loop}) for t in cfg.edge_targets(b, "true")) and not cfg.can_reach(X, loop)
                else:
                    ok = cfg.dominates(loop, X)
                msg = "compute-start is dispatched (once, when callbacks are given) before the executor is entered"
            else:
                if guards:
                    b = guards[-1]
                    ok = cfg.all_paths_pass(X, cfg.exit, {b}) and all(cfg.all_paths_pass(t, cfg.exit, {loop}) for t in cfg.edge_targets(b, "true")) and not cfg.can_reach(loop, X)
                else:
                    ok = cfg.postdominates(loop, X)
                msg = "compute-end is dispatched (once, when callbacks are given) after the executor returns"
        ctx.ob(ex, sites[0] if sites else ex.node, ok, msg, sel=f"compute:{attr}")
    # the thread/process executors hand the whole dag and the callbacks to async_map_dag
    for cls in ("ThreadsExecutor", "ProcessesExecutor"):
        ed = repo.get(f"{A.RT_LOCAL}.{cls}.execute_dag")
        ad = repo.get(f"{A.RT_LOCAL}.{cls}._async_execute_dag")
        inner = [c for c in ed.own_nodes() if isinstance(c, ast.Call) and isinstance(c.func, ast.Attribute) and c.func.attr == "_async_execute_dag"]
        ok = bool(inner) and all(c.args and unparse(c.args[0]) == "dag" and kwarg(c, "callbacks") is not None and unparse(kwarg(c, "callbacks")) == "callbacks" for c in inner)
        ctx.ob(ed, inner[0] if inner else None, ok, f"{cls}.execute_dag forwards the dag and the callbacks", sel=f"chain:{cls}:execute_dag", props=["C13", "C07"])
        am = repo.calls_to(ad, f"{A.RT_ASYNC}.async_map_dag")
        afl, acfg = flow_of(repo, ad), cfg_of(ad)
        ok = False
        if am:
            c = am[0]
            dg, cb, par = kwarg(c, "dag"), kwarg(c, "callbacks"), kwarg(c, "compute_arrays_in_parallel")
            ok = dg is not None and afl.roots(dg, acfg.node_of(c)) == {"param:dag"} and cb is not None and afl.roots(cb, acfg.node_of(c)) == {"param:callbacks"} and par is not None and afl.roots(par, acfg.node_of(c)) == {"param:compute_arrays_in_parallel"}
        ctx.ob(ad, am[0] if am else None, ok, f"{cls}: async_map_dag receives the whole dag, the callbacks and the parallel flag unchanged", sel=f"chain:{cls}:async_map_dag", props=["C13", "C07"])
    # TaskEndEvent.num_tasks defaults to 1 and local executors never override it
    tee = repo.get(f"{A.RT_TYPES}.TaskEndEvent")
    dflt = None
    for st in tee.node.body:
        if isinstance(st, ast.AnnAssign) and isinstance(st.target, ast.Name) and st.target.id == "num_tasks":
            dflt = st.value
    ok = isinstance(dflt, ast.Constant) and dflt.value == 1
    ctx.ob(tee, None, ok, "TaskEndEvent.num_tasks defaults to 1 (one notification = one task)", sel="task-end:default")
    over = []
    for mq in (A.RT_LOCAL, A.RT_ASYNC, A.RT_UTILS):
        for d in repo.functions():
            if d.module.qual == mq:
                for c in repo.calls_to(d, tee.qual):
                    if kwarg(c, "num_tasks") is not None:
                        over.append((d, c))
    ctx.ob(over[0][0] if over else tee, over[0][1] if over else None, not over, "local executors never set TaskEndEvent.num_tasks", sel="task-end:no-override")


def _names_op(fl, cfg: CFG, call: ast.Call, loop_node, f: Def) -> bool:
    """The name argument of a start/end call is the op loop's name variable, or an element of
    a list to which that variable is appended for every operation of the generation."""
    if len(call.args) < 2:
        return False
    arg = call.args[1]
    tgt = loop_node.stmt.target
    loop_names = {n.id for n in ast.walk(tgt) if isinstance(n, ast.Name)}
    if isinstance(arg, ast.Name) and arg.id in loop_names:
        sites = fl.rdefs(arg.id, cfg.node_of(call))
        if all(s.node == loop_node.id for s in sites):
            return True
    # generation mode: `for name in group_names` where group_names collects names of `gen`
    if isinstance(arg, ast.Name):
        sites = fl.rdefs(arg.id, cfg.node_of(call))
        if not sites:
            return False
        for s in sites:
            if s.kind != "for" or not isinstance(s.value, ast.Name):
                return False
            # one notification per element: the call sits inside that loop
            if not cfg.in_loop(cfg.node_of(call), s.node):
                return False
            lst = s.value.id
            # list is (re)created inside the generation loop and appended once per operation
            defs = fl.rdefs(lst, s.node)
            if not defs or not all(cfg.in_loop(d_.node, loop_node.id) for d_ in defs):
                return False
            appended = False
            # names = [name for name, _ in gen]  (no filter)
            for d_ in defs:
                v_ = d_.value
                if isinstance(v_, ast.ListComp) and len(v_.generators) == 1 and not v_.generators[0].ifs and isinstance(v_.generators[0].iter, ast.Name) and v_.generators[0].iter.id in loop_names and isinstance(v_.elt, ast.Name):
                    tg_ = v_.generators[0].target
                    first = tg_.elts[0] if isinstance(tg_, ast.Tuple) and tg_.elts else tg_
                    if isinstance(first, ast.Name) and first.id == v_.elt.id:
                        appended = True
            for n in f.own_nodes():
                if isinstance(n, ast.Call) and isinstance(n.func, ast.Attribute) and n.func.attr == "append" and isinstance(n.func.value, ast.Name) and n.func.value.id == lst:
                    nid = cfg.node_of(n)
                    inner = cfg.nodes[nid].loops
                    if inner and isinstance(cfg.nodes[inner[-1]].stmt.iter, ast.Name) and cfg.nodes[inner[-1]].stmt.iter.id in loop_names and not [b for _, _, b in cfg.branch_conditions(nid) if cfg.in_loop(b, loop_node.id)]:
                        appended = True
            if not appended:
                return False
        return True
    return False


@rule("EVENTS-HELPERS-1", props=["C13"], floor=3)
def events_helpers(ctx: Ctx) -> None:
    """the three dispatch helpers deliver their event to every callback that was given: a
    plain loop over the `callbacks` argument calling the matching Callback method, guarded only
    by "callbacks were given" """
    repo = ctx.repo
    for q, meth in ((OP_START, "on_operation_start"), (OP_END, "on_operation_end"), (TASK_END, "on_task_end")):
        h = repo.get(q)
        cfg = cfg_of(h)
        cbp = h.params[0]
        calls_ = [c for c in h.own_nodes() if isinstance(c, ast.Call) and isinstance(c.func, ast.Attribute) and c.func.attr == meth and cfg.has(c)]
        ok = len(calls_) == 1
        why = f"found {len(calls_)} calls of .{meth}()"
        if ok:
            c = calls_[0]
            nid = cfg.node_of(c)
            lp = cfg.nodes[nid].loops
            ok = bool(lp) and isinstance(cfg.nodes[lp[-1]].stmt, ast.For) and isinstance(cfg.nodes[lp[-1]].stmt.iter, ast.Name) and cfg.nodes[lp[-1]].stmt.iter.id == cbp and isinstance(c.func.value, ast.Name) and c.func.value.id in {x.id for x in ast.walk(cfg.nodes[lp[-1]].stmt.target) if isinstance(x, ast.Name)}
            why = "not inside a loop over the callbacks argument"
            if ok:
                extra = []
                for t, pol, b in cfg.branch_conditions(nid):
                    for fact, fp in conjuncts(t, pol):
                        names = {x.id for x in ast.walk(fact) if isinstance(x, ast.Name)}
                        given = None
                        if names == {cbp}:
                            if isinstance(fact, ast.Name):
                                given = fp
                            elif isinstance(fact, ast.Compare) and isinstance(fact.comparators[0], ast.Constant) and fact.comparators[0].value is None:
                                given = fp if isinstance(fact.ops[0], ast.IsNot) else (not fp) if isinstance(fact.ops[0], ast.Is) else None
                        if given is True:
                            continue
                        extra.append(("" if fp else "not ") + unparse(fact, 40))
                ok = not extra
                why = f"conditional on `{extra[0]}`" if extra else ""
                # one event object per call, built from the helper's own arguments
                ok = ok and len(c.args) == 1
        ctx.ob(h, calls_[0] if calls_ else h.node, ok, f"{h.name} calls `{meth}` on every callback it was given" + ("" if ok else f" — {why}"), sel=f"helper:{meth}")


@rule("STATS-1", props=["C13"], floor=2)
def stats(ctx: Ctx) -> None:
    """the plan's total task count sums num_tasks over every op node with a primitive op,
    without further filter"""
    repo = ctx.repo
    f = repo.get(f"{A.FP}._calculate_stats")
    cfg = cfg_of(f)
    def _accs(d):
        return [n for n in d.own_nodes() if isinstance(n, ast.AugAssign) and is_self_attr(n.target) and mentions_attr(n.value, "num_tasks")]

    # the accumulation may live in a private method that _calculate_stats calls once per node
    sites = [(f, a, None) for a in _accs(f)]
    if not sites:
        for c in f.own_nodes():
            if isinstance(c, ast.Call) and is_self_attr(c.func):
                for t_ in repo.resolve_call(c, f, f.module):
                    if t_.kind == "def" and t_.ref.is_func and t_.ref.cls is f.cls and t_.ref is not f:
                        sites += [(t_.ref, a, c) for a in _accs(t_.ref)]
    accs = [a for _, a, _ in sites]
    ctx.ob(f, accs[0] if accs else f.node, len(accs) == 1, f"one accumulation of `.num_tasks` into the plan total (found {len(accs)})", sel="stats:acc")
    for holder, a, via in sites:
        ok = isinstance(a.op, ast.Add) and isinstance(a.value, ast.Attribute) and a.value.attr == "num_tasks"
        ctx.ob(holder, a, ok, "the total is accumulated with `+= <op>.num_tasks`", sel="stats:plus")
        hcfg = cfg_of(holder)
        nid = cfg.node_of(via) if via is not None else cfg.node_of(a)
        extra = []
        all_facts = list(facts_at(cfg, nid)) + (list(facts_at(hcfg, hcfg.node_of(a))) if via is not None else [])
        for t, pol in all_facts:
            s = unparse(t)
            if pol and isinstance(t, ast.Compare) and isinstance(t.ops[0], ast.Eq) and any(isinstance(c, ast.Constant) and c.value == "op" for c in [t.left] + t.comparators):
                continue
            if pol and isinstance(t, ast.Compare) and isinstance(t.ops[0], ast.IsNot) and isinstance(t.comparators[0], ast.Constant) and t.comparators[0].value is None:
                continue
            if not pol and isinstance(t, ast.Compare) and isinstance(t.ops[0], ast.Is) and isinstance(t.comparators[0], ast.Constant) and t.comparators[0].value is None:
                continue  # guard clause `if primitive_op is None: return`
            if pol and isinstance(t, ast.Compare) and isinstance(t.left, ast.Constant) and t.left.value == "primitive_op" and isinstance(t.ops[0], ast.In):
                continue
            extra.append(("" if pol else "not ") + s)
        loops = cfg.nodes[nid].loops
        over_nodes = bool(loops) and "nodes" in unparse(cfg.nodes[loops[0]].stmt.iter)
        ctx.ob(f, a, not extra and over_nodes, "every op node with a primitive op contributes" + ("" if not extra else f" — extra filter {extra}") + ("" if over_nodes else " — not iterating over dag.nodes"), sel="stats:coverage")
        # attribute read back by the num_tasks property
        prop = repo.get(f"{A.FP}.num_tasks")
        rets = [n for n in prop.own_nodes() if isinstance(n, ast.Return)]
        ok = len(rets) == 1 and is_self_attr(rets[0].value) and rets[0].value.attr == a.target.attr
        ctx.ob(prop, None, ok, "FinalizedPlan.num_tasks returns the accumulated total", sel="stats:property")


@rule("COUNT-1", props=["C13", "C11"], floor=4, default=["C13"])
def count(ctx: Ctx) -> None:
    """num_tasks and the task iterable of every PrimitiveOperation have a common origin"""
    repo = ctx.repo
    PO = f"{A.PTYPES}.PrimitiveOperation"
    CP = f"{A.RT_TYPES}.CubedPipeline"
    n_sites = 0
    for f in repo.functions():
        pos = repo.calls_to(f, PO)
        if not pos:
            continue
        cfg = cfg_of(f)
        fl = flow_of(repo, f)
        cps = repo.calls_to(f, CP)
        for po in pos:
            n_sites += 1
            nt = kwarg(po, "num_tasks")
            pipe = kwarg(po, "pipeline")
            cp = None
            if isinstance(pipe, ast.Name):
                for s in fl.rdefs(pipe.id, cfg.node_of(po)):
                    if s.value in cps:
                        cp = s.value
            elif pipe in cps:
                cp = pipe
            if nt is None or cp is None or len(cp.args) < 3:
                ctx.ob(f, po, False, "cannot relate num_tasks to the pipeline's mappable (missing argument)", sel="count:shape")
                continue
            mp = cp.args[2]
            ok, why = _same_population(repo, f, fl, cfg, nt, po, mp, cp)
            ctx.ob(f, po, ok, f"num_tasks `{unparse(nt, 40)}` counts exactly the items of mappable `{unparse(mp, 40)}`" + ("" if ok else f" — {why}"), sel="count:origin")
    ctx.need(n_sites >= 4, f"only {n_sites} PrimitiveOperation constructions found")
    # ChunkKeys enumerates the product of range(len(c)) over its chunks
    ck = repo.get(f"{A.PBW}.ChunkKeys.__iter__")
    ok = None

    def _ranges_expr(e: ast.AST) -> ast.AST:
        """look through a local name or a no-argument method of the same class that returns
        the list of ranges"""
        if isinstance(e, ast.Name):
            fl_, cfg_ = flow_of(repo, ck), cfg_of(ck)
            vs = [s_.value for s_ in fl_.rdefs(e.id, cfg_.exit) if s_.value is not None]
            if len(vs) == 1:
                return _ranges_expr(vs[0])
        if isinstance(e, ast.Call) and isinstance(e.func, ast.Attribute) and isinstance(e.func.value, ast.Name) and e.func.value.id == "self" and not e.args and not e.keywords and ck.cls is not None:
            h = ck.cls.children.get(e.func.attr)
            if h is not None and h.is_func:
                rets = [r for r in h.own_nodes() if isinstance(r, ast.Return) and r.value is not None]
                if len(rets) == 1:
                    return rets[0].value
        return e

    for n in ck.own_nodes():
        if isinstance(n, ast.Call) and attr_chain(n.func) in ("itertools.product", "product"):
            for a in n.args:
                if isinstance(a, ast.Starred):
                    comp = _ranges_expr(a.value)
                    if isinstance(comp, (ast.ListComp, ast.GeneratorExp)) and len(comp.generators) == 1:
                        el = comp.elt
                        g = comp.generators[0]
                        if isinstance(el, ast.Call) and isinstance(el.func, ast.Name) and el.func.id == "range" and is_self_attr(g.iter):
                            # recognisable: judge it
                            ok = unparse(el) == f"range(len({unparse(g.target)}))" and not g.ifs
    if ok is None:
        ok = ctx.present(ck, False, "ChunkKeys.__iter__: product over per-axis ranges")
    ctx.ob(ck, None, ok, "ChunkKeys iterates the full product of range(len(c)) over its chunks", sel="count:chunkkeys")
    _fresh_iter(ctx, ck.parent if ck.parent is not None and ck.parent.kind == "class" else ck)
    # the primitive stores the task iterable as it was given (or its own ChunkKeys): no
    # one-shot wrapper around it
    pg = repo.get(f"{A.PBW}.general_blockwise")
    pfl_, pcfg_ = flow_of(repo, pg), cfg_of(pg)
    for cp in repo.calls_to(pg, f"{A.RT_TYPES}.CubedPipeline"):
        mp = cp.args[2] if len(cp.args) > 2 else kwarg(cp, "mappable")
        vals = [mp]
        if isinstance(mp, ast.Name) and pcfg_.has(cp):
            vals = [s_.value for s_ in pfl_.rdefs(mp.id, pcfg_.node_of(cp)) if s_.value is not None]
        bad = None
        for v_ in vals:
            for x_ in [v_] + ([v_.body, v_.orelse] if isinstance(v_, ast.IfExp) else []):
                if isinstance(x_, ast.GeneratorExp) or (isinstance(x_, ast.Call) and isinstance(x_.func, ast.Name) and x_.func.id in ("map", "filter", "zip", "iter", "enumerate", "reversed")) or (isinstance(x_, ast.Call) and (attr_chain(x_.func) or "").startswith("itertools.")):
                    bad = x_
        ctx.ob(
            pg,
            cp,
            bad is None,
            "the pipeline's task iterable is the caller's output_blocks or ChunkKeys(...), both re-iterable"
            + ("" if bad is None else f" — `{unparse(bad, 50)}` is a one-shot iterator stored in a plan object that is executed (and fused, resumed, batched) more than once"),
            sel="count:reiterable:primitive",
            props=["C13", "C11"],
        )
    # a call site that passes output_blocks= must pass num_tasks= (and vice versa)
    gb = repo.get(f"{A.OPS}.general_blockwise")
    for d, c, ts in repo.all_call_sites():
        if d is None or not any(t.kind == "def" and t.ref.qual in (f"{A.OPS}.general_blockwise", f"{A.OPS}._general_blockwise", f"{A.PBW}.general_blockwise") for t in ts):
            continue
        ob_, nt_ = kwarg(c, "output_blocks"), kwarg(c, "num_tasks")
        if ob_ is None and nt_ is None:
            continue
        if isinstance(ob_, ast.Name) and isinstance(nt_, ast.Name) and ob_.id == "output_blocks" and nt_.id == "num_tasks":
            continue  # plain forwarding of both
        both = ob_ is not None and nt_ is not None
        ctx.ob(d, c, both, "output_blocks= and num_tasks= must be given together", sel="count:explicit-pair")
        if both:
            fl = flow_of(repo, d)
            # the task iterable lives in the plan and is walked once per execution (and by
            # fusion, resume, batching …): it must be re-iterable, not a one-shot iterator
            cfg_ = cfg_of(d)
            one_shot = None
            if cfg_.has(c):
                vals = [ob_]
                if isinstance(ob_, ast.Name):
                    vals = [s_.value for s_ in fl.rdefs(ob_.id, cfg_.node_of(c)) if s_.value is not None]
                for v_ in vals:
                    if isinstance(v_, ast.GeneratorExp) or (isinstance(v_, ast.Call) and isinstance(v_.func, ast.Name) and v_.func.id in ("map", "filter", "zip", "iter", "enumerate", "reversed")) or (isinstance(v_, ast.Call) and (attr_chain(v_.func) or "").startswith("itertools.")):
                        one_shot = v_
            ctx.ob(
                d,
                c,
                one_shot is None,
                "an explicit task iterable (output_blocks=) can be walked more than once"
                + ("" if one_shot is None else f" — `{unparse(one_shot, 50)}` is a one-shot iterator: the second execution of the same plan (or any earlier walk) finds it empty while num_tasks still advertises the full count"),
                sel="count:reiterable",
                props=["C13", "C11"],
            )
            # an instance of a class of the package: its __iter__ hands out a fresh iterator on
            # every call (no one-shot iterator remembered on the instance)
            if cfg_.has(c):
                vals = [ob_]
                if isinstance(ob_, ast.Name):
                    vals = [s_.value for s_ in fl.rdefs(ob_.id, cfg_.node_of(c)) if s_.value is not None]
                for v_ in vals:
                    if isinstance(v_, ast.Call):
                        for t_ in repo.resolve_call(v_, d, d.module):
                            if t_.kind == "class" and getattr(t_.ref, "kind", None) == "class":
                                _fresh_iter(ctx, t_.ref)
            t_ob = fl.taint(ob_) - {"self"}
            t_nt = fl.taint(nt_) - {"self"}
            # (weak by nature: both must at least be computed from this call's operands; whether
            # the two grids agree is TARGET-COMPAT-1's question — known finding F6)
            same = bool(t_ob) and bool(t_nt)
            ctx.ob(
                d,
                c,
                same,
                f"explicit output_blocks ({unparse(ob_, 30)} ← {sorted(t_ob)}) and num_tasks ({unparse(nt_, 30)} ← {sorted(t_nt)}) must be derived from the same array's grid"
                + ("" if same else " — the iterable follows one array and the count another: they agree only when the two chunkings agree"),
                sel="count:explicit-origin",
            )


ONE_SHOT_BUILTINS = ("map", "filter", "zip", "iter", "enumerate", "reversed")


def _is_one_shot(v_: ast.AST) -> bool:
    return isinstance(v_, ast.GeneratorExp) or (isinstance(v_, ast.Call) and isinstance(v_.func, ast.Name) and v_.func.id in ONE_SHOT_BUILTINS) or (isinstance(v_, ast.Call) and (attr_chain(v_.func) or "").startswith("itertools."))


def _fresh_iter(ctx: Ctx, cls) -> None:
    """a task iterable class: __iter__ returns an iterator built by that call — it neither
    stores a one-shot iterator on the instance nor returns one stored there"""
    it = cls.children.get("__iter__")
    if it is None or not it.is_func or not it.params:
        return
    me = it.params[0]
    stored = {}
    for m in cls.children.values():
        if not m.is_func or not m.params:
            continue
        for n in m.own_nodes():
            tg = n.targets if isinstance(n, ast.Assign) else [n.target] if isinstance(n, ast.AnnAssign) and n.value is not None else []
            for t in tg:
                if isinstance(t, ast.Attribute) and isinstance(t.value, ast.Name) and t.value.id == m.params[0] and _is_one_shot(n.value):
                    stored[t.attr] = (m, n)
    bad = None
    for n in it.own_nodes():
        if isinstance(n, ast.Return) and n.value is not None:
            for x in ast.walk(n.value):
                if isinstance(x, ast.Attribute) and isinstance(x.value, ast.Name) and x.value.id == me and x.attr in stored:
                    bad = (x.attr, stored[x.attr][1])
    ctx.ob(
        cls,
        bad[1] if bad else it.node,
        bad is None,
        f"{cls.name}.__iter__ builds a fresh iterator on every call"
        + ("" if bad is None else f" — it returns `self.{bad[0]}`, a one-shot iterator (`{unparse(bad[1].value, 40)}`) kept on the instance: the second walk of the same plan object (second compute, fusion, resume) finds it exhausted while num_tasks still advertises the full count"),
        sel="count:reiterable:class",
        props=["C13", "C11"],
        firm=True,
    )


def _same_population(repo, f, fl, cfg, nt, po, mp, cp):
    """num_tasks expr vs mappable expr: same origin."""
    at_po, at_cp = cfg.node_of(po), cfg.node_of(cp)
    r_nt = fl.roots(nt, at_po)
    r_mp = fl.roots(mp, at_cp)

    # (1) both are attributes of the same operation object: X.num_tasks / X.pipeline.mappable
    def base(rs, suffixes):
        out = set()
        for r in rs:
            for s in suffixes:
                if r.endswith(s):
                    out.add(r[: -len(s)])
        return out

    b1 = base(r_nt, (".num_tasks",))
    b2 = base(r_mp, (".pipeline.mappable", ".mappable"))
    b2 |= {x[: -len(".pipeline")] for x in b2 if x.endswith(".pipeline")}
    if b1 and b1 <= b2 | {x + ".pipeline" for x in b2}:
        return True, ""
    if b1 and b2:
        # pipeline alias: pipeline2 = primitive_op2.pipeline
        if all(any(y.startswith(x) for y in b2) for x in b1):
            return True, ""
        return False, f"count from {sorted(b1)} but items from {sorted(b2)}"
    # (2) len(xs) vs xs
    if isinstance(nt, ast.Name):
        for s in fl.rdefs(nt.id, at_po):
            v = s.value
            if s.kind == "assign" and isinstance(v, ast.Call) and isinstance(v.func, ast.Name) and v.func.id == "len" and isinstance(v.args[0], ast.Name) and isinstance(mp, ast.Name) and v.args[0].id == mp.id:
                return True, ""
    # (3) default grid: prod(len(c) for c in G) vs ChunkKeys(G), explicit values under the
    #     same `is None` alternative
    names_nt = _grid_names(fl, nt, at_po)
    names_mp = _grid_names(fl, mp, at_cp)
    if names_nt and names_mp:
        common = names_nt & names_mp
        if common:
            return True, ""
        return False, f"count derives from {sorted(names_nt)} but the iterable from {sorted(names_mp)}"
    return False, f"origins {sorted(r_nt)[:3]} vs {sorted(r_mp)[:3]}"


def _grid_names(fl, e, at) -> set[str]:
    """Local (non-parameter) variables feeding expression e, with their defining node, after
    expanding one level of assignment — used to compare the default branches."""
    out = set()
    seen = set()

    def go(x, at, depth):
        for n in walk_own(x, include_root=True):
            if isinstance(n, ast.Name) and isinstance(n.ctx, ast.Load):
                for s in fl.rdefs(n.id, at):
                    k = (s.name, s.node)
                    if k in seen:
                        continue
                    seen.add(k)
                    if s.kind == "param":
                        continue
                    if s.kind in ("assign",) and s.value is not None and depth > 0 and not isinstance(s.value, (ast.Call, ast.ListComp, ast.GeneratorExp, ast.SetComp, ast.DictComp, ast.List, ast.Tuple, ast.Dict)):
                        go(s.value, s.node, depth - 1)
                    elif s.kind == "assign" and isinstance(s.value, ast.Call) and depth > 0 and unparse(s.value.func) in ("math.prod", "prod", "ChunkKeys", "compute_numblocks", "numblocks"):
                        go(s.value, s.node, depth - 1)
                    else:
                        out.add(f"{s.name}@{s.node}")

    go(e, at, 3)
    return out


# =============================================================================== C07


def _stream_values(repo: Repo, f: Def, cfg: CFG, fl, X: int):
    """Names carrying (containers of) task streams created inside op loop X."""
    src_calls = [c for c in repo.calls_to(f, P2S) if cfg.in_loop(cfg.node_of(c), X)]
    sv: set[str] = set()

    def has_sv(e: ast.AST) -> bool:
        for n in ast.walk(e):
            if isinstance(n, ast.Name) and n.id in sv:
                return True
            if isinstance(n, ast.Call) and n in src_calls:
                return True
        return False

    changed = True
    while changed:
        changed = False
        for nid, sites in fl.sites.items():
            for s in sites:
                if s.value is not None and s.kind in ("assign", "with", "walrus") and has_sv(s.value) and s.name not in sv:
                    sv.add(s.name)
                    changed = True
        for n in f.own_nodes():
            if isinstance(n, ast.Call) and isinstance(n.func, ast.Attribute) and n.func.attr in ("append", "extend", "add") and isinstance(n.func.value, ast.Name):
                if any(has_sv(a) for a in n.args) and n.func.value.id not in sv:
                    sv.add(n.func.value.id)
                    changed = True
    return src_calls, sv


@rule("BARRIER-1", props=["C07"], floor=4)
def barrier(ctx: Ctx) -> None:
    """each operation's (generation's) task stream is created, fully consumed and dropped
    inside one iteration of the executor's loop over operations; it never escapes it"""
    repo = ctx.repo
    from ..effects import EXT_SPAWN

    for f in executor_entries(repo, ctx.tier):
        cfg = cfg_of(f)
        fl = flow_of(repo, f)
        for ln, kind in op_loops(repo, f):
            X = ln.id
            D = _task_end_sites(repo, f, cfg, X)
            ks = {_consume_loop(cfg, d_, f) for d_ in D} - {None, X}
            helper_call = None
            if not D:
                drains = []
                for c in f.own_nodes():
                    if isinstance(c, ast.Call) and cfg.has(c) and cfg.in_loop(cfg.node_of(c), X):
                        for t_ in repo.resolve_call(c, f, f.module):
                            if t_.kind == "def" and t_.ref.is_func and t_.ref.module is f.module and _is_drain_helper(repo, t_.ref):
                                drains.append(c)
                if len(drains) == 1:
                    helper_call = drains[0]
                    ks = {cfg.node_of(helper_call)}
                elif drains:
                    ctx.need(False, f"{f.qual}: several stream-draining helpers in one operation loop; not followed")
            if len(ks) != 1:
                ctx.ob(f, ln.stmt, False, f"[{kind}] cannot identify the loop that consumes task results inside the loop over operations", sel=f"{kind}:consume-loop")
                continue
            K = ks.pop()
            kst = cfg.nodes[K].stmt
            src_calls, sv = _stream_values(repo, f, cfg, fl, X)
            if src_calls:
                consumed = kst.iter if helper_call is None else ast.Tuple(elts=list(helper_call.args), ctx=ast.Load())
                ok = any(isinstance(n, ast.Name) and n.id in sv for n in ast.walk(consumed)) or (helper_call is not None and any(any(cc is sc for sc in src_calls) for a in helper_call.args for cc in ast.walk(a)))
                ctx.ob(f, kst, ok, f"[{kind}] the result loop consumes the stream(s) created in this iteration", sel=f"{kind}:consumes-own-stream")
                # all definitions of stream-carrying names that reach their uses are inside X
                escaped = []
                for n in f.own_nodes():
                    if isinstance(n, ast.Name) and isinstance(n.ctx, ast.Load) and n.id in sv and cfg.has(n) and cfg.in_loop(cfg.node_of(n), X):
                        for s in fl.rdefs(n.id, cfg.node_of(n)):
                            if not cfg.in_loop(s.node, X):
                                escaped.append((n, s))
                ctx.ob(
                    f,
                    escaped[0][0] if escaped else ln.stmt,
                    not escaped,
                    f"[{kind}] stream containers are (re)created inside each iteration"
                    + ("" if not escaped else f" — `{escaped[0][0].id}` is defined outside the loop over operations: streams of several operations/generations would be merged and run together"),
                    sel=f"{kind}:stream-local",
                )
                spawned = []
                for c, ts in repo.calls_in(f):
                    if any(t.kind == "ext" and t.qual in EXT_SPAWN for t in ts) and any(isinstance(n, ast.Name) and n.id in sv for a in c.args for n in ast.walk(a)):
                        spawned.append(c)
                ctx.ob(f, spawned[0] if spawned else ln.stmt, not spawned, f"[{kind}] streams are awaited in place, never handed to create_task/gather", sel=f"{kind}:not-spawned")
                for c in src_calls:
                    ctx.ob(f, c, cfg.in_loop(cfg.node_of(c), X), f"[{kind}] stream created inside the loop over operations", sel=f"{kind}:created-inside", nontrivial=False)
            else:
                # sequential executor: iterate the pipeline's mappable directly and call the task
                # function synchronously
                ctx.need(helper_call is None, f"{f.qual}: sequential executor restructured around a helper; not followed")
                it = kst.iter
                ok = isinstance(it, ast.Attribute) and it.attr == "mappable"
                ctx.ob(f, kst, ok, f"[{kind}] tasks are enumerated from the operation's own mappable", sel=f"{kind}:mappable")
                sync = [c for c, ts in repo.calls_in(f) if cfg.in_loop(cfg.node_of(c), K) and any(t.kind == "def" and t.ref.name == "exec_stage_func" for t in ts)]
                sub = [c for c in f.own_nodes() if isinstance(c, ast.Call) and isinstance(c.func, ast.Attribute) and c.func.attr in ("submit", "create_task")]
                ctx.ob(f, sync[0] if sync else kst, bool(sync) and not sub, f"[{kind}] each task is run synchronously inside the loop", sel=f"{kind}:synchronous")
            # no early exit from the consuming loop or the op loop
            early = [n for n in cfg.nodes if n.kind == "stmt" and isinstance(n.stmt, (ast.Break, ast.Return)) and cfg.in_loop(n.id, X)]
            ctx.ob(f, early[0].stmt if early else ln.stmt, not early, f"[{kind}] no break/return inside the loop over operations (every stream is drained)", sel=f"{kind}:no-early-exit")
            # K is directly inside X (same iteration)
            ctx.ob(f, kst, cfg.in_loop(K, X), f"[{kind}] results are consumed in the same iteration that created the stream", sel=f"{kind}:same-iteration", nontrivial=False)
    # pipeline_to_stream wraps exactly the pipeline's own mappable/function/config
    p2s = repo.get(P2S)
    ok = False
    for c in repo.calls_to(p2s, f"{A.RT_ASYNC}.async_map_unordered"):
        if len(c.args) >= 2 and unparse(c.args[1]) == "pipeline.mappable":
            fk, ck = kwarg(c, "func"), kwarg(c, "config")
            ok = fk is not None and unparse(fk) == "pipeline.function" and ck is not None and unparse(ck) == "pipeline.config"
    ctx.ob(p2s, None, ok, "pipeline_to_stream maps the pipeline's function over the pipeline's own mappable with its own config", sel="p2s")


@rule("BARRIER-SRC-1", props=["C07", "C09", "C10"], floor=5, default=["C07"])
def barrier_src(ctx: Ctx) -> None:
    """executors obtain operations only from visit_nodes / visit_node_generations, which
    traverse the whole dag in topological order and filter only through skip_node"""
    repo = ctx.repo
    for f in executor_entries(repo, ctx.tier):
        cfg = cfg_of(f)
        fl = flow_of(repo, f)
        for n in cfg.stmts((ast.For, ast.AsyncFor)):
            it = n.stmt.iter
            t = fl.taint(it, n.id)
            if "dag" in t and not n.loops:
                def from_visit(e, at, depth=3):
                    """e is visit_*(dag), a comprehension wrapping every element of one, or a
                    variable all of whose definitions are"""
                    if isinstance(e, ast.Call):
                        q_ = repo.callee_quals(e, f)
                        return bool(q_ & {VISIT_NODES, VISIT_GENS}) and bool(e.args) and isinstance(e.args[0], ast.Name) and e.args[0].id == "dag"
                    if isinstance(e, (ast.GeneratorExp, ast.ListComp)) and len(e.generators) == 1 and not e.generators[0].ifs:
                        return from_visit(e.generators[0].iter, at, depth)
                    if isinstance(e, ast.Name) and depth > 0:
                        ds = fl.rdefs(e.id, at)
                        return bool(ds) and all(d_.kind == "assign" and d_.value is not None and from_visit(d_.value, d_.node, depth - 1) for d_ in ds)
                    return False

                ok = from_visit(it, n.id)
                ctx.ob(f, n.stmt, ok, "operations are taken from visit_nodes(dag) / visit_node_generations(dag)" + ("" if ok else f" — iterates `{unparse(it, 40)}` instead (no topological order / no barrier)"), sel=f"src:{unparse(n.stmt.target, 20)}")
    for q, fn in ((VISIT_NODES, "networkx.topological_sort"), (VISIT_GENS, "networkx.topological_generations")):
        v = repo.get(q)
        cfg = cfg_of(v)
        fl = flow_of(repo, v)
        loops = [n for n in cfg.stmts(ast.For) if not n.loops]
        ok = False
        loop = None
        for n in loops:
            rs = set()
            for c in ast.walk(n.stmt.iter):
                if isinstance(c, ast.Call):
                    rs |= repo.callee_quals(c, v)
            if fn in rs:
                # argument is the dag parameter itself
                for c in ast.walk(n.stmt.iter):
                    if isinstance(c, ast.Call) and fn in repo.callee_quals(c, v):
                        ok = bool(c.args) and isinstance(c.args[0], ast.Name) and c.args[0].id == v.params[0] and all(s.kind == "param" for s in fl.rdefs(c.args[0].id, n.id))
                loop = n
        ctx.ob(v, loop.stmt if loop else v.node, ok, f"{v.name} iterates {fn}(<the whole dag>)", sel="order")
        if loop is None:
            continue
        # yields: guarded only by skip_node / non-emptiness
        for y in [x for x in v.own_nodes() if isinstance(x, ast.Yield)]:
            yn = cfg.node_of(y)
            extra = []
            for t, pol in facts_at(cfg, yn):
                calls_skip = any(isinstance(c, ast.Call) and SKIP_NODE in repo.callee_quals(c, v) for c in ast.walk(t))
                if calls_skip and not pol:
                    continue
                if isinstance(t, ast.Compare) and "len(" in unparse(t) and len(t.ops) == 1 and isinstance(t.comparators[0], ast.Constant):
                    # "the generation is not empty", with the right polarity
                    k_ = t.comparators[0].value
                    nonempty = (isinstance(t.ops[0], ast.Gt) and k_ == 0) or (isinstance(t.ops[0], ast.GtE) and k_ == 1) or (isinstance(t.ops[0], ast.NotEq) and k_ == 0)
                    empty = (isinstance(t.ops[0], ast.Eq) and k_ == 0) or (isinstance(t.ops[0], ast.Lt) and k_ == 1) or (isinstance(t.ops[0], ast.LtE) and k_ == 0)
                    if (nonempty and pol) or (empty and not pol):
                        continue
                if isinstance(t, ast.Name) and pol and y.value is not None and isinstance(y.value, ast.Name) and t.id == y.value.id:
                    continue  # `if gen:` — the yielded collection is not empty
                extra.append(("" if pol else "not ") + unparse(t))
            # comprehension filters inside the yielded value's definition
            for nm in ast.walk(y.value) if y.value is not None else []:
                if isinstance(nm, ast.Name):
                    for s in fl.rdefs(nm.id, yn):
                        if s.value is not None and isinstance(s.value, (ast.ListComp, ast.GeneratorExp)):
                            for g in s.value.generators:
                                for cond in g.ifs:
                                    for fct, pol in conjuncts(cond, True):
                                        if not pol and any(isinstance(c, ast.Call) and SKIP_NODE in repo.callee_quals(c, v) for c in ast.walk(fct)):
                                            continue
                                        extra.append(unparse(cond))
            ctx.ob(v, y, cfg.in_loop(yn, loop.id) and not extra, f"{v.name} yields every node of the order except those skip_node rejects" + ("" if not extra else f" — extra filter {extra}"), sel="yield-all")
    sk = repo.get(SKIP_NODE)
    cfg = cfg_of(sk)
    fl = flow_of(repo, sk)
    for r in cfg.returns():
        v = r.stmt.value
        if is_falsy_return(r):
            ctx.ob(sk, r.stmt, True, "skip_node: falsy return (node is executed)", sel="skip:return", nontrivial=False)
            continue
        facts = facts_at(cfg, r.id)
        ok = False
        why = unparse(v, 50)
        if isinstance(v, ast.Constant) and v.value is True:
            # only under `<pipeline> is None`
            for t, pol in facts:
                if pol and isinstance(t, ast.Compare) and isinstance(t.ops[0], ast.Is) and isinstance(t.comparators[0], ast.Constant) and t.comparators[0].value is None and isinstance(t.left, ast.Name):
                    if any(s.value is not None and "pipeline" in subscript_keys(s.value) for s in fl.rdefs(t.left.id, r.id)):
                        ok = True
                # the lookup written inline: `<node>.get("pipeline") is None` / `"pipeline" not in <node>`
                if pol and isinstance(t, ast.Compare) and isinstance(t.ops[0], ast.Is) and isinstance(t.comparators[0], ast.Constant) and t.comparators[0].value is None and not isinstance(t.left, ast.Name) and "pipeline" in subscript_keys(t.left):
                    ok = True
                if isinstance(t, ast.Compare) and isinstance(t.ops[0], (ast.In, ast.NotIn)) and isinstance(t.left, ast.Constant) and t.left.value == "pipeline" and (isinstance(t.ops[0], ast.NotIn) == pol):
                    ok = True
                # `if <node>.get("computed", <falsy>): return True` — the flag spelled as a branch
                if pol and isinstance(t, ast.Call) and isinstance(t.func, ast.Attribute) and t.func.attr == "get" and t.args and isinstance(t.args[0], ast.Constant) and t.args[0].value == "computed":
                    dv = t.args[1] if len(t.args) > 1 else ast.Constant(None)
                    if isinstance(dv, ast.Constant) and not dv.value:
                        ok = True
        else:
            def allowed_truthy(e: ast.AST, at: int, depth: int = 3) -> bool:
                """`e` can be truthy only because the node has no pipeline, or because its
                `computed` flag (falsy by default) is set"""
                if isinstance(e, ast.BoolOp) and isinstance(e.op, ast.Or):
                    return all(allowed_truthy(x, at, depth) for x in e.values)
                if isinstance(e, ast.Call) and isinstance(e.func, ast.Attribute) and e.func.attr == "get" and e.args and isinstance(e.args[0], ast.Constant) and e.args[0].value == "computed":
                    dv = e.args[1] if len(e.args) > 1 else ast.Constant(None)
                    return isinstance(dv, ast.Constant) and not dv.value
                if isinstance(e, ast.Compare) and len(e.ops) == 1 and isinstance(e.ops[0], ast.Is) and isinstance(e.comparators[0], ast.Constant) and e.comparators[0].value is None:
                    if isinstance(e.left, ast.Name):
                        ds = fl.rdefs(e.left.id, at)
                        return bool(ds) and all(s_.value is not None and "pipeline" in subscript_keys(s_.value) for s_ in ds)
                    return "pipeline" in subscript_keys(e.left)
                if isinstance(e, ast.Compare) and len(e.ops) == 1 and isinstance(e.ops[0], ast.NotIn) and isinstance(e.left, ast.Constant) and e.left.value == "pipeline":
                    return True
                if isinstance(e, ast.Name) and depth > 0:
                    ds = fl.rdefs(e.id, at)
                    return bool(ds) and all(s_.kind == "assign" and s_.value is not None and allowed_truthy(s_.value, s_.node, depth - 1) for s_ in ds)
                return False

            ok = allowed_truthy(v, r.id)
        ctx.ob(sk, r.stmt, ok, f"skip_node returns true only for 'no pipeline' or the `computed` flag with a falsy default (returns `{why}`)", sel="skip:return", props=["C07", "C09", "C10"])


@rule("CREATE-FIRST-1", props=["C07"], floor=3)
def create_first(ctx: Ctx) -> None:
    """the create-arrays operation is made a predecessor of every executable operation"""
    repo = ctx.repo
    f = repo.get(A.CREATE_LAZY)
    cfg = cfg_of(f)
    fl = flow_of(repo, f)
    # the node added with a primitive_op keyword = the create op
    adds = [c for c in f.own_nodes() if isinstance(c, ast.Call) and isinstance(c.func, ast.Attribute) and c.func.attr == "add_node"]
    create = [c for c in adds if kwarg(c, "primitive_op") is not None]
    ctx.need(len(create) == 1, "create-arrays node construction not found")
    cnode = create[0].args[0]
    edges = [c for c in f.own_nodes() if isinstance(c, ast.Call) and isinstance(c.func, ast.Attribute) and c.func.attr == "add_edge" and len(c.args) == 2]
    # edge create-op -> OUT
    outs = [c.args[1] for c in edges if ast.dump(c.args[0]) == ast.dump(cnode)]
    ctx.ob(f, create[0], len(outs) == 1, "the create-arrays op has an edge to its output node", sel="create:out-edge")
    if len(outs) != 1:
        return
    out = outs[0]
    fan = [c for c in edges if ast.dump(c.args[0]) == ast.dump(out) and cfg.nodes[cfg.node_of(c)].loops]
    # the same fan-out written as one call: dag.add_edges_from((OUT, n) for n in <collection>)
    bulk = []
    for c in f.own_nodes():
        if isinstance(c, ast.Call) and isinstance(c.func, ast.Attribute) and c.func.attr == "add_edges_from" and c.args and isinstance(c.args[0], (ast.GeneratorExp, ast.ListComp)):
            g = c.args[0]
            if isinstance(g.elt, ast.Tuple) and len(g.elt.elts) == 2 and ast.dump(g.elt.elts[0]) == ast.dump(out) and len(g.generators) == 1:
                bulk.append(c)
    ctx.ob(f, (fan or bulk or [f.node])[0], len(fan) + len(bulk) == 1, "edges from the create-arrays output node are added in a loop over the collected operations", sel="create:fan-out")

    def collected_ok(coll: ast.Name, at: int):
        """the collection holds every node that has a primitive op: built by appends under
        only that test, or by a comprehension over dag.nodes with only that filter"""
        apps = [a for a in f.own_nodes() if isinstance(a, ast.Call) and isinstance(a.func, ast.Attribute) and a.func.attr == "append" and isinstance(a.func.value, ast.Name) and a.func.value.id == coll.id]
        comps = [d_.value for d_ in fl.rdefs(coll.id, at) if isinstance(d_.value, (ast.ListComp, ast.DictComp, ast.SetComp))]
        ctx.ob(f, (apps or comps or [f.node])[0], bool(apps) or bool(comps), "operations are collected into the list the barrier loop iterates", sel="create:collected")
        for a in apps:
            an = cfg.node_of(a)
            extra = []
            for t, pol in facts_at(cfg, an):
                if pol and isinstance(t, ast.Compare) and isinstance(t.left, ast.Constant) and t.left.value in ("primitive_op", "pipeline") and isinstance(t.ops[0], ast.In):
                    continue
                extra.append(("" if pol else "not ") + unparse(t))
            lp = cfg.nodes[an].loops
            over_nodes = bool(lp) and "nodes" in unparse(cfg.nodes[lp[0]].stmt.iter)
            ctx.ob(f, a, not extra and over_nodes, "every node with a primitive_op/pipeline is collected" + ("" if not extra else f" — extra filter {extra}"), sel="create:predicate")
        for cm in comps:
            gen = cm.generators[0]
            extra = []
            for cond in gen.ifs:
                for part in (cond.values if isinstance(cond, ast.BoolOp) and isinstance(cond.op, ast.And) else [cond]):
                    if isinstance(part, ast.Compare) and isinstance(part.left, ast.Constant) and part.left.value in ("primitive_op", "pipeline") and isinstance(part.ops[0], ast.In):
                        continue
                    extra.append(unparse(part))
            over_nodes = len(cm.generators) == 1 and "nodes" in unparse(gen.iter)
            ctx.ob(f, cm, not extra and over_nodes and bool(gen.ifs), "every node with a primitive_op/pipeline is collected" + ("" if not extra else f" — extra filter {extra}"), sel="create:predicate")

    for c in bulk:
        g = c.args[0]
        gen = g.generators[0]
        ok = isinstance(gen.iter, ast.Name) and isinstance(gen.target, ast.Name) and isinstance(g.elt.elts[1], ast.Name) and g.elt.elts[1].id == gen.target.id and not gen.ifs
        ctx.ob(f, c, ok, "the barrier edge is added for every collected operation (plain loop over the collection, no filter)" + ("" if ok else f" — iterates `{unparse(gen.iter, 40)}`"), sel="create:all-nodes")
        if isinstance(gen.iter, ast.Name):
            collected_ok(gen.iter, cfg.node_of(c))
    for c in fan:
        nid = cfg.node_of(c)
        loop = cfg.nodes[cfg.nodes[nid].loops[-1]]
        it = loop.stmt.iter
        ok = isinstance(it, ast.Name) and isinstance(c.args[1], ast.Name) and isinstance(loop.stmt.target, ast.Name) and c.args[1].id == loop.stmt.target.id
        inner_conds = [b for _, _, b in cfg.branch_conditions(nid) if cfg.in_loop(b, loop.id)]
        ctx.ob(f, c, ok and not inner_conds, "the barrier edge is added for every collected operation (plain loop over the collection, no filter)" + ("" if ok else f" — iterates `{unparse(it, 40)}`"), sel="create:all-nodes")
        if not isinstance(it, ast.Name):
            continue
        # the collection receives every node that has a primitive op
        collected_ok(it, nid)


@rule("NODEKEYS-1", props=["C07", "C02", "C09"], floor=4)
def nodekeys(ctx: Ctx) -> None:
    """whoever sets a node's primitive_op also sets its pipeline from the same operation; the
    node keys the runtime reads are keys some builder writes"""
    repo = ctx.repo
    written: set[str] = set()
    n_sites = 0
    for f in repo.functions():
        if not f.module.qual.startswith("cubed.core."):
            continue
        for c in f.own_nodes():
            # node attributes are written by add_node(...), or collected first in a dict
            # (`attrs = dict(...)`, `attrs.update(...)`) that add_node(**attrs) receives
            if isinstance(c, ast.Call) and ((isinstance(c.func, ast.Attribute) and c.func.attr in ("add_node", "update")) or (isinstance(c.func, ast.Name) and c.func.id == "dict")):
                for k in c.keywords:
                    if k.arg:
                        written.add(k.arg)
                po = kwarg(c, "primitive_op")
                if po is not None:
                    n_sites += 1
                    pl = kwarg(c, "pipeline")
                    ok = pl is not None and isinstance(pl, ast.Attribute) and pl.attr == "pipeline" and ast.dump(pl.value) == ast.dump(po)
                    ctx.ob(f, c, ok, "node attributes primitive_op=X must come with pipeline=X.pipeline", sel="keys:add_node")
            if isinstance(c, ast.Assign) and isinstance(c.targets[0], ast.Subscript) and isinstance(c.targets[0].slice, ast.Constant) and isinstance(c.targets[0].slice.value, str):
                key = c.targets[0].slice.value
                written.add(key)
                if key == "primitive_op":
                    n_sites += 1
                    from .runtime import _block_of

                    blk = _block_of(f, c)
                    ok = False
                    for st in blk:
                        if isinstance(st, ast.Assign) and isinstance(st.targets[0], ast.Subscript) and isinstance(st.targets[0].slice, ast.Constant) and st.targets[0].slice.value == "pipeline":
                            if ast.dump(st.targets[0].value) == ast.dump(c.targets[0].value) and isinstance(st.value, ast.Attribute) and st.value.attr == "pipeline" and ast.dump(st.value.value) == ast.dump(c.value):
                                ok = True
                    ctx.ob(f, c, ok, "node['primitive_op'] = X must be paired with node['pipeline'] = X.pipeline in the same block (the runtime executes the pipeline, the planner admits the primitive op)", sel="keys:store")
    ctx.need(n_sites >= 4, f"only {n_sites} primitive_op writers found")
    read: dict[str, tuple[Def, ast.AST]] = {}
    for q in (SKIP_NODE, VISIT_NODES, VISIT_GENS, f"{A.RT_ASYNC}.async_map_dag", f"{A.RT_LOCAL}.SingleThreadedExecutor.execute_dag", f"{A.PLAN}.already_computed"):
        d = repo.get(q)
        for k in subscript_keys(d.node):
            read.setdefault(k, (d, d.node))
    for k, (d, n) in sorted(read.items()):
        if k in ("use_backups",):
            continue
        ctx.ob(d, None, k in written, f"node key '{k}' read by {d.name} is written by a plan builder", sel=f"keys:read:{k}")


@rule("PLAN-EDGES-1", props=["C07"], floor=4)
def plan_edges(ctx: Ctx) -> None:
    """every array whose storage an operation reads is a graph predecessor of that operation"""
    repo = ctx.repo
    new = repo.get(A.PLAN_NEW)
    cfg = cfg_of(new)
    va = new.vararg
    ctx.need(va, "Plan._new has no *source_arrays")
    edges = [c for c in new.own_nodes() if isinstance(c, ast.Call) and isinstance(c.func, ast.Attribute) and c.func.attr == "add_edge" and len(c.args) == 2]
    src_edges = []
    for c in edges:
        nid = cfg.node_of(c)
        lp = cfg.nodes[nid].loops
        if lp and isinstance(cfg.nodes[lp[-1]].stmt.iter, ast.Name) and cfg.nodes[lp[-1]].stmt.iter.id == va:
            src_edges.append(c)
    ctx.ob(new, src_edges[0] if src_edges else new.node, len(src_edges) == 1, "Plan._new adds an edge source → op in a plain loop over all source arrays", sel="edges:sources")
    for c in src_edges:
        nid = cfg.node_of(c)
        extra = []
        for t, pol in facts_at(cfg, nid):
            if pol and isinstance(t, ast.Call) and isinstance(t.func, ast.Name) and t.func.id == "hasattr":
                continue
            extra.append(unparse(t))
        ctx.ob(new, c, not extra, "no filter on the source edges other than `hasattr(x, 'name')`" + ("" if not extra else f" — {extra}"), sel="edges:sources-unfiltered")
    # every array node created here is attached to the operation node created here
    from .runtime import _block_of

    def is_add_node(c: ast.AST, typ: str) -> bool:
        return isinstance(c, ast.Call) and isinstance(c.func, ast.Attribute) and c.func.attr == "add_node" and bool(c.args) and isinstance(kwarg(c, "type"), ast.Constant) and kwarg(c, "type").value == typ

    op_vars = {unparse(c.args[0]) for c in new.own_nodes() if is_add_node(c, "op")}
    if not op_vars:
        # attributes collected in a dict first: add_node(X, **attrs) where attrs has type="op"
        for c in new.own_nodes():
            if isinstance(c, ast.Call) and isinstance(c.func, ast.Attribute) and c.func.attr == "add_node" and c.args and any(k.arg is None for k in c.keywords):
                for k in c.keywords:
                    if k.arg is None and isinstance(k.value, ast.Name):
                        for s_ in flow_of(repo, new).rdefs(k.value.id, cfg.node_of(c)):
                            if isinstance(s_.value, ast.Call) and isinstance(kwarg(s_.value, "type"), ast.Constant) and kwarg(s_.value, "type").value == "op":
                                op_vars.add(unparse(c.args[0]))
    ctx.need(op_vars, "Plan._new: creation of the operation node not recognised")
    # (the array nodes may be added by a private piece of Plan._new: one level)
    scopes: list[tuple[Def, set[str]]] = [(new, op_vars)]
    for c in new.own_nodes():
        if isinstance(c, ast.Call):
            for t in repo.resolve_call(c, new, new.module):
                if t.kind == "def" and t.ref.is_func and t.ref is not new and t.ref.module is new.module and t.ref.name.startswith("_") and not t.ref.name.startswith("__"):
                    h = t.ref
                    pos = [p_ for p_ in h.positional_params if p_ not in ("self", "cls")] if h.cls is not None and "staticmethod" not in h.decorators() else h.positional_params
                    bound = {pos[i] for i, a in enumerate(c.args) if i < len(pos) and unparse(a) in op_vars} | {k.arg for k in c.keywords if k.arg and unparse(k.value) in op_vars}
                    if bound and all(h is not h2 for h2, _ in scopes):
                        scopes.append((h, bound))
    n_arr = 0
    for F, ovars in scopes:
        cfgF = cfg_of(F)
        for c in [c for c in F.own_nodes() if is_add_node(c, "array")]:
            n_arr += 1
            st_ = cfgF.nodes[cfgF.node_of(c)].stmt
            blk = _block_of(F, st_)
            a0 = unparse(c.args[0])
            ok = any(isinstance(x, ast.Call) and isinstance(x.func, ast.Attribute) and x.func.attr == "add_edge" and len(x.args) == 2 and unparse(x.args[0]) in ovars and unparse(x.args[1]) == a0 for b_ in blk for x in ast.walk(b_))
            ctx.ob(F, c, ok, f"the array node `{a0}` gets an edge from the operation that produces it, in the same block" + ("" if ok else " — missing: the array has no producer in the graph, so its consumers are not ordered after the operation that writes it"), sel=f"edges:output:{ctx.anon(F, c.args[0], 20)}:{'loop' if cfgF.nodes[cfgF.node_of(c)].loops else 'single'}:{len([1 for t, pol in facts_at(cfgF, cfgF.node_of(c)) if pol])}")
    ctx.need(n_arr >= 1, "Plan._new: creation of the array nodes not recognised")
    for q in (f"{A.OPS}.blockwise", f"{A.OPS}._general_blockwise"):
        f = repo.get(q)
        fl = flow_of(repo, f)
        for c in repo.calls_to(f, A.PLAN_NEW):
            star = [a for a in c.args if isinstance(a, ast.Starred)]
            ok = False
            if star:
                t_src = fl.taint(star[0].value)
                # storage objects handed to the primitive
                prim = [p for p in f.own_nodes() if isinstance(p, ast.Call) and any(x.kind == "def" and x.ref.module.qual == A.PBW for x in repo.resolve_call(p, f, f.module))]
                t_prim = set()
                for p in prim:
                    for a in p.args:
                        if isinstance(a, ast.Starred):
                            t_prim |= fl.taint(a.value)
                ok = bool(t_prim) and t_prim <= t_src | {"kwargs"}
                # and the source list contains the whole operand sequence, not a slice of it
                for s in fl.rdefs(star[0].value.id, cfg_of(f).node_of(c)) if isinstance(star[0].value, ast.Name) else []:
                    if s.value is not None and any(isinstance(x, ast.Subscript) for x in ast.walk(s.value)):
                        ok = False
            ctx.ob(f, c, ok, "Plan._new receives every array whose storage object is passed to the primitive", sel="edges:all-operands")
