"""C01 / C15 / C17: alignment taint (ALIGN-1), key-name agreement (KEYNAMES-1), block-id
plumbing (BLOCKID-1), proxy name chain (PROXY-KEYS-1), reachable assertions (ASSERT-1)."""

from __future__ import annotations

import ast
import re

from .. import anchors as A
from ..astutil import kwarg, mentions_attr, mentions_name, unparse
from ..cfg import cfg_of
from ..effects import effects_of
from ..flow import flow_of
from ..index import Def, Repo, attr_chain, public_functions, walk_own
from ..runner import Ctx, exception, rule
from .runtime import conjuncts, facts_at
from .spec import ARRAY_ATTRS

GB = {f"{A.OPS}.general_blockwise", f"{A.OPS}._general_blockwise"}
BW = f"{A.OPS}.blockwise"
MB = {f"{A.OPS}.map_blocks", f"{A.OPS}._map_blocks"}
SANITIZERS = {f"{A.OPS}.unify_chunks", f"{A.MANIP}.broadcast_arrays"}
CHUNKKEY = f"{A.PBW}.ChunkKey"

exception(
    "ALIGN-1",
    f"{A.OPS}.map_blocks:sink",
    "cubed.map_blocks is a block-level API whose contract is 'corresponding blocks of the arguments'; it has no NumPy counterpart, so it is outside C01's oracle",
)


def _base_vars(roots: set[str]) -> set[str]:
    out = set()
    for r in roots:
        for m in re.finditer(r"(?:free:[^:()]*:|param:)([A-Za-z_]\w*)", r):
            out.add(m.group(1))
    return out


def _array_args_of_sink(call: ast.Call, kind: str) -> list[ast.AST]:
    if kind == "gb":
        return list(call.args[2:])
    if kind == "bw":
        return [a for a in call.args[2:][::2]] + [a for a in call.args[2:] if isinstance(a, ast.Starred)]
    if kind == "mb":
        return list(call.args[1:])
    return []


def _key_shares_coords(repo: Repo, f: Def, call: ast.Call) -> bool:
    """general_blockwise sink: the registered key function builds ChunkKeys for >= 2 arrays
    (or for elements of a sequence) from coordinates of the same output key."""
    if len(call.args) < 2:
        return True
    ks = [t.ref for t in repo.resolve_value(call.args[1], f, f.module) if t.kind == "def"]
    if not ks:
        return True  # unknown key function: assume shared coordinates
    for k in ks:
        cks = [c for c in ast.walk(k.node) if isinstance(c, ast.Call) and CHUNKKEY in repo.callee_quals(c, k)]
        if len(cks) >= 2:
            return True
        for c in cks:
            # one ChunkKey built inside a comprehension/loop over several arrays, or whose
            # array is selected by index
            if c.args and not isinstance(c.args[0], ast.Attribute):
                return True
            if c.args and isinstance(c.args[0], ast.Attribute) and isinstance(c.args[0].value, ast.Name):
                nm = c.args[0].value.id
                kfl = flow_of(repo, k)
                if id(c.args[0].value) in kfl.comp_bind:
                    return True
                if any(s.kind in ("for", "unpack") or (s.value is not None and isinstance(s.value, ast.Subscript)) for ss in kfl.sites.values() for s in ss if s.name == nm):
                    return True
    return False


_wrapper_cache: dict[int, set[str]] = {}


def _sanitizers(repo: Repo) -> set[str]:
    """unify_chunks / broadcast_arrays and functions that just return their result (one level)."""
    k = id(repo)
    if k not in _wrapper_cache:
        out = set(SANITIZERS)
        for d in repo.functions():
            if d.module.qual.startswith(("cubed.vendor.", "cubed.runtime.", "cubed.diagnostics.")):
                continue
            rets = [n for n in d.own_nodes() if isinstance(n, ast.Return) and n.value is not None]
            if rets and all(isinstance(r.value, ast.Call) and repo.callee_quals(r.value, d) & SANITIZERS for r in rets):
                out.add(d.qual)
        _wrapper_cache[k] = out
    return _wrapper_cache[k]


def _classify_arg(repo: Repo, f: Def, fl, cfg, e: ast.AST, at: int, aparams: set[str], depth: int = 6) -> set[str]:
    """Origin classes of an array-valued expression: 'U' (unified / broadcast), 'T' (created here),
    'P:<param>' (derives from array parameter), 'SEQ:<param>' (element/whole of a sequence param)."""
    if depth <= 0:
        return {"?"}
    if isinstance(e, ast.Starred):
        inner = _classify_arg(repo, f, fl, cfg, e.value, at, aparams, depth)
        return {("SEQ:" + c[2:]) if c.startswith("P:") else c for c in inner}
    if isinstance(e, ast.Call):
        qs = repo.callee_quals(e, f)
        if qs & _sanitizers(repo):
            return {"U"}
        if any(q.startswith(f"{A.CREATION}.") or q.endswith("_virtual_array") for q in qs):
            # a fresh array: aligned by construction only if its chunks come from an operand
            return {"T"}
        # any other array function of the operands: derives from its array arguments
        out = set()
        for a in list(e.args) + [k.value for k in e.keywords]:
            out |= _classify_arg(repo, f, fl, cfg, a, at, aparams, depth - 1) - {"?"}
        return out or {"?"}
    if isinstance(e, ast.Name):
        if id(e) in fl.comp_bind:
            it, path = fl.comp_bind[id(e)]
            inner = _classify_arg(repo, f, fl, cfg, it, at, aparams, depth - 1)
            return {("SEQ:" + c[2:]) if c.startswith("P:") else c for c in inner}
        sites = fl.rdefs(e.id, at)
        out = set()
        for s in sites:
            if s.kind == "param":
                out.add(f"P:{s.name}" if s.name in aparams or True else "?")
            elif s.kind == "unpack" and isinstance(s.value, ast.Call) and repo.callee_quals(s.value, f) & _sanitizers(repo):
                out.add("U")
            elif s.kind in ("assign", "walrus", "unpack", "with") and s.value is not None:
                out |= _classify_arg(repo, f, fl, cfg, s.value, s.node, aparams, depth - 1)
            elif s.kind == "for" and s.value is not None:
                inner = _classify_arg(repo, f, fl, cfg, s.value, s.node, aparams, depth - 1)
                out |= {("SEQ:" + c[2:]) if c.startswith("P:") else c for c in inner}
            else:
                out.add("?")
        return out or {"?"}
    if isinstance(e, (ast.List, ast.Tuple)):
        out = set()
        for x in e.elts:
            out |= _classify_arg(repo, f, fl, cfg, x, at, aparams, depth - 1)
        return out or {"T"}
    if isinstance(e, (ast.ListComp, ast.GeneratorExp)):
        return _classify_arg(repo, f, fl, cfg, e.elt, at, aparams, depth - 1)
    if isinstance(e, ast.Subscript):
        inner = _classify_arg(repo, f, fl, cfg, e.value, at, aparams, depth - 1)
        return inner
    if isinstance(e, ast.Attribute):
        return _classify_arg(repo, f, fl, cfg, e.value, at, aparams, depth - 1)
    if isinstance(e, ast.IfExp):
        return _classify_arg(repo, f, fl, cfg, e.body, at, aparams, depth - 1) | _classify_arg(repo, f, fl, cfg, e.orelse, at, aparams, depth - 1)
    if isinstance(e, ast.BinOp):
        return _classify_arg(repo, f, fl, cfg, e.left, at, aparams, depth - 1) | _classify_arg(repo, f, fl, cfg, e.right, at, aparams, depth - 1)
    if isinstance(e, ast.Constant):
        return {"T"}
    return {"?"}


def _sinks(repo: Repo, f: Def):
    for c, ts in repo.calls_in(f):
        qs = {t.qual for t in ts if t.kind == "def"}
        if qs & GB:
            yield c, "gb"
        elif BW in qs:
            al = kwarg(c, "align_arrays")
            if al is not None and isinstance(al, ast.Constant) and al.value is False:
                yield c, "bw"
        elif qs & MB:
            yield c, "mb"


def _unaligned_origins(repo: Repo, f: Def, call: ast.Call, kind: str) -> tuple[set[str], list[str]]:
    fl, cfg = flow_of(repo, f), cfg_of(f)
    at = cfg.node_of(call)
    args = _array_args_of_sink(call, kind)
    classes: list[set[str]] = []
    for a in args:
        classes.append(_classify_arg(repo, f, fl, cfg, a, at, set()))
    ap = _array_like_params(repo, f)
    origins: set[str] = set()
    shown = []
    for cs in classes:
        keep = {c for c in cs if not c.startswith(("P:", "SEQ:")) or c.split(":", 1)[1] in ap}
        shown.append(",".join(sorted(keep)))
        for c in keep:
            if c.startswith(("P:", "SEQ:")):
                origins.add(c)
    return origins, shown


def _array_like_params(repo: Repo, f: Def, _depth: int = 0) -> set[str]:
    """parameters of f (or of an enclosing function) that are used as arrays: an array
    attribute is read from them, from their elements, or they are iterated as arrays"""
    out = set()
    for d in [x for x in f.scope_chain() if x.is_func]:
        ps = set(d.params)
        for n in d.own_nodes():
            if isinstance(n, ast.Attribute) and n.attr in (ARRAY_ATTRS | {"name", "_plan", "T", "mT"}):
                b = n.value
                while isinstance(b, (ast.Subscript, ast.Attribute)):
                    b = b.value
                if isinstance(b, ast.Name):
                    if b.id in ps:
                        out.add(b.id)
                    else:
                        fl = flow_of(repo, d)
                        if id(b) in fl.comp_bind:
                            it, _ = fl.comp_bind[id(b)]
                            for x in ast.walk(it):
                                if isinstance(x, ast.Name) and x.id in ps:
                                    out.add(x.id)
        if d.vararg and d.vararg in ("args", "arrays"):
            out.add(d.vararg)
        if _depth < 1:
            # a parameter handed on to a repo function that uses it as an array
            eff = effects_of(repo)
            for c, ts in repo.calls_in(d):
                for t in ts:
                    if t.kind == "def" and t.ref.is_func and t.ref is not d:
                        b = eff.bind(c, t.ref, d)
                        sub = None
                        for q, v in b.items():
                            if v[0] == "param" and v[1] in ps and v[1] not in out:
                                sub = sub if sub is not None else _array_like_params(repo, t.ref, _depth + 1)
                                if q in sub:
                                    out.add(v[1])
    return out


@rule("ALIGN-1", props=["C01", "C17"], floor=25)
def align(ctx: Ctx) -> None:
    """alignment taint: arrays that derive from two different array parameters (or from a
    sequence-of-arrays parameter) must not reach a shared-block-coordinate sink
    (general_blockwise with a coordinate-sharing key function, blockwise(align_arrays=False),
    map_blocks) unless they passed unify_chunks / broadcast_arrays"""
    repo = ctx.repo
    eff = effects_of(repo)
    pub = {d.qual for d in public_functions(repo).values()}
    # scope: everything reachable from the public array functions and Array methods
    from ..index import public_methods

    reach: dict[str, Def] = {}
    work = list(public_functions(repo).values()) + list(public_methods(repo).values())
    while work:
        d = work.pop()
        if d.qual in reach:
            continue
        reach[d.qual] = d
        for nn, ts, g, raw in eff.calls.get(d.qual, []):
            for t in ts:
                if t.kind == "def" and t.ref.is_func and t.qual not in reach:
                    work.append(t.ref)
        for ch in list(d.children.values()):
            if ch.is_func and ch.qual not in reach:
                work.append(ch)
    SINK_IMPL = {f"{A.OPS}.general_blockwise", f"{A.OPS}._general_blockwise", f"{A.OPS}.map_blocks", f"{A.OPS}._map_blocks", f"{A.OPS}.blockwise"}
    FORCE_HELPER = {"cubed.array_api.linalg.map_blocks_multiple_outputs"}
    out_of_scope = []
    n = 0
    flagged_helpers: dict[str, list] = {}
    for f in repo.functions():
        mq = f.module.qual
        if mq.startswith(("cubed.vendor.", "cubed.diagnostics.", "cubed.runtime.", "cubed.storage.", "cubed.primitive.")):
            continue
        if f.qual in SINK_IMPL:
            continue
        if f.qual not in reach:
            if any(True for _ in _sinks(repo, f)):
                out_of_scope.append(f.qual)
            continue
        for call, kind in _sinks(repo, f):
            args = _array_args_of_sink(call, kind)
            multi = len(args) >= 2 or any(isinstance(a, ast.Starred) for a in args)
            if not multi:
                continue
            if kind == "gb" and not _key_shares_coords(repo, f, call):
                continue
            n += 1
            origins, classes = _unaligned_origins(repo, f, call, kind)
            distinct = {o for o in origins}
            seq = {o for o in origins if o.startswith("SEQ:")}
            # a single array parameter (all operands derive from it) is one origin
            params = {o.split(":", 1)[1] for o in distinct}
            bad = bool(seq) or len(params) >= 2
            sel = "sink"
            if not bad:
                ctx.ob(f, call, True, f"operands of `{unparse(call.func)}` are unified / single-origin ({classes})", sel=f"{sel}:{unparse(call.func, 20)}:{call.lineno - f.lineno}", nontrivial=True)
                continue
            # a private helper may receive operands that its callers derived from one array
            if f.qual in FORCE_HELPER or (f.qual not in pub and (f.name.startswith("_") or f.parent is not None)):
                flagged_helpers.setdefault(f.qual, []).append((call, kind, params, classes))
                continue
            ctx.ob(
                f,
                call,
                False,
                f"`{unparse(call.func)}` reads blocks of several arrays at the same block coordinates, but its operands {classes} "
                f"come from {'a sequence parameter' if seq else 'different array parameters'} ({sorted(params)}) without unify_chunks/broadcast_arrays: "
                "differently chunked inputs give wrong values or fail inside a task",
                sel="sink",
            )
    # helpers: resolve through their callers (one or two levels)
    for hq, items in flagged_helpers.items():
        h = repo.get(hq)
        for call, kind, params, classes in items:
            ok, why = _callers_single_origin(repo, eff, h, params, depth=3, seen=set())
            ctx.ob(
                h,
                call,
                ok,
                f"helper {h.name}: operands {sorted(params)} of `{unparse(call.func)}` are single-origin/unified at every caller"
                + ("" if ok else f" — {why}"),
                sel="sink",
            )
    # after unification, chunk metadata must be read from the unified arrays: an alias taken
    # from the sequence *before* it was unified still has the old chunking
    CH = {"chunks", "chunksize", "numblocks", "npartitions", "chunkmem"}
    for f in reach.values():
        if f.module.qual.startswith(("cubed.vendor.", "cubed.runtime.", "cubed.storage.", "cubed.primitive.")):
            continue
        fl, cfg = flow_of(repo, f), cfg_of(f)
        uni = [(nid, s_) for nid, ss in fl.sites.items() for s_ in ss if s_.kind == "unpack" and isinstance(s_.value, ast.Call) and repo.callee_quals(s_.value, f) & _sanitizers(repo) and s_.index == (1,)]
        for unid, us in uni:
            seq = us.name
            for n_ in f.own_nodes():
                if not (isinstance(n_, ast.Attribute) and n_.attr in CH and isinstance(n_.value, ast.Name) and cfg.has(n_)):
                    continue
                at = cfg.node_of(n_)
                if not cfg.can_reach(unid, at) or at == unid or id(n_.value) in fl.comp_bind:
                    continue
                stale = False
                for s2 in fl.rdefs(n_.value.id, at):
                    if s2.kind == "assign" and s2.value is not None and isinstance(s2.value, ast.Subscript) and isinstance(s2.value.value, ast.Name) and s2.value.value.id == seq:
                        # alias = seq[i]; which definition of seq did it see?
                        seq_defs = fl.rdefs(seq, s2.node)
                        if seq_defs and all(d_.node != unid for d_ in seq_defs) and cfg.can_reach(s2.node, unid):
                            stale = True
                if stale:
                    ctx.ob(f, n_, False, f"`{unparse(n_)}` reads chunk metadata from `{n_.value.id}`, an element taken from `{seq}` before unify_chunks rebound it: the operation is declared with the old chunking while its inputs were rechunked", sel=f"stale-alias:{unparse(n_)}")
    # the sanitizer itself: ops.blockwise with align_arrays absent/true unifies chunks and uses
    # the unified arrays for everything that follows
    bw = repo.get(BW)
    bfl, bcfg = flow_of(repo, bw), cfg_of(bw)
    uc = repo.calls_to(bw, f"{A.OPS}.unify_chunks")
    ok = False
    if uc:
        un = bcfg.node_of(uc[0])
        under = any(pol and isinstance(t, ast.Name) and t.id == "align_arrays" for t, pol in facts_at(bcfg, un))
        st = bcfg.nodes[un].stmt
        # (chunks, unified arrays) = unify_chunks(*<all arguments>)
        rebinds = isinstance(st, ast.Assign) and isinstance(st.targets[0], ast.Tuple) and len(st.targets[0].elts) == 2 and isinstance(st.targets[0].elts[1], ast.Name)
        uvar = st.targets[0].elts[1].id if rebinds else None
        whole = bool(uc[0].args) and isinstance(uc[0].args[0], ast.Starred) and unparse(uc[0].args[0].value) == bw.vararg
        used = False
        for nn in bw.own_nodes():
            # the storage objects handed to the primitive are taken from the unified arrays
            if isinstance(nn, ast.ListComp) and isinstance(nn.elt, ast.Attribute) and nn.elt.attr == "_zarray" and isinstance(nn.generators[0].iter, ast.Name) and nn.generators[0].iter.id == uvar:
                sites = bfl.rdefs(uvar, bcfg.node_of(nn))
                used = any(s.node == un for s in sites)
        ok = under and rebinds and whole and used
    ctx.ob(bw, uc[0] if uc else None, ok, "blockwise(align_arrays=True) unifies the chunks of all operands and builds the operation from the unified arrays", sel="sanitizer:blockwise")
    # the unifier itself: an operand whose chunks differ from the unified chunks is rechunked;
    # it is passed through unchanged only when they are equal (or it has no index)
    uf = repo.get(f"{A.OPS}.unify_chunks")
    ufl, ucfg = flow_of(repo, uf), cfg_of(uf)
    n_app = 0
    for c in uf.own_nodes():
        if not (isinstance(c, ast.Call) and isinstance(c.func, ast.Attribute) and c.func.attr == "append" and len(c.args) == 1 and ucfg.has(c) and ucfg.nodes[ucfg.node_of(c)].loops):
            continue
        lp = ucfg.nodes[ucfg.nodes[ucfg.node_of(c)].loops[-1]].stmt
        if not isinstance(lp, ast.For):
            continue
        lvars = {x.id for x in ast.walk(lp.target) if isinstance(x, ast.Name)}
        arg = c.args[0]
        is_rechunk = isinstance(arg, ast.Call) and any(t.kind == "def" and t.ref.name == "rechunk" for t in repo.resolve_call(arg, uf, uf.module))
        is_pass = isinstance(arg, ast.Name) and arg.id in lvars
        if not (is_rechunk or is_pass):
            continue
        facts = [(t, pol) for t, pol, b in ucfg.branch_conditions(ucfg.node_of(c)) if ucfg.in_loop(b, ucfg.nodes[ucfg.node_of(c)].loops[-1])]

        def differs(t):
            return isinstance(t, ast.Compare) and len(t.ops) == 1 and isinstance(t.ops[0], (ast.NotEq, ast.Eq)) and any(isinstance(x, ast.Attribute) and x.attr == "chunks" and isinstance(x.value, ast.Name) and x.value.id in lvars for x in (t.left, t.comparators[0]))

        ok = False
        for t, pol in facts:
            for fact, fp in conjuncts(t, pol):
                if differs(fact):
                    ne = isinstance(fact.ops[0], ast.NotEq) == fp  # "chunks differ" holds here
                    if is_rechunk and ne:
                        ok = True
                    if is_pass and not ne:
                        ok = True
                if is_pass and isinstance(fact, ast.Compare) and isinstance(fact.ops[0], ast.Is) and fp and isinstance(fact.comparators[0], ast.Constant) and fact.comparators[0].value is None:
                    ok = True  # no index: not aligned at all
            # else-branch of `differs and <regular>`: the conjunction is false
            if is_pass and not pol and isinstance(t, ast.BoolOp) and isinstance(t.op, ast.And) and any(differs(v) and isinstance(v.ops[0], ast.NotEq) for v in t.values):
                ok = True
            # ... or the then-branch of `<equal> or <irregular>`
            if is_pass and pol and isinstance(t, ast.BoolOp) and isinstance(t.op, ast.Or) and any(differs(v) and isinstance(v.ops[0], ast.Eq) for v in t.values):
                ok = True
        if is_pass and not any(differs(f_) or (isinstance(t, ast.BoolOp) and any(differs(v) for v in t.values)) for t, pol in facts for f_, _ in conjuncts(t, pol)) and not ok:
            # pass-through that does not depend on the chunk comparison at all (e.g. the early
            # `ind is None` bookkeeping loop): not part of the alignment decision
            continue
        n_app += 1
        ctx.ob(
            uf,
            c,
            ok,
            f"unify_chunks: `{unparse(c, 50)}` — an operand is rechunked when its chunks differ from the unified chunks and passed through only when they agree"
            + ("" if ok else " — the condition is the other way round (or missing): differently chunked operands reach the block function unaligned"),
            sel=f"sanitizer:unify:{'rechunk' if is_rechunk else 'pass'}",
        )
    ctx.need(n_app >= 2, "unify_chunks: the rechunk / pass-through decision was not found")
    al = bw.node.args.kwonlyargs
    dflt = None
    for a_, d_ in zip(bw.node.args.kwonlyargs, bw.node.args.kw_defaults):
        if a_.arg == "align_arrays":
            dflt = d_
    ctx.ob(bw, None, isinstance(dflt, ast.Constant) and dflt.value is True, "align_arrays defaults to True", sel="sanitizer:default")
    ew = repo.get(f"{A.OPS}.elemwise")
    ews = repo.calls_to(ew, BW)
    ok = bool(ews) and all(kwarg(c, "align_arrays") is None or (isinstance(kwarg(c, "align_arrays"), ast.Constant) and kwarg(c, "align_arrays").value is True) for c in ews)
    ctx.ob(ew, ews[0] if ews else None, ok, "elemwise goes through the aligning blockwise", sel="sanitizer:elemwise")
    # coverage: public functions with several array operands and where their operands go
    seen_f = set()
    for name, f in sorted(public_functions(repo).items()):
        if f.qual in seen_f or f.qual in SINK_IMPL:
            continue
        seen_f.add(f.qual)
        ap = _array_like_params(repo, f)
        if len(ap) < 2 and not (f.positional_params and f.positional_params[0] in ("arrays",)):
            continue
        direct = [k for _, k in _sinks(repo, f)]
        ctx.ob(f, None, True, f"public function {name} has array operands {sorted(ap)}; unaligned sinks in its body: {direct or 'none (aligned blockwise/elemwise or single-origin helpers)'}", sel="coverage", nontrivial=True)
    if out_of_scope:
        ctx.note("multi-array sinks in functions not reachable from the public namespaces (not judged): " + ", ".join(sorted(set(out_of_scope))))
    ctx.need(n >= 5, f"only {n} multi-array sinks found")


def _callers_single_origin(repo: Repo, eff, h: Def, params: set[str], depth: int, seen: set) -> tuple[bool, str]:
    if depth <= 0 or h.qual in seen:
        return False, "caller chain too deep"
    seen = seen | {h.qual}
    callers = []
    for d, c, ts in repo.all_call_sites():
        if d is None or d.module.qual.startswith("cubed.vendor."):
            continue
        if any(t.kind == "def" and t.ref is h for t in ts):
            callers.append((d, c))
    if not callers:
        return False, "no library caller (public entry point with unaligned operands)"
    for d, c in callers:
        b = eff.bind(c, h, d)
        fl, cfg = flow_of(repo, d), cfg_of(d)
        at = cfg.node_of(c)
        exprs = []
        for p in params:
            v = b.get(p)
            if v is None:
                if h.vararg == p:
                    # *args: everything beyond the fixed positionals
                    exprs += list(c.args[len(h.positional_params):])
                    continue
                return False, f"{d.name} does not pass `{p}` explicitly"
            if v[0] == "param":
                exprs.append(ast.Name(id=v[1], ctx=ast.Load()))
                # synthetic name: classify via its param status
                continue
            if v[0] == "expr":
                exprs.append(v[1])
        origins = set()
        for e in exprs:
            if isinstance(e, ast.Name) and not hasattr(e, "lineno"):
                origins.add(f"P:{e.id}")
                continue
            for cl in _classify_arg(repo, d, fl, cfg, e, at, set()):
                if cl.startswith(("P:", "SEQ:")):
                    origins.add(cl)
        ap = _array_like_params(repo, d)
        origins = {o for o in origins if o.split(":", 1)[1] in ap}
        seqs = {o for o in origins if o.startswith("SEQ:")}
        ps = {o.split(":", 1)[1] for o in origins}
        if seqs or len(ps) >= 2:
            # recurse only if the caller is itself a helper
            if d.name.startswith("_") or d.parent is not None:
                ok, why = _callers_single_origin(repo, eff, d, ps, depth - 1, seen)
                if not ok:
                    return False, why
            else:
                return False, f"caller {d.qual} passes operands from {sorted(ps)}"
    return True, ""


@rule("KEYNAMES-1", props=["C01", "C15", "C17"], floor=10)
def keynames(ctx: Ctx) -> None:
    """every array a key function names in a ChunkKey is one of the arrays passed to the
    general_blockwise call that registers it (tasks look blocks up by name in reads_map)"""
    repo = ctx.repo
    n = 0
    for f in repo.functions():
        if f.module.qual.startswith(("cubed.vendor.", "cubed.primitive.")):
            continue
        for call, ts in repo.calls_in(f):
            if not ({t.qual for t in ts if t.kind == "def"} & GB) or len(call.args) < 3:
                continue
            ks = [t.ref for t in repo.resolve_value(call.args[1], f, f.module) if t.kind == "def" and t.ref.is_func]
            if not ks:
                continue
            fl, cfg = flow_of(repo, f), cfg_of(f)
            at = cfg.node_of(call)
            passed: set[str] = set()
            for a in call.args[2:]:
                e = a.value if isinstance(a, ast.Starred) else a
                passed |= _expand_vars(fl, e, at)
            for k in ks:
                # wrapper key functions that only forward to the wrapped key function
                kfl, kcfg = flow_of(repo, k), cfg_of(k)
                for c in [x for x in ast.walk(k.node) if isinstance(x, ast.Call) and CHUNKKEY in repo.callee_quals(x, k)]:
                    if not c.args:
                        continue
                    n += 1
                    owner = repo.enclosing_def(k.module, c) or k
                    ofl, ocfg = flow_of(repo, owner), cfg_of(owner)
                    e = c.args[0]
                    if isinstance(e, ast.Constant):
                        ctx.ob(k, c, False, f"ChunkKey with a literal array name {e.value!r}", sel=f"key:{unparse(e, 20)}")
                        continue
                    roots = ofl.roots(e, ocfg.node_of(c)) if ocfg.has(c) else {"unknown"}
                    used = _base_vars(roots)
                    # names taken from a name list built in the enclosing function
                    expanded = set()
                    for v in used:
                        # the key function may be built by a factory: a name list handed to the
                        # factory stands for what the registering function passed in that place
                        fac = k.parent if k.parent is not None and k.parent.is_func and k.parent is not f else None
                        if fac is not None and v in fac.params:
                            bound = None
                            for fc, fts in repo.calls_in(f):
                                if any(t.kind == "def" and t.ref is fac for t in fts):
                                    i_ = fac.positional_params.index(v) if v in fac.positional_params else -1
                                    bound = fc.args[i_] if 0 <= i_ < len(fc.args) else kwarg(fc, v)
                            if bound is not None:
                                if isinstance(bound, (ast.ListComp, ast.GeneratorExp)) and isinstance(bound.elt, ast.Attribute) and bound.elt.attr == "name" and isinstance(bound.generators[0].iter, ast.Name):
                                    expanded.add(bound.generators[0].iter.id)
                                elif isinstance(bound, ast.Name):
                                    expanded |= _expand_var_in(repo, f, fl, at, bound.id)
                                else:
                                    expanded |= {x.id for x in ast.walk(bound) if isinstance(x, ast.Name)}
                                continue
                        expanded |= _expand_var_in(repo, f, fl, at, v)
                    ok = bool(expanded) and expanded <= passed | {"self"} and (("self" not in expanded) or "self" in passed)
                    ctx.ob(
                        k,
                        c,
                        ok,
                        f"key function names `{unparse(e, 30)}` (from {sorted(expanded)}); the call passes {sorted(passed)}"
                        + ("" if ok else " — an array that is not an operand of the operation: KeyError on reads_map after execution started, or a read of the wrong array"),
                        sel=f"key:{unparse(e, 24)}",
                    )
    ctx.need(n >= 10, f"only {n} ChunkKey constructions in registered key functions")


def _expand_vars(fl, e: ast.AST, at: int) -> set[str]:
    """variables an array-argument expression stands for (expanding local tuple/list builds)."""
    out = set()
    if isinstance(e, ast.Name):
        out.add(e.id)
        for s in fl.rdefs(e.id, at):
            if s.kind == "assign" and s.value is not None and isinstance(s.value, (ast.BinOp, ast.Tuple, ast.List)):
                for n in ast.walk(s.value):
                    if isinstance(n, ast.Name):
                        out.add(n.id)
    elif isinstance(e, ast.Attribute):
        b = e
        while isinstance(b, ast.Attribute):
            b = b.value
        if isinstance(b, ast.Name):
            out.add(b.id)
    else:
        for n in ast.walk(e):
            if isinstance(n, ast.Name):
                out.add(n.id)
    return out


def _expand_var_in(repo: Repo, f: Def, fl, at: int, v: str) -> set[str]:
    """a name list `names = [a.name for a in arrays]` stands for `arrays`."""
    sites = [s for s in fl.rdefs(v, at)]
    out = set()
    for s in sites:
        if s.kind == "assign" and isinstance(s.value, (ast.ListComp, ast.GeneratorExp)) and isinstance(s.value.elt, ast.Attribute) and s.value.elt.attr == "name":
            it = s.value.generators[0].iter
            if isinstance(it, ast.Name):
                out.add(it.id)
                continue
        out.add(v)
    return out or {v}


@rule("BLOCKID-1", props=["C01", "C15"], floor=6)
def blockid(ctx: Ctx) -> None:
    """block ids travel through a virtual offsets array appended as the *last* operand; the
    wrapper reads and strips the last argument and converts it with the same block-count
    tuple the offsets array was built from; ravel / unravel are an inverse pair"""
    repo = ctx.repo
    OVA = f"{A.CREATION}.offsets_virtual_array"
    O2B = f"{A.UTILS}.offset_to_block_id"
    for q in (f"{A.OPS}.map_blocks", f"{A.OPS}.general_blockwise"):
        f = repo.get(q)
        fl, cfg = flow_of(repo, f), cfg_of(f)
        ov = repo.calls_to(f, OVA)
        ctx.need(len(ov) == 1, f"{q}: offsets_virtual_array call not found")
        c = ov[0]
        N = c.args[0]
        offs = None
        for nid, ss in fl.sites.items():
            for s in ss:
                if s.value is c:
                    offs = s.name
        ctx.need(offs and isinstance(N, ast.Name), f"{q}: offsets array not bound to a name")
        # (a) appended last
        ok = None
        for nid, ss in fl.sites.items():
            for s in ss:
                v = s.value
                if s.kind == "assign" and isinstance(v, ast.BinOp) and isinstance(v.op, ast.Add) and mentions_name(v, offs):
                    ok = isinstance(v.right, ast.Tuple) and len(v.right.elts) == 1 and isinstance(v.right.elts[0], ast.Name) and v.right.elts[0].id == offs and not mentions_name(v.left, offs)
        if ok is None:
            # args += (offsets,)
            for n_ in f.own_nodes():
                if isinstance(n_, ast.AugAssign) and isinstance(n_.op, ast.Add) and mentions_name(n_.value, offs):
                    v = n_.value
                    ok = isinstance(v, ast.Tuple) and len(v.elts) == 1 and isinstance(v.elts[0], ast.Name) and v.elts[0].id == offs
        if ok is None:
            # passed directly: g(fn, key_fn, *arrays, offsets, …) — last positional, after the
            # starred operands
            for call in f.own_nodes():
                if isinstance(call, ast.Call) and any(isinstance(a, ast.Name) and a.id == offs for a in call.args) and any(isinstance(a, ast.Starred) for a in call.args):
                    pos = [i for i, a in enumerate(call.args) if isinstance(a, ast.Name) and a.id == offs]
                    star = [i for i, a in enumerate(call.args) if isinstance(a, ast.Starred)]
                    ok = pos == [len(call.args) - 1] and max(star) < pos[0]
        ctx.need(ok is not None, f"{q}: how the offsets array joins the operands is not recognised")
        ctx.ob(f, c, ok, f"{f.name}: the offsets array is appended as the last operand", sel="blockid:appended-last")
        # (b)/(c) in the wrapper
        # the wrapper: a vararg function that converts an offset, returned by a factory that is
        # nested in f or a private module-level function f calls
        wraps = []
        for d_ in repo.defs.values():
            if d_.is_func and d_.vararg and d_.parent is not None and d_.parent.is_func and repo.calls_to(d_, O2B):
                fac = d_.parent
                if fac.parent is f:
                    wraps.append((d_, fac, None))
                elif fac.parent is None and fac.module is f.module and fac.name.startswith("_"):
                    for call_ in repo.calls_to(f, fac.qual):
                        wraps.append((d_, fac, call_))
        ctx.need(len(wraps) == 1, f"{q}: block-id wrapper not found")
        w, fac, fac_call = wraps[0]
        va = w.vararg
        conv = repo.calls_to(w, O2B)
        okb = bool(conv) and va is not None
        if okb:
            cv = conv[0]
            wfl, wcfg = flow_of(repo, w), cfg_of(w)
            a0 = cv.args[0]
            src = None
            if isinstance(a0, ast.Name):
                for s in wfl.rdefs(a0.id, wcfg.node_of(cv)):
                    src = s.value
            last = src is not None and f"{va}[-1]" in unparse(src)
            same_n = len(cv.args) == 2 and isinstance(cv.args[1], ast.Name) and cv.args[1].id == N.id
            if fac_call is not None:
                # the factory's parameter is bound to N at the call in f
                pos_ = fac.positional_params
                act_ = {pos_[i]: a for i, a in enumerate(fac_call.args) if i < len(pos_)}
                act_.update({k.arg: k.value for k in fac_call.keywords if k.arg})
                bound = act_.get(cv.args[1].id) if len(cv.args) == 2 and isinstance(cv.args[1], ast.Name) else None
                same_n = isinstance(bound, ast.Name) and bound.id == N.id
            ctx.ob(w, cv, last, "the wrapper reads the offset from the last positional argument", sel=f"blockid:{f.name}:reads-last")
            ctx.ob(w, cv, same_n, f"the offset is converted with the same block-count tuple (`{N.id}`) the offsets array was built from" + ("" if same_n else f" — found `{unparse(cv.args[1], 30) if len(cv.args) > 1 else '?'}`"), sel=f"blockid:{f.name}:same-numblocks")
            inner = [x for x in w.own_nodes() if isinstance(x, ast.Call) and isinstance(x.func, ast.Name) and x.func.id in fac.params]
            strip = bool(inner) and any(isinstance(a, ast.Starred) and unparse(a.value) == f"{va}[:-1]" for a in inner[0].args) and kwarg(inner[0], "block_id") is not None
            ctx.ob(w, inner[0] if inner else None, strip, "the user function receives all arguments but the last, plus block_id", sel=f"blockid:{f.name}:strips-last")
        else:
            ctx.ob(w, None, False, "block-id wrapper does not convert an offset", sel=f"blockid:{f.name}:reads-last")
        # N describes the grid the tasks run over
        if q.endswith("map_blocks"):
            okn = any(s.value is not None and unparse(s.value).endswith(".numblocks") for s in fl.rdefs(N.id, cfg.node_of(c)))
        else:
            okn = any(s.value is not None and "chunkss[0]" in unparse(s.value) and "numblocks" in unparse(s.value) for s in fl.rdefs(N.id, cfg.node_of(c)))
        ctx.ob(f, c, okn, f"{f.name}: the offsets array has the block grid of the operation's output/first operand", sel="blockid:grid")
    # key wrapper adds the offsets key at the same coordinates, last
    kw = repo.get(f"{A.OPS}.general_blockwise.back_key_function_with_offset.wrap")
    fa = [c for c in kw.own_nodes() if isinstance(c, ast.Call) and f"{A.PBW}.FunctionArgs" in repo.callee_quals(c, kw)]
    kfl_, kcfg_ = flow_of(repo, kw), cfg_of(kw)
    ck = [c for c in kw.own_nodes() if isinstance(c, ast.Call) and CHUNKKEY in repo.callee_quals(c, kw)]
    okey = kw.params[0] if kw.params else None
    wrapped = kw.parent.params[0] if kw.parent is not None and kw.parent.params else None
    ok = False
    if fa and ck and kcfg_.has(fa[0]):
        st = [a for a in fa[0].args if isinstance(a, ast.Starred)]
        if st and isinstance(st[0].value, ast.BinOp) and isinstance(st[0].value.op, ast.Add):
            left, right = st[0].value.left, st[0].value.right
            # left: the wrapped key function applied to this output key; right: (a tuple
            # holding) the offsets key
            l_ok = any(isinstance(c, ast.Call) and isinstance(c.func, ast.Name) and c.func.id == wrapped and c.args and isinstance(c.args[0], ast.Name) and c.args[0].id == okey for c in ast.walk(left))
            rv, _ = _val(kfl_, kcfg_, right, kcfg_.node_of(fa[0]))
            r_ok = any(c is ck[0] for c in ast.walk(rv))
            ok = l_ok and r_ok
    ctx.ob(kw, fa[0] if fa else None, ok, "the offsets key is appended after the wrapped key function's keys", sel="blockid:key-last")
    ok = bool(ck) and len(ck[0].args) == 2 and kcfg_.has(ck[0])
    if ok:
        cv, _ = _val(kfl_, kcfg_, ck[0].args[1], kcfg_.node_of(ck[0]))
        ok = isinstance(cv, ast.Attribute) and cv.attr == "coords" and isinstance(cv.value, ast.Name) and cv.value.id == okey
    ctx.ob(kw, ck[0] if ck else None, ok, "the offsets block is read at the output block's own coordinates", sel="blockid:key-coords")
    # inverse pair
    gi = repo.get(f"{A.ST_VIRTUAL}.VirtualOffsetsArray.__getitem__")
    ok1 = any(isinstance(c, ast.Call) and attr_chain(c.func) in ("np.ravel_multi_index", "numpy.ravel_multi_index") and len(c.args) == 2 and unparse(c.args[1]) == "self.shape" for c in ast.walk(gi.node))
    ob = repo.get(O2B)
    ok2 = any(isinstance(c, ast.Call) and attr_chain(c.func) in ("np.unravel_index", "numpy.unravel_index") and len(c.args) == 2 and unparse(c.args[0]) == ob.params[0] and unparse(c.args[1]) == ob.params[1] for c in ast.walk(ob.node))
    ctx.ob(gi, None, ok1 and ok2, "offsets are ravel_multi_index(block coords, grid) and decoded with unravel_index(offset, grid)", sel="blockid:inverse-pair")
    b2o = repo.get(f"{A.UTILS}.block_id_to_offset")
    ok3 = any(isinstance(c, ast.Call) and attr_chain(c.func) in ("np.ravel_multi_index", "numpy.ravel_multi_index") and unparse(c.args[0]) == b2o.params[0] and unparse(c.args[1]) == b2o.params[1] for c in ast.walk(b2o.node))
    ctx.ob(b2o, None, ok3, "block_id_to_offset is ravel_multi_index(block_id, numblocks)", sel="blockid:b2o", props=["C01", "C06"])


def _val(fl, cfg, e, at):
    """what a local name is bound to, when it has exactly one reaching plain assignment
    (otherwise the expression itself) — names are followed, never compared as text"""
    for _ in range(4):
        if not isinstance(e, ast.Name):
            return e, at
        ds = fl.rdefs(e.id, at)
        if len(ds) == 1 and ds[0].kind == "assign" and ds[0].value is not None:
            e, at = ds[0].value, ds[0].node
        else:
            return e, at
    return e, at


def _same_var(fl, a: ast.Name, at_a: int, b: ast.Name, at_b: int) -> bool:
    """two uses of one variable seeing the same definitions"""
    if not (isinstance(a, ast.Name) and isinstance(b, ast.Name)) or a.id != b.id:
        return False
    return {(d.node, d.kind) for d in fl.rdefs(a.id, at_a)} == {(d.node, d.kind) for d in fl.rdefs(b.id, at_b)}


@rule("PROXY-KEYS-1", props=["C15", "C01"], floor=8)
def proxy_keys(ctx: Ctx) -> None:
    """one name chain links result arrays, plan nodes, write proxies and — for consumers —
    input names, read proxies and source_array_names, in operand order"""
    repo = ctx.repo
    for q in (f"{A.OPS}.blockwise", f"{A.OPS}._general_blockwise"):
        f = repo.get(q)
        fl, cfg = flow_of(repo, f), cfg_of(f)
        prim = [p for p in f.own_nodes() if isinstance(p, ast.Call) and any(t.kind == "def" and t.ref.module.qual == A.PBW and t.ref.name in ("blockwise", "general_blockwise") for t in repo.resolve_call(p, f, f.module))]
        ctx.need(prim, f"{f.name}: call of the primitive not found")
        pat = cfg.node_of(prim[0])
        inn = kwarg(prim[0], "in_names")
        ctx.ob(f, prim[0], inn is not None, f"{f.name}: the primitive receives in_names", sel=f"names:{f.name}:passes-in-names")
        ok = False
        why = "the in_names argument is not a list of `.name` of the operand sequence"
        if inn is not None:
            lc, lat = _val(fl, cfg, inn, pat)
            ok = isinstance(lc, ast.ListComp) and isinstance(lc.elt, ast.Attribute) and lc.elt.attr == "name" and isinstance(lc.generators[0].iter, ast.Name) and not lc.generators[0].ifs and len(lc.generators) == 1
            why = f"in_names = `{unparse(lc, 50)}`"
            if ok:
                # storage objects taken from the same sequence (same variable, same
                # definitions), same order
                z_ok = False
                for n in f.own_nodes():
                    if isinstance(n, ast.ListComp) and isinstance(n.elt, ast.Attribute) and n.elt.attr == "_zarray" and cfg.has(n):
                        z_ok = len(n.generators) == 1 and not n.generators[0].ifs and _same_var(fl, n.generators[0].iter, cfg.node_of(n), lc.generators[0].iter, lat)
                ok = z_ok
                if not z_ok:
                    why = "storage objects are not taken from the same sequence in the same order"
        ctx.ob(f, prim[0], ok, f"{f.name}: input names and storage objects are listed from one sequence in one order" + ("" if ok else f" — {why}"), sel=f"names:{f.name}:in-order")
        # the result's name = target name(s) = plan node name
        new = repo.calls_to(f, A.PLAN_NEW)
        arr = repo.calls_to(f, f"{A.AOBJ}.Array")
        ok = bool(new and arr)
        if ok:
            tn = kwarg(prim[0], "target_name") or kwarg(prim[0], "target_names")
            n0 = new[0].args[0] if new[0].args else None
            ok = isinstance(n0, ast.Name) and tn is not None
        if ok:
            nat = cfg.node_of(new[0])
            # the plan-node name is generated by gensym (one name or one per output)
            gens = [d_.value for d_ in fl.rdefs(n0.id, nat)]
            ok = bool(gens) and all(v is not None and any(isinstance(c, ast.Call) and any(t.kind == "def" and t.ref.name == "gensym" for t in repo.resolve_call(c, f, f.module)) for c in ast.walk(v)) for v in gens)
            # target name(s): that variable, or a variable every definition of which is it / [it]
            def is_n0(e, at_):
                return isinstance(e, ast.Name) and _same_var(fl, e, at_, n0, nat) or (isinstance(e, ast.Name) and e.id == n0.id and {d_.node for d_ in fl.rdefs(e.id, at_)} <= {d_.node for d_ in fl.rdefs(n0.id, nat)})

            if isinstance(tn, ast.Name) and tn.id != n0.id:
                tds = fl.rdefs(tn.id, pat)
                ok = ok and bool(tds) and all(
                    d_.kind == "assign" and (is_n0(d_.value, d_.node) or (isinstance(d_.value, ast.List) and len(d_.value.elts) == 1 and is_n0(d_.value.elts[0], d_.node)))
                    for d_ in tds
                )
            else:
                ok = ok and is_n0(tn, pat)
            # every returned Array is named by it (directly, or element-wise through zip(name, ...))
            for a in arr:
                a0 = a.args[0] if a.args else None
                if isinstance(a0, ast.Name) and id(a0) in fl.comp_bind:
                    it, path = fl.comp_bind[id(a0)]
                    ok = ok and isinstance(it, ast.Call) and unparse(it.func) == "zip" and path == (0,) and bool(it.args) and isinstance(it.args[0], ast.Name) and it.args[0].id == n0.id
                else:
                    ok = ok and cfg.has(a) and is_n0(a0, cfg.node_of(a))
        ctx.ob(f, prim[0], ok, f"{f.name}: the generated name is used for the write proxy (target_name), the plan node and the returned Array alike", sel=f"names:{f.name}:result")
    g = repo.get(f"{A.PBW}.general_blockwise")
    fl, cfg = flow_of(repo, g), cfg_of(g)
    ctx.need("in_names" in g.params and "target_names" in g.params, "primitive general_blockwise lost its in_names/target_names parameters")
    # AN: the variable holding `in_names or <default names>`
    an = [s_ for ss in fl.sites.values() for s_ in ss if s_.kind == "assign" and isinstance(s_.value, ast.BoolOp) and isinstance(s_.value.op, ast.Or) and isinstance(s_.value.values[0], ast.Name) and s_.value.values[0].id == "in_names"]
    ctx.ob(g, an[0].value if an else None, len(an) == 1, "primitive: array_names are the caller's in_names", sel="names:primitive:array-names")
    AN = an[0].name if an else None
    am = [n for n in g.own_nodes() if isinstance(n, ast.DictComp) and isinstance(n.generators[0].iter, ast.Call) and unparse(n.generators[0].iter.func) == "zip"]
    ok = False
    for d in am:
        z = d.generators[0].iter
        ok = len(z.args) == 2 and isinstance(z.args[0], ast.Name) and z.args[0].id == AN and unparse(z.args[1]) == g.vararg and any(k.arg == "strict" and isinstance(k.value, ast.Constant) and k.value.value is True for k in z.keywords)
        # key = the name, value = the array (not swapped)
        tg = d.generators[0].target
        # (the value is the array, or the proxy built from it)
        ok = ok and isinstance(tg, ast.Tuple) and len(tg.elts) == 2 and all(isinstance(e_, ast.Name) for e_ in tg.elts) and unparse(d.key) == unparse(tg.elts[0]) and mentions_name(d.value, tg.elts[1].id) and not mentions_name(d.value, tg.elts[0].id)
    ctx.ob(g, am[0] if am else None, ok, "primitive: names are zipped strictly with the operand arrays, in order", sel="names:primitive:zip")
    po = repo.calls_to(g, f"{A.PTYPES}.PrimitiveOperation")
    san = kwarg(po[0], "source_array_names") if po else None
    ok = isinstance(san, ast.Name) and san.id == AN
    ctx.ob(g, po[0] if po else None, ok, "primitive: source_array_names are the same names that key the read proxies", sel="names:primitive:source-names")
    bs = repo.calls_to(g, f"{A.PBW}.BlockwiseSpec")
    R = bs[0].args[4] if bs and len(bs[0].args) >= 6 else None
    W = bs[0].args[5] if bs and len(bs[0].args) >= 6 else None
    wp = [n for n in g.own_nodes() if isinstance(n, ast.Assign) and isinstance(n.targets[0], ast.Subscript) and isinstance(n.targets[0].value, ast.Name) and isinstance(W, ast.Name) and n.targets[0].value.id == W.id]
    ctx.present(g, wp, "primitive: the stores that fill the write-proxy dict")
    ok = bool(wp)
    for w_ in wp:
        sl = w_.targets[0].slice
        ok = ok and isinstance(sl, ast.Subscript) and isinstance(sl.value, ast.Name) and sl.value.id == "target_names" and isinstance(sl.slice, ast.Name)
        if ok:
            ids = fl.rdefs(sl.slice.id, cfg.node_of(w_))
            ok = bool(ids) and all(x.kind == "for" and x.index == (0,) and isinstance(x.value, ast.Call) and unparse(x.value.func) == "enumerate" for x in ids)
    ctx.ob(g, wp[0] if wp else None, ok, "primitive: write proxies are keyed by target_names[i], i enumerating the outputs", sel="names:primitive:write-keys")
    ok = isinstance(R, ast.Name) and isinstance(W, ast.Name) and R.id != W.id
    if ok:
        rv, _ = _val(fl, cfg, R, cfg.node_of(bs[0]))
        # read proxies: {name: proxy(array)} over the items of the name→array map built above
        ok = isinstance(rv, ast.DictComp) and isinstance(rv.generators[0].iter, ast.Call) and isinstance(rv.generators[0].iter.func, ast.Attribute) and rv.generators[0].iter.func.attr == "items"
        if any(rv is d for d in am):
            # built directly over the strict zip of names and arrays (judged above)
            ok = True
        elif ok:
            mv, _ = _val(fl, cfg, rv.generators[0].iter.func.value, cfg.node_of(bs[0]))
            ok = any(mv is d for d in am)
            tg = rv.generators[0].target
            ok = ok and isinstance(tg, ast.Tuple) and unparse(rv.key) == unparse(tg.elts[0])
    ctx.ob(g, bs[0] if bs else None, ok, "primitive: the spec gets the read proxies (keyed by the operand names) and the write proxies in their positions", sel="names:primitive:spec")
    # index-notation key function uses the same names
    b = repo.get(f"{A.PBW}.blockwise")
    ok = any(isinstance(n, ast.Assign) and isinstance(n.value, ast.BoolOp) and isinstance(n.value.op, ast.Or) and isinstance(n.value.values[0], ast.Name) and n.value.values[0].id == "in_names" and "in_names" in b.params for n in b.own_nodes())
    ctx.ob(b, None, ok, "primitive blockwise: index-notation keys are generated under the caller's in_names", sel="names:blockwise:array-names")
    # a dictionary keyed by array name may hold only what is a property of the array itself
    # (block counts): the same array can be passed twice with different index patterns, so
    # anything positional (the index pattern) must travel positionally
    bfl, bcfg = flow_of(repo, b), cfg_of(b)
    ban = [s_ for ss in bfl.sites.values() for s_ in ss if s_.kind == "assign" and isinstance(s_.value, ast.BoolOp) and isinstance(s_.value.op, ast.Or) and isinstance(s_.value.values[0], ast.Name) and s_.value.values[0].id == "in_names"]
    BAN = ban[0].name if ban else None
    n_named = 0
    for lp in [x for x in bcfg.stmts(ast.For)]:
        it = lp.stmt.iter
        if not (isinstance(it, ast.Call) and unparse(it.func) == "zip" and any(isinstance(a, ast.Name) and a.id == BAN for a in it.args) and isinstance(lp.stmt.target, ast.Tuple)):
            continue
        pos = [i for i, a in enumerate(it.args) if isinstance(a, ast.Name) and a.id == BAN][0]
        tg = lp.stmt.target.elts
        if pos >= len(tg) or not isinstance(tg[pos], ast.Name):
            continue
        name_var = tg[pos].id
        # loop variables bound from the operand arrays, and what the loop derives from them
        arr_pos = [i for i, a in enumerate(it.args) if isinstance(a, ast.Name) and {d_.kind for d_ in bfl.rdefs(a.id, lp.id)} <= {"assign"} and any("[::2]" in unparse(d_.value) for d_ in bfl.rdefs(a.id, lp.id) if d_.value is not None)]
        derived = {tg[i].id for i in arr_pos if i < len(tg) and isinstance(tg[i], ast.Name)}
        changed = True
        while changed:
            changed = False
            for st in ast.walk(lp.stmt):
                if isinstance(st, ast.Assign) and isinstance(st.targets[0], ast.Name) and st.targets[0].id not in derived and any(isinstance(x, ast.Name) and x.id in derived for x in ast.walk(st.value)):
                    derived.add(st.targets[0].id)
                    changed = True
        for st in ast.walk(lp.stmt):
            if isinstance(st, ast.Assign) and isinstance(st.targets[0], ast.Subscript) and isinstance(st.targets[0].slice, ast.Name) and st.targets[0].slice.id == name_var:
                n_named += 1
                intrinsic = any(isinstance(x, ast.Name) and x.id in derived for x in ast.walk(st.value))
                ctx.ob(
                    b,
                    st,
                    intrinsic,
                    f"`{unparse(st, 50)}`: a table keyed by array name holds a property of the array"
                    + ("" if intrinsic else " — it holds a per-argument value (not derived from the array): when one array is passed twice with different index patterns the later entry overwrites the earlier one"),
                    sel=f"names:blockwise:by-name:{ctx.anon(b, st.targets[0].value, 20)}",
                )
    # the same obligation for tables built in one expression: {name: v for name, … in zip(names, …)}
    # and dict(zip(names, xs))
    arr_vars = {a_.id for lp_ in bcfg.stmts(ast.For) if isinstance(lp_.stmt.iter, ast.Call) for a_ in lp_.stmt.iter.args if isinstance(a_, ast.Name) and any(d_.value is not None and "[::2]" in unparse(d_.value) for d_ in bfl.rdefs(a_.id, lp_.id))}
    for n_ in b.own_nodes():
        if isinstance(n_, ast.DictComp) and isinstance(n_.generators[0].iter, ast.Call) and unparse(n_.generators[0].iter.func) == "zip" and any(isinstance(a, ast.Name) and a.id == BAN for a in n_.generators[0].iter.args):
            zargs_ = n_.generators[0].iter.args
            tg_ = n_.generators[0].target.elts if isinstance(n_.generators[0].target, ast.Tuple) else []
            arr_t = {tg_[i].id for i, a in enumerate(zargs_) if i < len(tg_) and isinstance(tg_[i], ast.Name) and isinstance(a, ast.Name) and a.id in arr_vars}
            n_named += 1
            intrinsic = any(isinstance(x, ast.Name) and x.id in arr_t for x in ast.walk(n_.value))
            ctx.ob(b, n_, intrinsic, f"`{unparse(n_, 50)}`: a table keyed by array name holds a property of the array" + ("" if intrinsic else " — it holds a per-argument value: a repeated array's later entry overwrites the earlier one"), sel="names:blockwise:by-name:dictcomp")
        if isinstance(n_, ast.Call) and isinstance(n_.func, ast.Name) and n_.func.id == "dict" and n_.args and isinstance(n_.args[0], ast.Call) and unparse(n_.args[0].func) == "zip" and any(isinstance(a, ast.Name) and a.id == BAN for a in n_.args[0].args):
            others = [a for a in n_.args[0].args if not (isinstance(a, ast.Name) and a.id == BAN)]
            n_named += 1
            intrinsic = bool(others) and all(isinstance(a, ast.Name) and a.id in arr_vars for a in others)
            ctx.ob(b, n_, intrinsic, f"`{unparse(n_, 50)}`: a table keyed by array name holds a property of the array" + ("" if intrinsic else " — it holds a per-argument value: a repeated array's later entry overwrites the earlier one"), sel="names:blockwise:by-name:dict-zip")
    ctx.need(n_named >= 1, "primitive blockwise: no table keyed by array name found (numblocks)")
    # index-notation key function: the coordinate map of an argument is bound by *position*
    # (the same array may appear twice with different index patterns, e.g. x 'ij' and x 'ji')
    mk = repo.get(f"{A.PBW}.make_blockwise_back_key_function")
    bk = repo.get(f"{A.PBW}.make_blockwise_back_key_function.back_key_function")
    kfl, kcfg = flow_of(repo, bk), cfg_of(bk)
    mfl = flow_of(repo, mk)
    # in the enclosing function: (coordinate maps, …) = _get_coord_mapping(…, <argument pairs>, …)
    cm_sites = [s_ for ss in mfl.sites.values() for s_ in ss if s_.kind == "unpack" and s_.index == (0,) and isinstance(s_.value, ast.Call) and any(t.kind == "def" and t.ref.name == "_get_coord_mapping" for t in repo.resolve_call(s_.value, mk, mk.module))]
    ctx.need(len(cm_sites) == 1, "coordinate-map plan (_get_coord_mapping) not found in make_blockwise_back_key_function")
    CMAPS = cm_sites[0].name
    PAIRS = {a.id for a in cm_sites[0].value.args if isinstance(a, ast.Name) and any(d_.value is not None and any(isinstance(c_, ast.Call) and (attr_chain(c_.func) or "").endswith("partition") for c_ in ast.walk(d_.value)) for d_ in mfl.rdefs(a.id, cm_sites[0].node))}
    ctx.need(PAIRS, "argument-pair list not found in make_blockwise_back_key_function")
    # Each argument's coordinate map must reach its use *positionally*: bound by a loop over
    # zip(<coordinate maps>, …, <argument pairs>) or by coord_maps[i] with i from enumerate.
    # Evidence of the opposite — a subscript of the coordinate maps (or of anything built from
    # them) by an array name — is the violation; where the map is then used (here or in a
    # private helper it is handed to) does not matter.
    zips = []
    bad_lookup = None
    for n_ in list(bk.own_nodes()) + list(mk.own_nodes()):
        if isinstance(n_, (ast.For, ast.comprehension)) and isinstance(n_.iter, ast.Call) and unparse(n_.iter.func) == "zip" and any(isinstance(a, ast.Name) and a.id == CMAPS for a in n_.iter.args):
            if any(isinstance(a, ast.Name) and a.id in PAIRS for a in n_.iter.args):
                zips.append(n_)
            else:
                # zip(names, coord_maps) → a name-keyed table in the making
                bad_lookup = n_.iter
        if isinstance(n_, ast.Call) and isinstance(n_.func, ast.Name) and n_.func.id == "dict" and n_.args and any(isinstance(x, ast.Name) and x.id == CMAPS for x in ast.walk(n_.args[0])):
            bad_lookup = n_
        if isinstance(n_, ast.Subscript) and isinstance(n_.value, ast.Name) and n_.value.id == CMAPS and not isinstance(n_.slice, (ast.Constant, ast.Slice)):
            idx = n_.slice
            enum_ok = isinstance(idx, ast.Name) and kcfg.has(n_) and any(x.kind == "for" and x.index == (0,) for x in kfl.rdefs(idx.id, kcfg.node_of(n_)))
            if not enum_ok:
                bad_lookup = n_
    # a dictionary comprehension over such a zip is a table keyed by one of its elements
    for dc in [x for x in list(bk.own_nodes()) + list(mk.own_nodes()) if isinstance(x, ast.DictComp)]:
        for g in dc.generators:
            if isinstance(g.iter, ast.Call) and unparse(g.iter.func) == "zip" and any(isinstance(a, ast.Name) and a.id == CMAPS for a in g.iter.args):
                bad_lookup = dc
                zips = [z for z in zips if z is not g]
    in_bk = [z for z in zips if any(z is x for x in bk.own_nodes())]
    if bad_lookup is not None and not in_bk:
        in_bk = [bad_lookup]
    uses = in_bk
    ok = bool(in_bk) and bad_lookup is None
    why = "coordinate-map use not found" if not in_bk else f"`{unparse(bad_lookup, 40)}`: plans looked up by array name collapse repeated arguments onto one plan"
    if not in_bk and bad_lookup is None:
        ctx.need(False, "blockwise key function: neither a positional zip over the coordinate maps nor a keyed lookup found (restructured; not followed)")
    ctx.ob(bk, bad_lookup if bad_lookup is not None else (uses[0] if uses else None), ok, "blockwise key function: each argument's coordinate map is taken positionally (zip with the argument list)" + ("" if ok else f" — {why}"), sel="names:positional-plan")
    fn = repo.get(f"{A.PBW}.make_blockwise_back_key_function_flattened.blockwise_fn_flattened")
    ck = [c for c in ast.walk(fn.node) if isinstance(c, ast.Call) and CHUNKKEY in repo.callee_quals(c, fn)]
    ok = bool(ck) and unparse(ck[0].args[0]).endswith("[0]") and unparse(ck[0].args[1]).endswith("[1:]")
    ctx.ob(fn, ck[0] if ck else None, ok, "flattened key function: ChunkKey(name, coords) = (key[0], key[1:])", sel="names:flattened")


ASSERT_GEOM = {"shape", "chunks", "numblocks", "chunksize", "ndim", "npartitions", "size"}

exception("ASSERT-1", f"{A.OPS}.blockwise:assert:len(_) > 0", "every library caller passes at least one array operand (checked as instances of this rule)")
exception("ASSERT-1", f"{A.OPS}._general_blockwise:assert:len(_) > 0", "every library caller passes at least one array operand (checked as instances of this rule)")


@rule("ASSERT-1", props=["C17"], floor=10)
def assert_rule(ctx: Ctx) -> None:
    """no internal assertion over operand geometry is reachable from user input: unsupported
    layouts must be refused with ValueError / TypeError / NotImplementedError / IndexError"""
    repo = ctx.repo
    n = 0
    for f in repo.functions():
        mq = f.module.qual
        if mq.startswith(("cubed.vendor.", "cubed.diagnostics.", "cubed.runtime.executors.")) or mq == "cubed._testing":
            continue
        for a in f.own_nodes():
            if isinstance(a, ast.Assert):
                n += 1
                t = a.test
                geom = {x.attr for x in ast.walk(t) if isinstance(x, ast.Attribute)} & ASSERT_GEOM
                lens = [x for x in ast.walk(t) if isinstance(x, ast.Call) and isinstance(x.func, ast.Name) and x.func.id == "len"]
                fl, cfg = flow_of(repo, f), cfg_of(f)
                len_of_param = False
                for l in lens:
                    rs = fl.roots(l.args[0], cfg.node_of(a)) if l.args else set()
                    # the length of an operand (sequence) itself, not of a list the function
                    # computed from the plan graph
                    if any(r.startswith("param:") or r.startswith("item(param:") for r in rs):
                        len_of_param = True
                narrowing = all(
                    (isinstance(x, ast.Call) and isinstance(x.func, ast.Name) and x.func.id in ("isinstance", "all", "callable"))
                    or (isinstance(x, ast.Compare) and isinstance(x.ops[0], (ast.Is, ast.IsNot)))
                    or (isinstance(x, ast.UnaryOp) and isinstance(x.op, ast.Not) and isinstance(x.operand, ast.Call) and isinstance(x.operand.func, ast.Name) and x.operand.func.id == "isinstance")
                    for x in [t]
                )
                bad = bool(geom) or (len_of_param and not narrowing)
                # graph-internal invariants: lengths of predecessor lists computed from the dag
                if not geom and lens and not len_of_param:
                    bad = False
                ctx.ob(
                    f,
                    a,
                    not bad,
                    f"`assert {unparse(t, 60)}`"
                    + (" is a narrowing / internal invariant" if not bad else f" tests operand geometry ({sorted(geom) or 'len of an operand sequence'}): user input can reach it as a bare AssertionError (and it vanishes under -O)"),
                    sel=f"assert:{ctx.anon(f, t, 60)}",
                )
            elif isinstance(a, ast.Raise) and a.exc is not None and "AssertionError" in unparse(a.exc):
                n += 1
                ctx.ob(f, a, False, "`raise AssertionError` reachable from user input", sel="raise-assertion")
    ctx.need(n >= 10, f"only {n} assertions found")
    # callers of the two `assert len(arrays) > 0` sites pass at least one array
    for q in (f"{A.OPS}.blockwise", f"{A.OPS}._general_blockwise", f"{A.OPS}.general_blockwise"):
        h = repo.get(q)
        for d, c, ts in repo.all_call_sites():
            if d is None or not any(t.kind == "def" and t.ref is h for t in ts):
                continue
            pos = c.args[2:]
            ok = len(pos) >= 1
            ctx.ob(d, c, ok, f"call of {h.name} passes at least one array operand", sel=f"assert:nonempty:{h.name}", nontrivial=False)


exception("ASSERT-1", "cubed.core.rechunk.multistage_regular_rechunking_plan:raise-assertion", "planner's internal-bug report after MAX_STAGES; no reaching input known (C14 out of scope)")


@rule("UNITS-1", props=["C01", "C15"], floor=15, tier="thorough")
def units_rule(ctx: Ctx) -> None:
    """dimension analysis of block/element index arithmetic: a block index is never added to,
    compared (ordered) with, or clamped by an element count or chunk size, never multiplied
    by a block count, never divided by a chunk size (only definite clashes of known units)"""
    from ..units import Units, E, B, C, R, seed_params

    repo = ctx.repo
    seed_params(repo)
    n_known = 0
    for d in repo.functions():
        mq = d.module.qual
        if mq.startswith(("cubed.vendor.", "cubed.diagnostics.", "cubed.runtime.", "cubed.storage.stores")):
            continue
        fl, cfg = flow_of(repo, d), cfg_of(d)
        from ..units import PARAM_SEEDS

        multi = {p: c for (q, p), c in PARAM_SEEDS.get(id(repo), {}).items() if q == d.qual and len(c) > 1}
        variants = [{}]
        for p_, cands in list(multi.items())[:2]:
            variants = [dict(v, **{p_: c_}) for v in variants for c_ in cands]
        known_here = 0
        all_clashes = []
        for choice in variants:
            u = Units(repo, d, fl, choice)
            k_here = 0
            for n in d.own_nodes():
                interesting = isinstance(n, ast.BinOp) or (isinstance(n, ast.Call) and isinstance(n.func, ast.Name) and n.func.id in ("min", "max")) or (isinstance(n, ast.Compare) and any(isinstance(o, (ast.Lt, ast.LtE, ast.Gt, ast.GtE)) for o in n.ops))
                if not interesting or not cfg.has(n):
                    continue
                try:
                    r_ = u.unit(n, cfg.node_of(n))
                except RecursionError:
                    continue
                if r_ in (E, B, C, R):
                    k_here += 1
            known_here = max(known_here, k_here)
            all_clashes += [(node, msg + (f" [with {choice}]" if choice else "")) for node, msg in u.clashes]
        n_known += known_here

        class _U:
            clashes = all_clashes

        u = _U()
        seen = set()
        for node, msg in u.clashes:
            if id(node) in seen:
                continue
            seen.add(id(node))
            if isinstance(node, ast.Compare) and all(isinstance(o, (ast.Eq, ast.NotEq)) for o in node.ops):
                continue  # "one element per block" equalities are legitimate
            ctx.ob(d, node, False, f"unit clash in `{unparse(node, 70)}`: {msg} (E = elements, B = block index/count, C = chunk size)", sel=f"units:{unparse(node, 50)}")
        if known_here and not [1 for node, _ in u.clashes if not (isinstance(node, ast.Compare) and all(isinstance(o, (ast.Eq, ast.NotEq)) for o in node.ops))]:
            ctx.ob(d, None, True, f"{known_here} index expressions with known units, no clash", sel="units:clean")
    ctx.need(n_known >= 40, f"only {n_known} expressions received a unit: seeds no longer match the code")


@rule("ACCUM-ORDER-1", props=["C01"], floor=2)
def accum_order(ctx: Ctx) -> None:
    """sibling agreement in the streaming reduction: every branch concatenates
    [accumulated result, newly reduced block] in that order (block order along the axis is
    what arg-reductions and non-commutative combines rely on)"""
    repo = ctx.repo
    f = repo.get(f"{A.OPS}._partial_reduce")
    fl, cfg = flow_of(repo, f), cfg_of(f)
    loops = [n for n in cfg.stmts(ast.For) if isinstance(n.stmt.iter, ast.Name) and n.stmt.iter.id == f.params[0]]
    ctx.need(len(loops) == 1, "_partial_reduce: loop over the block stream not found")
    L = loops[0]
    # accumulator: assigned inside the loop and initialised before it; new block: assigned in
    # the loop from a call that takes the loop variable
    lv = L.stmt.target.id
    acc = {s.name for nid, ss in fl.sites.items() for s in ss if s.kind == "assign" and cfg.in_loop(nid, L.id)} & {s.name for nid, ss in fl.sites.items() for s in ss if s.kind == "assign" and not cfg.nodes[nid].loops and cfg.dominates(nid, L.id)}
    new = {s.name for nid, ss in fl.sites.items() for s in ss if s.kind == "assign" and cfg.in_loop(nid, L.id) and s.value is not None and mentions_name(s.value, lv) and s.name not in acc and s.name != lv}
    ctx.need(acc and new, "_partial_reduce: accumulator / new-block variables not identified")
    cats = [c for c in f.own_nodes() if isinstance(c, ast.Call) and isinstance(c.func, ast.Attribute) and c.func.attr in ("concat", "concatenate") and c.args and isinstance(c.args[0], (ast.List, ast.Tuple)) and len(c.args[0].elts) == 2]
    ctx.need(cats, "_partial_reduce: no two-operand concatenation found")

    def side(e: ast.AST) -> str:
        names = {n.id for n in ast.walk(e) if isinstance(n, ast.Name)}
        # comprehension variables bound from the accumulator's items/keys count as accumulator
        for n in ast.walk(e):
            if isinstance(n, ast.Name) and id(n) in fl.comp_bind:
                it, _ = fl.comp_bind[id(n)]
                if any(isinstance(x, ast.Name) and x.id in acc for x in ast.walk(it)):
                    if not isinstance(e, ast.Subscript):
                        names |= acc
        if names & new and not names & acc:
            return "new"
        if names & acc and not names & new:
            return "acc"
        if names & acc and names & new:
            # result[k] vs reduced_chunk[k]: decide by the subscripted base
            b = e
            while isinstance(b, (ast.Subscript, ast.Attribute)):
                b = b.value
            if isinstance(b, ast.Name):
                return "acc" if b.id in acc else "new" if b.id in new else "?"
        return "?"

    for c in cats:
        a, b = c.args[0].elts
        sa_, sb_ = side(a), side(b)
        ok = sa_ == "acc" and sb_ == "new"
        ctx.ob(f, c, ok, f"`{unparse(c, 60)}` concatenates [accumulated, new] (found [{sa_}, {sb_}])" + ("" if ok else " — the sibling branch uses the opposite order: block order along the axis is reversed for this kind of intermediate"), sel=f"accum:{unparse(c.args[0], 40)}")


@rule("DIVZERO-1", props=["C17"], floor=2)
def divzero(ctx: Ctx) -> None:
    """a division / modulo by the length of a sequence is protected against the empty case
    (`or k`, `max(.., k)`, or a dominating emptiness test): otherwise a zero-dimensional or
    empty operand surfaces as an incidental ZeroDivisionError instead of an explicit refusal"""
    repo = ctx.repo
    n = 0
    for d in repo.functions():
        mq = d.module.qual
        if mq.startswith(("cubed.vendor.", "cubed.diagnostics.", "cubed.runtime.executors.")):
            continue
        for b in d.own_nodes():
            if not (isinstance(b, ast.BinOp) and isinstance(b.op, (ast.Div, ast.FloorDiv, ast.Mod))):
                continue
            if isinstance(b.left, (ast.Constant, ast.JoinedStr)) and isinstance(getattr(b.left, "value", None), str):
                continue  # string formatting
            lens = [x for x in ast.walk(b.right) if isinstance(x, ast.Call) and isinstance(x.func, ast.Name) and x.func.id == "len"]
            if not lens:
                continue
            n += 1
            r = b.right
            safe = False
            why = ""
            if isinstance(r, ast.BoolOp) and isinstance(r.op, ast.Or) and isinstance(r.values[-1], ast.Constant) and r.values[-1].value:
                safe = True
            if isinstance(r, ast.Call) and isinstance(r.func, ast.Name) and r.func.id == "max" and any(isinstance(a, ast.Constant) and isinstance(a.value, (int, float)) and a.value >= 1 for a in r.args):
                safe = True
            if not safe:
                cfg = cfg_of(d)
                if cfg.has(b):
                    at = cfg.node_of(b)
                    for t, pol in facts_at(cfg, at):
                        txt = unparse(t, 200)
                        if "len(" in txt and ("== 0" in txt or "> 0" in txt or ">= 1" in txt or "!= 0" in txt):
                            safe = True
                        if isinstance(t, ast.UnaryOp) or (isinstance(t, ast.Name)):
                            pass
                    # an early `return`/`raise` on emptiness that dominates the division
                    for bn in cfg.stmts(ast.If):
                        if cfg.dominates(bn.id, at) and "len(" in unparse(bn.stmt.test, 200) and "== 0" in unparse(bn.stmt.test, 200):
                            safe = True
            ctx.ob(d, b, safe, f"`{unparse(b, 60)}` divides by a length" + (" that is protected against zero" if safe else ": nothing excludes the empty case — ZeroDivisionError for an empty/0-d operand instead of an explicit error"), sel=f"div:{unparse(b.right, 40)}")
    ctx.need(n >= 2, f"only {n} divisions by a length found")
    # --- task-time division by a user-supplied number -------------------------------------
    # A public function that hands one of its own parameters to code that runs inside tasks
    # (a nested key function, or a block function registered with general_blockwise /
    # map_blocks by keyword) where it is a divisor must exclude zero while the expression is
    # built; otherwise the request is accepted and dies after execution has started.
    pub = {f.qual: f for f in public_functions(repo).values()}
    m = 0
    for P in pub.values():
        if P.module.qual.startswith(("cubed.vendor.", "cubed.diagnostics.")):
            continue
        divisors: dict[str, list[tuple[Def, ast.AST]]] = {}
        # (a) closures defined in P
        for child in P.children.values():
            if not child.is_func:
                continue
            for b in child.own_nodes():
                if isinstance(b, (ast.BinOp, ast.AugAssign)) and isinstance(b.op, (ast.Div, ast.FloorDiv, ast.Mod)):
                    r = b.right if isinstance(b, ast.BinOp) else b.value
                    if isinstance(r, ast.Name) and r.id in P.params and r.id not in child.params:
                        divisors.setdefault(r.id, []).append((child, b))
        # (b) block functions that receive the parameter by keyword at a registering call
        for c in P.own_nodes():
            if not (isinstance(c, ast.Call) and c.args and c.keywords):
                continue
            ts = repo.resolve_call(c, P, P.module)
            if not any(t.kind == "def" and t.ref.name in ("general_blockwise", "map_blocks", "blockwise", "map_selection", "map_overlap") for t in ts):
                continue
            funcs = [t.ref for a in c.args[:1] for t in repo.resolve_value(a, P, P.module) if t.kind == "def" and t.ref.is_func]
            for k in c.keywords:
                if k.arg is None or not (isinstance(k.value, ast.Name) and k.value.id in P.params):
                    continue
                for F in funcs:
                    if k.arg not in F.params:
                        continue
                    for b in F.own_nodes():
                        if isinstance(b, (ast.BinOp, ast.AugAssign)) and isinstance(b.op, (ast.Div, ast.FloorDiv, ast.Mod)):
                            r = b.right if isinstance(b, ast.BinOp) else b.value
                            if isinstance(r, ast.Name) and r.id == k.arg:
                                divisors.setdefault(k.value.id, []).append((F, b))
        if not divisors:
            continue
        pcfg = cfg_of(P)
        for prm, sites in sorted(divisors.items()):
            m += 1
            # a build-time guard: an `if` on the parameter's value (compared with a number)
            # whose branch raises, or a normalisation max(param, k>=1)
            guarded = False
            for bn in pcfg.stmts(ast.If):
                t = bn.stmt.test
                cmp_ = [x for x in ast.walk(t) if isinstance(x, ast.Compare) and isinstance(x.left, ast.Name) and x.left.id == prm and any(isinstance(cc, ast.Constant) and isinstance(cc.value, (int, float)) and not isinstance(cc.value, bool) for cc in x.comparators)]
                if cmp_ and any(isinstance(x, ast.Raise) for st_ in bn.stmt.body + bn.stmt.orelse for x in ast.walk(st_)):
                    guarded = True
            for a_ in P.own_nodes():
                if isinstance(a_, ast.Assign) and isinstance(a_.targets[0], ast.Name) and a_.targets[0].id == prm and isinstance(a_.value, ast.Call) and isinstance(a_.value.func, ast.Name) and a_.value.func.id == "max" and any(isinstance(x, ast.Constant) and isinstance(x.value, (int, float)) and x.value >= 1 for x in a_.value.args):
                    guarded = True
            F, b = sites[0]
            ctx.ob(
                P,
                b,
                guarded,
                f"`{P.name}` passes its parameter `{prm}` to task-time code that divides by it (`{unparse(b, 40)}` in {F.name})"
                + (": its value is checked while the expression is built" if guarded else f": nothing excludes `{prm}` = 0 at build time — the request is accepted, planned, and fails inside a task with ZeroDivisionError"),
                sel=f"div-param:{prm}",
                loc=f"{F.module.relpath}:{getattr(b, 'lineno', F.lineno)}",
            )
    ctx.note(f"DIVZERO-1: {m} public parameter(s) used as task-time divisors")


ROLE_PAIRS = [("before", "after"), ("after", "before")]


@rule("TWIN-ROLE-1", props=["C01"], floor=1)
def twin_role(ctx: Ctx) -> None:
    """role consistency of twin branches: a branch taken for the `after` side of a
    (before, after) pair does not use the `before` member of another pair bound alongside it
    (and vice versa) — the classic copy-paste slip between two near-identical branches"""
    repo = ctx.repo
    n = 0
    seen_br: set = set()
    for d in repo.functions():
        if d.module.qual.startswith(("cubed.vendor.", "cubed.diagnostics.")):
            continue
        names = {x.id for x in d.own_nodes() if isinstance(x, ast.Name)}

        def swap(nm: str, a: str, b: str) -> str | None:
            """the twin of a name: its `a` token replaced by `b` (pad_before → pad_after)"""
            toks = nm.split("_")
            if toks.count(a) != 1:
                return None
            return "_".join(b if t == a else t for t in toks)

        for role, other in ROLE_PAIRS:
            mine_all = {nm for nm in names if swap(nm, role, other) in names}
            if len(mine_all) < 2:
                continue
            theirs_all = {swap(nm, role, other) for nm in mine_all}
            for br in [x for x in d.own_nodes() if isinstance(x, ast.If)]:
                tn = {x.id for x in ast.walk(br.test) if isinstance(x, ast.Name)}
                mine = tn & mine_all
                theirs = tn & theirs_all
                if not mine or theirs:
                    continue
                n += 1
                seen_br.add((d.qual, id(br)))
                wrong = sorted({x.id for st in br.body for x in ast.walk(st) if isinstance(x, ast.Name) and isinstance(x.ctx, ast.Load) and x.id in theirs_all})
                ctx.ob(
                    d,
                    br,
                    not wrong,
                    f"branch on `{unparse(br.test, 40)}` handles the `{role}` side"
                    + ("" if not wrong else f" but uses {wrong}: its twin branch uses the `{other}` members — the `{role}` side gets the `{other}` side's value"),
                    sel=f"twin:{role}:{ctx.anon(d, br.test, 30)}",
                )
        # structural discovery, independent of names: two or more pairs unpacked side by side
        # — `for …, ((a0, a1), (b0, b1)) in …` — bind {a0, b0} to the first role and {a1, b1}
        # to the second
        for tgt in [x.target for x in d.own_nodes() if isinstance(x, (ast.For, ast.comprehension))] + [x.targets[0] for x in d.own_nodes() if isinstance(x, ast.Assign)]:
            pairs = [t for t in ast.walk(tgt) if isinstance(t, ast.Tuple) and len(t.elts) == 2 and all(isinstance(e, ast.Name) for e in t.elts)]
            groups = [t for t in ast.walk(tgt) if isinstance(t, ast.Tuple) and sum(1 for e in t.elts if any(e is p_ for p_ in pairs)) >= 2]
            for gp in groups:
                ps = [e for e in gp.elts if any(e is p_ for p_ in pairs)]
                roles = ({e.elts[0].id for e in ps}, {e.elts[1].id for e in ps})
                for k in (0, 1):
                    mine_all, theirs_all = roles[k], roles[1 - k]
                    for br in [x for x in d.own_nodes() if isinstance(x, ast.If)]:
                        tn = {x.id for x in ast.walk(br.test) if isinstance(x, ast.Name)}
                        if not (tn & mine_all) or (tn & theirs_all):
                            continue
                        sel = f"twin:{'first' if k == 0 else 'second'}:{ctx.anon(d, br.test, 30)}"
                        if (d.qual, id(br)) in seen_br:
                            continue
                        seen_br.add((d.qual, id(br)))
                        n += 1
                        wrong = sorted({x.id for st in br.body for x in ast.walk(st) if isinstance(x, ast.Name) and isinstance(x.ctx, ast.Load) and x.id in theirs_all})
                        ctx.ob(
                            d,
                            br,
                            not wrong,
                            f"branch on `{unparse(br.test, 40)}` handles the {'first' if k == 0 else 'second'} member of the pairs unpacked together"
                            + ("" if not wrong else f" but uses {wrong}, the other member of a sibling pair: one side gets the other side's value"),
                            sel=sel,
                        )
    ctx.need(n >= 1, "no twin (before/after) branches found")
