"""Rule modules register themselves with sa.runner.rule on import."""

from . import admit, lazy, runtime, executors, resume, ownership, spec, fusion, memory, task, align, rechunk, hoist  # noqa: F401
