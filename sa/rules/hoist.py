"""C17: refusals that are knowable while the expression is built live in the builder.

HOIST-1: a `raise` (or `assert`) in code that runs inside tasks — a registered block / key /
selection / combine function, or a function nested in the builder that registers it — whose
guarding conditions read *only* values fixed when the operation was built (closure variables of
the builder, parameters bound by keyword at every registering call) and nothing of the block
the task works on, is a request the builder could have refused before anything ran.  The
property demands exactly that: unsupported requests are refused up front, not by a task
failing (after retries) in the middle of a computation that has already written to storage.
"""

from __future__ import annotations

import ast

from ..astutil import unparse
from ..cfg import cfg_of
from ..flow import flow_of
from ..index import Def
from ..runner import Ctx, exception, rule
from .runtime import facts_at
from .task import REGISTRARS, registered_functions

# names injected per task by the runtime, whatever the way they are bound
TASK_TIME_NAMES = {"block_id", "block_info", "out_key", "in_keys"}


def _registering_sites(repo):
    """(caller, call, {id(function def) registered there}) for every registrar call, computed once"""
    out = []
    for caller, c, ts in repo.all_call_sites():
        if caller is None or not any(t.kind == "def" and t.qual in REGISTRARS for t in ts):
            continue
        vals = list(c.args) + [k.value for k in c.keywords if k.arg is not None]
        regd = set()
        for v in vals:
            if isinstance(v, ast.Starred):
                continue
            for t in repo.resolve_value(v, caller, caller.module):
                if t.kind == "def" and t.ref.is_func:
                    regd.add(t.qual)
        out.append((caller, c, regd))
    return out


def _config_params(sites, d: Def) -> set[str] | None:
    """parameters of block function `d` that every registering call site binds by keyword (a
    value fixed at build time and sent unchanged to every task); None if `d` is registered
    nowhere by name"""
    n = 0
    by_kw: dict[str, int] = {}
    for caller, c, regd in sites:
        if d.qual not in regd:
            continue
        n += 1
        for k in c.keywords:
            if k.arg is not None and k.arg in d.params:
                by_kw[k.arg] = by_kw.get(k.arg, 0) + 1
    if not n:
        return None
    return {p for p, m in by_kw.items() if m == n} - TASK_TIME_NAMES


@rule("HOIST-1", props=["C17"], floor=4)
def hoist(ctx: Ctx) -> None:
    """every raise / assert in a registered block function (or a function nested in a builder)
    is guarded by something the task's own block decides; a refusal decided by build-time
    values alone belongs in the builder"""
    repo = ctx.repo
    reg = registered_functions(repo)
    sites = _registering_sites(repo)
    judged = 0
    for q, (d, role) in sorted(reg.items()):
        if d.module.qual.startswith("cubed.vendor."):
            continue
        nested = d.parent is not None and d.parent.is_func
        cfgp = _config_params(sites, d)
        if cfgp is None:
            cfgp = set()
        # parameters with a default value (and keyword-only ones) are options in this code
        # base: blocks arrive positionally without default (confirmed by reading the 87
        # registered signatures; the runtime's own per-task names are excluded)
        a_ = d.node.args if isinstance(d.node, (ast.FunctionDef, ast.AsyncFunctionDef)) else None
        if a_ is not None:
            pos_ = [x.arg for x in a_.posonlyargs + a_.args]
            cfgp |= set(pos_[len(pos_) - len(a_.defaults):] if a_.defaults else []) | {x.arg for x in a_.kwonlyargs}
            cfgp -= TASK_TIME_NAMES
        positional = [p for p in d.params if p not in cfgp]
        fl, cfg = flow_of(repo, d), cfg_of(d)
        for n in cfg.stmts((ast.Raise, ast.Assert)):
            st = n.stmt
            facts = facts_at(cfg, n.id)
            tests = [t for t, _ in facts] + ([st.test] if isinstance(st, ast.Assert) else [])
            # a bare re-raise inside an except handler, or a raise under a handler, reports
            # what happened in the task: not a refusal
            if isinstance(st, ast.Raise) and st.exc is None:
                continue
            if not tests:
                continue
            judged += 1
            taint: set[str] = set()
            opaque = False
            for t in tests:
                tt = fl.taint(t, n.id)
                if "?" in tt:
                    opaque = True
                taint |= tt
                # a call of something that is not a pure function of its arguments (a method
                # of a block, a numpy reduction of the data) is covered by taint of its
                # arguments; names the test reads that are neither parameters nor closure
                # variables (module globals, builtins) carry no information either way
            data = {x for x in taint if x in positional or x in TASK_TIME_NAMES or x == d.vararg or x == d.kwarg}
            plan = {x for x in taint if x.startswith("free:") or x in cfgp}
            ok = bool(data) or opaque or not plan
            what = "assert" if isinstance(st, ast.Assert) else "raise"
            conds = " and ".join(f"{'' if pol else 'not '}({unparse(t, 40)})" for t, pol in facts) or unparse(st.test, 40) if isinstance(st, ast.Assert) or facts else "?"
            ctx.ob(
                d,
                st,
                ok,
                f"`{what}` at task time under [{conds}] depends on the block being processed"
                + (
                    ""
                    if ok
                    else f" — it reads only {sorted(x[5:] if x.startswith('free:') else x for x in plan)}, fixed when {role.rsplit('.', 1)[-1]} built the operation: the request is accepted, planned and started, and the refusal arrives from inside a task"
                ),
                sel=f"hoist:{what}:{ctx.anon(d, st.exc.func if isinstance(st, ast.Raise) and isinstance(st.exc, ast.Call) else (st.test if isinstance(st, ast.Assert) else st), 40)}",
                firm=True,
            )
            _ = nested
    ctx.note(f"HOIST-1: {len(reg)} registered task-time functions, {judged} guarded raise/assert statements judged")
