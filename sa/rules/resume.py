"""C09 resume decision logic; CREATE-MODE-1 / ZARR-CONFIG-1 (C06, C09); COPY-MUT-1 (C02, C09, C10)."""

from __future__ import annotations

import ast

from .. import anchors as A
from ..astutil import kwarg, mentions_attr, mentions_name, subscript_keys, unparse
from ..cfg import cfg_of, is_falsy_return, is_raise
from ..effects import STORE_DELETE, effects_of, fmt_effect
from ..flow import flow_of
from ..index import Def, Repo, attr_chain, walk_own
from ..runner import Ctx, rule
from .runtime import conjuncts, facts_at

ALREADY = f"{A.PLAN}.already_computed"
SKIP_NODE_Q = f"{A.RT_PIPE}.skip_node"


def _edge_facts(cfg, src: int, dst: int):
    """facts known when control goes src -> dst: the dominating branch conditions of src plus,
    if src is itself a branch, the polarity of the edge taken"""
    facts = list(facts_at(cfg, src))
    n = cfg.nodes[src]
    if n.kind in ("if", "while"):
        for s_, lab in n.succ:
            if s_ == dst and lab in ("true", "false", "body", "exit"):
                facts += conjuncts(n.stmt.test, lab in ("true", "body"))
    return facts


def _is_complete_fact(t: ast.AST, pol: bool) -> bool:
    if not (isinstance(t, ast.Compare) and len(t.ops) == 1):
        return False
    la, ra = attr_chain(t.left) or "", attr_chain(t.comparators[0]) or ""
    if {la.rsplit(".", 1)[-1], ra.rsplit(".", 1)[-1]} != {"nchunks_initialized", "nchunks"} or la.rsplit(".", 1)[0] != ra.rsplit(".", 1)[0]:
        return False
    op = t.ops[0]
    if isinstance(op, ast.Eq):
        return pol
    if isinstance(op, ast.NotEq):
        return not pol
    # initialised < total (false) / total > initialised (false) also establish equality
    if isinstance(op, ast.Lt) and la.endswith("nchunks_initialized"):
        return not pol
    if isinstance(op, ast.Gt) and ra.endswith("nchunks_initialized"):
        return not pol
    return False


def _is_nonzero_dim_fact(t: ast.AST, pol: bool) -> bool:
    if not (isinstance(t, ast.Compare) and len(t.ops) == 1 and mentions_attr(t, "ndim")):
        return False
    c = t.comparators[0]
    if not (isinstance(c, ast.Constant) and c.value == 0):
        return False
    op = t.ops[0]
    return (isinstance(op, ast.Eq) and not pol) or (isinstance(op, (ast.NotEq, ast.Gt)) and pol)


@rule("RESUME-ALL-1", props=["C09", "C10", "C07"], floor=5)
def resume_all(ctx: Ctx) -> None:
    """already_computed says "computed" only after *all* outputs were found complete; an output
    counts as complete only if nchunks_initialized == nchunks and it is not zero-dimensional;
    a missing array, the create-arrays node and storage that cannot report completeness are
    never trusted"""
    repo = ctx.repo
    f = repo.get(ALREADY)
    cfg = cfg_of(f)
    fl = flow_of(repo, f)
    pipe_names = {s.name for ss in fl.sites.values() for s in ss if s.value is not None and "pipeline" in subscript_keys(s.value)}

    def succ_derived(e: ast.AST, at: int, depth: int = 3, _f=None, _fl=None, _name=None) -> bool:
        """expression ranges over all successors of the node under test (possibly computed by
        a private helper that is given the node's name)"""
        F, FL, NAME = _f or f, _fl or fl, _name or f.params[0]
        for c in ast.walk(e):
            if isinstance(c, ast.Call) and isinstance(c.func, ast.Attribute) and c.func.attr == "successors" and len(c.args) == 1 and isinstance(c.args[0], ast.Name) and c.args[0].id == NAME:
                return not any(isinstance(x, ast.Subscript) and isinstance(x.slice, ast.Slice) for x in ast.walk(e))
        if depth > 0:
            for nm in [x for x in ast.walk(e) if isinstance(x, ast.Name)]:
                for s in FL.rdefs(nm.id, at):
                    if s.kind == "assign" and s.value is not None and not isinstance(s.value, ast.Call) or (s.kind == "assign" and isinstance(s.value, ast.Call) and isinstance(s.value.func, ast.Name) and s.value.func.id in ("list", "tuple")):
                        v = s.value
                        # filters may only drop outputs without a target
                        if isinstance(v, (ast.ListComp, ast.GeneratorExp)):
                            if not all(("is not None" in unparse(c_)) for g in v.generators for c_ in g.ifs):
                                continue
                        if succ_derived(v, s.node, depth - 1, F, FL, NAME):
                            return True
                    elif s.kind == "assign" and isinstance(s.value, ast.Call):
                        # a private helper: every return of it must range over the successors of
                        # the parameter that receives the node's name
                        for t in repo.resolve_call(s.value, F, F.module):
                            if t.kind == "def" and t.ref.is_func and t.ref.module is F.module and t.ref is not F:
                                h = t.ref
                                pos = [i for i, a in enumerate(s.value.args) if isinstance(a, ast.Name) and a.id == NAME]
                                if not pos or pos[0] >= len(h.positional_params):
                                    continue
                                hname = h.positional_params[pos[0]]
                                hcfg_, hfl_ = cfg_of(h), flow_of(repo, h)
                                rets_ = [r for r in hcfg_.returns() if r.stmt.value is not None]
                                if rets_ and all(
                                    succ_derived(r.stmt.value, r.id, depth - 1, h, hfl_, hname)
                                    and all(
                                        "is not None" in unparse(c_)
                                        for x in ast.walk(r.stmt.value)
                                        if isinstance(x, (ast.ListComp, ast.GeneratorExp))
                                        for g in x.generators
                                        for c_ in g.ifs
                                    )
                                    for r in rets_
                                ):
                                    return True
        return False

    # ---- the for-all shape ------------------------------------------------------------
    scans = [n for n in cfg.stmts(ast.For) if not n.loops and succ_derived(n.stmt.iter, n.id)]
    sliced = [n for n in cfg.stmts(ast.For) if not n.loops and "successors" in unparse(n.stmt.iter) and n not in scans]
    H = f  # function holding the per-output test
    hcfg, hfl = cfg, fl
    computed_edges: list[tuple[int, int]] = []  # (src, dst) edges on which an output is accepted as complete
    S = None
    if len(scans) == 1:
        S = scans[0]
        ctx.ob(f, S.stmt, True, "the scan iterates all of dag.successors(<node>)", sel="all:scan-loop")
        for r in cfg.returns():
            if is_falsy_return(r):
                continue
            facts = facts_at(cfg, r.id)
            if any(pol and isinstance(t, ast.Compare) and isinstance(t.ops[0], ast.Is) and ((isinstance(t.left, ast.Name) and t.left.id in pipe_names) or (not isinstance(t.left, ast.Name) and "pipeline" in subscript_keys(t.left))) for t, pol in facts):
                ctx.ob(f, r.stmt, True, "truthy return for a node without pipeline (nothing to compute)", sel="all:return-no-pipeline", nontrivial=False)
                continue
            inside = cfg.in_loop(r.id, S.id)
            after = bool(cfg.edge_targets(S.id, "exit")) and all(cfg.all_paths_pass(cfg.entry, r.id, {x}) for x in cfg.edge_targets(S.id, "exit"))
            ctx.ob(f, r.stmt, (not inside) and after, "a truthy return is reachable only after the scan over all outputs has completed" + ("" if not inside else " — it sits inside the scan: one complete output would mark the whole operation computed"), sel="all:return-after-scan")
        for p in cfg.nodes[S.id].pred:
            if cfg.in_loop(p, S.id):
                computed_edges.append((p, S.id))
    elif sliced:
        ctx.ob(f, sliced[0].stmt, False, f"the scan must iterate all of dag.successors(<node>) — it iterates `{unparse(sliced[0].stmt.iter, 50)}`", sel="all:scan-loop")
        return
    else:
        # expression form: return all(<test>(t) for t in <all successors' targets>)
        shape_ok = False
        for r in cfg.returns():
            if is_falsy_return(r):
                continue
            facts = facts_at(cfg, r.id)
            if any(pol and isinstance(t, ast.Compare) and isinstance(t.ops[0], ast.Is) and ((isinstance(t.left, ast.Name) and t.left.id in pipe_names) or (not isinstance(t.left, ast.Name) and "pipeline" in subscript_keys(t.left))) for t, pol in facts):
                continue
            v = r.stmt.value
            if isinstance(v, ast.Constant):
                ctx.ob(f, r.stmt, False, "an unconditional truthy return without a scan of all outputs", sel="all:return-after-scan")
                continue
            quant = v.func.id if isinstance(v, ast.Call) and isinstance(v.func, ast.Name) and v.func.id in ("all", "any") else None
            gen = v.args[0] if quant and v.args and isinstance(v.args[0], (ast.GeneratorExp, ast.ListComp)) else None
            ok = quant == "all" and gen is not None and succ_derived(gen.generators[0].iter, r.id) and all("is not None" in unparse(c_) for c_ in gen.generators[0].ifs)
            ctx.ob(
                f,
                r.stmt,
                ok,
                "the operation counts as computed only if *all* of its outputs are complete"
                + ("" if ok else f" — found `{unparse(v, 60)}`" + (": one complete output would mark the whole operation computed" if quant == "any" else "")),
                sel="all:return-after-scan",
                firm=quant == "any",
            )
            if gen is not None:
                shape_ok = True
                # the per-output test lives in the element expression / a helper it calls
                el = gen.elt
                helper = None
                if isinstance(el, ast.Call):
                    for t in repo.resolve_call(el, f, f.module):
                        if t.kind == "def" and t.ref.is_func:
                            helper = t.ref
                if helper is not None:
                    H, hcfg, hfl = helper, cfg_of(helper), flow_of(repo, helper)
        if not shape_ok and any(not o.ok for o in ctx.obs):
            return  # already reported: a truthy return that no scan of the outputs guards
        ctx.need(shape_ok, "already_computed: neither a loop over the outputs nor an all()/any() over them was found")
        ctx.ob(f, None, True, "expression form of the scan over all outputs", sel="all:scan-loop", nontrivial=False)
    # ---- per-output acceptance: completeness and dimensionality established -------------
    accept_points: list[tuple[list, ast.AST]] = []
    if H is f and S is not None:
        for src, dst in computed_edges:
            facts = _edge_facts(cfg, src, dst)
            # an output without target is skipped, not accepted
            def _no_target(t, pol) -> bool:
                # `<the output's target> is None` (true) / `... is not None` (false), where the
                # variable was read from the node's "target" entry
                if not (isinstance(t, ast.Compare) and len(t.ops) == 1 and isinstance(t.left, ast.Name) and isinstance(t.comparators[0], ast.Constant) and t.comparators[0].value is None):
                    return False
                if not ((isinstance(t.ops[0], ast.Is) and pol) or (isinstance(t.ops[0], ast.IsNot) and not pol)):
                    return False
                ds = fl.rdefs(t.left.id, src)

                def from_target_entry(d_):
                    if d_.value is None:
                        return False
                    if any(isinstance(c_, ast.Constant) and c_.value == "target" for c_ in ast.walk(d_.value)):
                        return True
                    # a loop variable over a collection of such lookups
                    if d_.kind == "for":
                        for nm in [x for x in ast.walk(d_.value) if isinstance(x, ast.Name)]:
                            for d2 in fl.rdefs(nm.id, d_.node):
                                if d2.value is not None and any(isinstance(c_, ast.Constant) and c_.value == "target" for c_ in ast.walk(d2.value)):
                                    return True
                    return False

                return bool(ds) and all(from_target_entry(d_) for d_ in ds)

            if any(_no_target(t, pol) for t, pol in facts):
                continue
            accept_points.append((facts, cfg.nodes[src].stmt))
    else:
        for r in hcfg.returns():
            if is_falsy_return(r):
                continue
            facts = facts_at(hcfg, r.id)
            v = r.stmt.value
            if not isinstance(v, ast.Constant):
                facts = facts + conjuncts(v, True)
            accept_points.append((facts, r.stmt))
    ctx.ob(H, None, bool(accept_points), "there is a path on which an output is accepted as complete", sel="all:accept-exists", nontrivial=False)
    for facts, node in accept_points:
        okc = any(_is_complete_fact(t, pol) for t, pol in facts)
        okz = any(_is_nonzero_dim_fact(t, pol) for t, pol in facts)
        ctx.ob(H, node, okc, "an output is accepted only where nchunks_initialized == nchunks is established" + ("" if okc else " — this path accepts it without that fact"), sel="all:completeness-test")
        ctx.ob(H, node, okz, "a zero-dimensional output is never accepted as complete", sel="all:zero-dim")
    # ---- missing array, incapable storage, create-arrays ----------------------------------
    hs = [n for n in hcfg.nodes if n.kind == "except" and n.stmt.type is not None and "NotFound" in unparse(n.stmt.type)]

    def only_reject(start: int) -> bool:
        reach = hcfg.reachable_from(start)
        if S is not None and H is f and S.id in reach:
            return False  # would continue scanning = accept
        return hcfg.exits_only_to(start, set(), lambda n: (n is not None and is_falsy_return(n)) or is_raise(n))

    okh = bool(hs) and all(only_reject(h.id) for h in hs)
    ctx.ob(H, hs[0].stmt if hs else None, okh, "an output whose array does not exist is treated as not computed", sel="all:not-found")
    rs = [n for n in hcfg.stmts(ast.Raise) if "NotImplementedError" in unparse(n.stmt.exc)]
    okr = False
    for r in rs:
        for t, pol in facts_at(hcfg, r.id):
            if not pol and isinstance(t, ast.Call) and isinstance(t.func, ast.Name) and t.func.id == "hasattr" and len(t.args) == 2 and isinstance(t.args[1], ast.Constant) and t.args[1].value == "nchunks_initialized":
                okr = True
    ctx.ob(H, rs[0].stmt if rs else None, okr, "storage without `nchunks_initialized` is refused with NotImplementedError", sel="all:cannot-report")
    okc = False
    for bn in cfg.stmts(ast.If):
        t = bn.stmt.test
        txt = unparse(t, 200)
        is_none_all = isinstance(t, ast.Call) and isinstance(t.func, ast.Name) and t.func.id == "all" and "target" in subscript_keys(t) and "successors" in txt
        # all(x is None for x in T) with T = [the outputs' "target" entries]
        if not is_none_all and isinstance(t, ast.Call) and isinstance(t.func, ast.Name) and t.func.id == "all" and t.args and isinstance(t.args[0], (ast.GeneratorExp, ast.ListComp)):
            ge = t.args[0]
            el_none = isinstance(ge.elt, ast.Compare) and isinstance(ge.elt.ops[0], ast.Is) and isinstance(ge.elt.comparators[0], ast.Constant) and ge.elt.comparators[0].value is None
            it_ = ge.generators[0].iter
            if el_none and isinstance(it_, ast.Name) and not ge.generators[0].ifs:
                for d_ in fl.rdefs(it_.id, bn.id):
                    if d_.value is not None and "target" in subscript_keys(d_.value) and succ_derived(d_.value, d_.node):
                        is_none_all = True
        is_empty = False
        pol_edge = "true"
        from ..astutil import nonempty_polarity

        p_ = nonempty_polarity(t, lambda e: isinstance(e, ast.Name) and succ_derived(e, bn.id))
        if p_ is not None:
            is_empty = True
            pol_edge = "false" if p_ else "true"
        if is_none_all or is_empty:
            tg = cfg.edge_targets(bn.id, pol_edge)
            if tg and all(cfg.exits_only_to(x, {bn.id}, lambda n: n is not None and is_falsy_return(n)) for x in tg):
                okc = True
    ctx.ob(f, None, okc, "an operation none of whose outputs has a target (create-arrays) is always re-run", sel="all:create-arrays")


@rule("RESUME-MARK-1", props=["C09", "C10", "C07"], floor=4)
def resume_mark(ctx: Ctx) -> None:
    """the `computed` marks are written only under `resume`, on a copy of the plan graph, for
    every node in topological order, before the executor is entered"""
    repo = ctx.repo
    ex = repo.get(A.FP_EXECUTE)
    cfg = cfg_of(ex)
    fl = flow_of(repo, ex)

    def mark_stores(d):
        return [n for n in d.own_nodes() if isinstance(n, ast.Assign) and isinstance(n.targets[0], ast.Subscript) and isinstance(n.targets[0].slice, ast.Constant) and n.targets[0].slice.value == "computed"]

    stores = mark_stores(ex)
    holder, via = ex, None
    if not stores:
        # the marking loop may have been extracted into a function that execute calls
        for c, ts in repo.calls_in(ex):
            for t in ts:
                if t.kind == "def" and t.ref.is_func and t.ref is not ex and mark_stores(t.ref):
                    holder, via, stores = t.ref, c, mark_stores(t.ref)
    ctx.ob(holder, stores[0] if stores else ex.node, len(stores) == 1, f"one site writes the `computed` mark (found {len(stores)})", sel="mark:site")
    xs = [c for c, ts in repo.calls_in(ex) if any(t.kind == "def" and t.ref.name == "execute_dag" for t in ts)]
    ctx.need(xs, "no executor call in execute")
    X = cfg.node_of(xs[0])
    hcfg, hfl = cfg_of(holder), flow_of(repo, holder)
    for st in stores:
        hnid = hcfg.node_of(st)
        nid = cfg.node_of(via) if via is not None else hnid  # the place in execute() that marks
        facts = facts_at(cfg, nid)
        under = any(pol and isinstance(t, ast.Name) and t.id == "resume" for t, pol in facts)
        ctx.ob(ex, via if via is not None else st, under, "marks are written only when `resume` is truthy", sel="mark:under-resume")
        # value comes from already_computed
        mv = st.value
        if isinstance(mv, ast.Name):
            ds_ = hfl.rdefs(mv.id, hnid)
            if len(ds_) == 1 and ds_[0].kind == "assign" and ds_[0].value is not None:
                mv = ds_[0].value
        ok = isinstance(mv, ast.Call) and ALREADY in repo.callee_quals(mv, holder)
        ctx.ob(holder, st, ok, "the mark is the result of already_computed(<node>)", sel="mark:value")
        # receiver graph is a copy
        recv = st.targets[0].value
        g = recv
        while isinstance(g, (ast.Subscript, ast.Attribute, ast.Call)):
            g = g.func if isinstance(g, ast.Call) else g.value
        if not isinstance(g, ast.Name):
            g = None
        fresh = False
        if g is not None:
            rs = hfl.roots(g, hnid)
            fresh = bool(rs) and all(r.endswith(").copy") for r in rs)
        ctx.ob(holder, st, fresh, "marks are written on a copy of the frozen, lru_cache-shared plan graph" + ("" if fresh else " — the shared graph itself is mutated"), sel="mark:on-copy", props=["C09", "C10"])
        # for every node, in topological order
        lp = hcfg.nodes[hnid].loops
        okl = False
        if lp:
            it = hcfg.nodes[lp[-1]].stmt.iter
            okl = any(isinstance(c, ast.Call) and "networkx.topological_sort" in repo.callee_quals(c, holder) for c in ast.walk(it))
            inner = [b for _, _, b in hcfg.branch_conditions(hnid) if hcfg.in_loop(b, lp[-1])]
            okl = okl and not inner
        ctx.ob(holder, st, okl, "every node is marked, in topological order", sel="mark:all-nodes")
        ctx.ob(ex, via if via is not None else st, not cfg.can_reach(X, nid) and cfg.can_reach(nid, X), "all marking precedes the executor call", sel="mark:before-execute")
        # the executor receives the marked graph
        a0 = xs[0].args[0] if xs[0].args else kwarg(xs[0], "dag")
        same = False
        if via is None:
            if isinstance(a0, ast.Name) and g is not None and a0.id == g.id:
                same = {(s_.node) for s_ in fl.rdefs(a0.id, X)} >= {(s_.node) for s_ in fl.rdefs(g.id, nid)}
        else:
            # G = helper(...) ; executor(G): the helper returns the graph it marked
            ret_ok = g is not None and any(isinstance(r, ast.Return) and isinstance(r.value, ast.Name) and r.value.id == g.id for r in holder.own_nodes())
            if isinstance(a0, ast.Name):
                same = ret_ok and any(s_.value is via for s_ in fl.rdefs(a0.id, X))
        ctx.ob(ex, xs[0], same, "the executor is given the graph that carries the marks", sel="mark:passed")


@rule("CREATE-MODE-1", props=["C06", "C09"], floor=4)
def create_mode(ctx: Ctx) -> None:
    """arrays are (re)created with open-or-create semantics: mode "a", fall back to open on
    "already exists", never overwrite/truncate, nothing reachable from a task deletes data"""
    repo = ctx.repo
    create = repo.get(f"{A.ST_ZARR}.LazyZarrArray.create")
    n = 0
    for d, c, ts in repo.all_call_sites():
        if any(t.kind == "def" and t.ref is create for t in ts):
            n += 1
            m = kwarg(c, "mode") or (c.args[0] if c.args else None)
            ok = isinstance(m, ast.Constant) and m.value == "a"
            ctx.ob(d or "<module>", c, ok, f"LazyZarrArray.create must be called with mode=\"a\" (found {unparse(m) if m is not None else 'the default w-'}): existing chunks survive re-creation on retry/resume", sel="mode:create-call")
    ctx.need(n >= 1, "no create call")
    for mq in (A.ST_V3,):
        f = repo.get(f"{mq}.open_zarr_v3_array")
        cfg = cfg_of(f)
        # every create call is in a try whose ContainsArrayError handler re-opens under mode == "a"
        creates = [c for c in f.own_nodes() if isinstance(c, ast.Call) and (attr_chain(c.func) == "zarr.create_array" or (isinstance(c.func, ast.Attribute) and c.func.attr == "create_array"))]
        ctx.need(creates, "no create_array call in the store backend")
        for c in creates:
            nid = cfg.node_of(c)
            hs = [cfg.nodes[s] for s, lab in cfg.nodes[nid].succ if lab == "exc" and "ContainsArrayError" in unparse(cfg.nodes[s].stmt.type)]
            ok = False
            for h in hs:
                # inside the handler: a branch `mode == "a"` whose true edge opens/reads the
                # existing array and whose false edge re-raises
                for bid in cfg.reachable_from(h.id):
                    bn = cfg.nodes[bid]
                    if bn.kind == "if" and isinstance(bn.stmt.test, ast.Compare) and unparse(bn.stmt.test) in ("mode == 'a'", "'a' == mode"):
                        t_ok = all(cfg.exits_only_to(t, {bid}, lambda x: x is None or not is_raise(x)) for t in cfg.edge_targets(bid, "true"))
                        ok = ok or t_ok
            ctx.ob(f, c, ok, "`create_array` failing with ContainsArrayError falls back to opening the existing array when mode == \"a\"", sel=f"mode:fallback:{unparse(c.func, 30)}")
            ow = kwarg(c, "overwrite")
            ctx.ob(f, c, ow is None or (isinstance(ow, ast.Constant) and ow.value is False), "no overwrite= on array creation", sel=f"mode:no-overwrite:{unparse(c.func, 30)}")
    # no "w" mode literal reaches a zarr open/create in the storage layer or plan
    bad = []
    for d in repo.functions():
        if not (d.module.qual.startswith("cubed.storage") or d.module.qual in (A.PLAN, A.PBW, A.PTYPES)):
            continue
        for c in d.own_nodes():
            if isinstance(c, ast.Call):
                m = kwarg(c, "mode")
                if isinstance(m, ast.Constant) and m.value in ("w",):
                    bad.append((d, c))
    ctx.ob(bad[0][0] if bad else create, bad[0][1] if bad else None, not bad, "no truncating mode \"w\" in the storage layer / plan / primitive", sel="mode:no-w")
    eff = effects_of(repo)
    for q in (f"{A.PBW}.apply_blockwise", f"{A.PLAN}.create_zarr_array"):
        d = repo.get(q)
        dl = eff.kinds(d, STORE_DELETE)
        ctx.ob(d, None, not dl, f"{d.name} (task body) reaches no delete/rmtree/erase" + ("" if not dl else f" — {fmt_effect(dl[0])}"), sel="mode:no-delete")


@rule("ZARR-CONFIG-1", props=["C09"], floor=2)
def zarr_config(ctx: Ctx) -> None:
    """every store backend enables `array.write_empty_chunks`, so that "all chunks present"
    means "fully computed" even for all-fill chunks"""
    repo = ctx.repo
    for mq in (A.ST_V3, A.ST_ZARRS):
        m = repo.module(mq)
        ok = False
        node = None
        for st in m.tree.body:
            if isinstance(st, ast.Expr) and isinstance(st.value, ast.Call) and attr_chain(st.value.func) == "zarr.config.set" and st.value.args and isinstance(st.value.args[0], ast.Dict):
                d = st.value.args[0]
                for k, v in zip(d.keys, d.values):
                    if isinstance(k, ast.Constant) and k.value == "array.write_empty_chunks":
                        node = st
                        ok = isinstance(v, ast.Constant) and v.value is True
        ctx.ob(mq, node, ok, f"{mq} sets zarr config array.write_empty_chunks = True at import", sel="config:write_empty_chunks", loc=f"{m.relpath}:{getattr(node, 'lineno', 1)}")


# ------------------------------------------------------------------------------ COPY-MUT-1

GRAPH_MUTATORS = {"add_node", "add_edge", "add_nodes_from", "add_edges_from", "remove_node", "remove_nodes_from", "remove_edge", "remove_edges_from", "clear", "update"}
FRESH_CALLS = {"networkx.MultiDiGraph", "networkx.DiGraph", "networkx.compose_all", "networkx.compose", f"{A.PLAN}.arrays_to_dag"}


def _graph_roots(fl, e: ast.AST, at: int, depth=4) -> set[str]:
    """Roots of the *graph* behind expression e: looks through `dict(G.nodes(data=True))`,
    `{n: d for n, d in G.nodes(data=True)}`, `G.nodes[...]`, loop elements of G.nodes(...)."""
    out: set[str] = set()
    if depth <= 0:
        return {"unknown"}
    if isinstance(e, ast.Subscript):
        return _graph_roots(fl, e.value, at, depth)
    if isinstance(e, ast.Attribute) and e.attr in ("nodes", "edges", "graph", "_node", "_adj"):
        return _graph_roots(fl, e.value, at, depth)
    if isinstance(e, ast.Call):
        # dict(G.nodes(...)) / G.nodes(data=True) / list(...)
        if isinstance(e.func, ast.Attribute) and e.func.attr in ("nodes", "edges", "items", "values"):
            return _graph_roots(fl, e.func.value, at, depth)
        if isinstance(e.func, ast.Name) and e.func.id in ("dict", "list", "tuple") and e.args:
            return _graph_roots(fl, e.args[0], at, depth)
        return fl.roots(e, at)
    if isinstance(e, (ast.DictComp, ast.ListComp, ast.GeneratorExp)):
        return _graph_roots(fl, e.generators[0].iter, at, depth)
    if isinstance(e, ast.Name):
        sites = fl.rdefs(e.id, at)
        if not sites:
            return fl.roots(e, at)
        for s in sites:
            if s.kind == "param":
                out.add(f"param:{s.name}")
            elif s.kind in ("assign", "walrus") and s.value is not None:
                out |= _graph_roots(fl, s.value, s.node, depth - 1)
            elif s.kind in ("for", "unpack", "with") and s.value is not None:
                out |= _graph_roots(fl, s.value, s.node, depth - 1)
            else:
                out.add("unknown")
        return out
    if isinstance(e, ast.Attribute):
        return fl.roots(e, at)
    return fl.roots(e, at)


def _is_fresh_root(r: str) -> bool:
    if r.endswith(").copy"):
        return True
    if r.startswith("call:") and r[5:] in FRESH_CALLS:
        return True
    return False


def graph_mutations(repo: Repo, f: Def):
    """(node, receiver expr, description) for every in-place mutation of a networkx graph or of a
    node-attribute dict reached from one."""
    for n in f.own_nodes():
        if isinstance(n, ast.Call) and isinstance(n.func, ast.Attribute) and n.func.attr in GRAPH_MUTATORS:
            recv = n.func.value
            txt = unparse(recv, 30)
            if n.func.attr in ("clear", "update") and not ("dag" in txt or "graph" in txt):
                continue
            if "dag" in txt or "graph" in txt or txt in ("g", "G"):
                yield n, recv, f"{txt}.{n.func.attr}(...)"
        elif isinstance(n, (ast.Assign, ast.AugAssign, ast.Delete)):
            tg = n.targets if isinstance(n, (ast.Assign, ast.Delete)) else [n.target]
            for t in tg:
                if isinstance(t, ast.Subscript) and isinstance(t.slice, ast.Constant) and isinstance(t.slice.value, str):
                    yield n, t.value, f"{unparse(t, 40)} {'=' if not isinstance(n, ast.Delete) else 'del'}"


@rule("COPY-MUT-1", props=["C02", "C09", "C10"], floor=6)
def copy_mut(ctx: Ctx) -> None:
    """a function that mutates a plan graph it received (or node attributes reached from it)
    rebinds it to a copy first; helpers that mutate a parameter are only given fresh graphs"""
    repo = ctx.repo
    helpers: dict[str, set[str]] = {}
    n_sites = 0
    scope = (A.PLAN, A.OPT, A.OPS, A.ARRAY)
    for f in repo.functions():
        if f.module.qual not in scope:
            continue
        fl = None
        cfg = None
        for n, recv, what in graph_mutations(repo, f):
            if fl is None:
                fl, cfg = flow_of(repo, f), cfg_of(f)
            if not cfg.has(n):
                continue
            at = cfg.node_of(n)
            roots = _graph_roots(fl, recv, at)
            # only graphs: node-attribute dicts count when reached from a .nodes view
            if not any(("dag" in r) or ("MultiDiGraph" in r) or ("compose" in r) or r.endswith(").copy") or r.startswith("param:") for r in roots):
                continue
            graphish = any("dag" in r or "nodes" in unparse(recv, 60) or "MultiDiGraph" in r or "compose" in r for r in roots) or "dag" in unparse(recv, 60)
            if not graphish:
                continue
            n_sites += 1
            nonfresh = {r for r in roots if not _is_fresh_root(r)}
            direct_params = {r[6:] for r in nonfresh if r.startswith("param:") and "." not in r[6:]}
            other = nonfresh - {f"param:{p}" for p in direct_params}
            if not nonfresh:
                ctx.ob(f, n, True, f"`{what}` mutates a fresh graph (copy / new / composed)", sel=f"copy:{ctx.anon(f, n, 60)}", props=_props_for(f))
            elif not other and direct_params and f.name.startswith("_"):
                # private mutating helper: obligation moves to its callers
                helpers.setdefault(f.qual, set()).update(direct_params)
                ctx.ob(f, n, True, f"`{what}` mutates parameter {sorted(direct_params)} of a private helper; callers are checked", sel=f"copy:{ctx.anon(f, n, 60)}", props=_props_for(f), nontrivial=False)
            else:
                ctx.ob(
                    f,
                    n,
                    False,
                    f"`{what}` mutates a graph/node dict that is not a fresh copy (origin {sorted(nonfresh)[:2]}): plan objects shared with other arrays or with the lru_cache are changed in place",
                    sel=f"copy:{ctx.anon(f, n, 60)}",
                    props=_props_for(f),
                )
    eff = effects_of(repo)
    work = [(hq, p) for hq, ps in helpers.items() for p in sorted(ps)]
    done: set[tuple[str, str]] = set()
    while work:
        hq, p = work.pop(0)
        if (hq, p) in done:
            continue
        done.add((hq, p))
        h = repo.get(hq)
        for d, c, ts in repo.all_call_sites():
            if d is None or not any(t.kind == "def" and t.ref is h for t in ts):
                continue
            b = eff.bind(c, h, d)
            fl, cfg = flow_of(repo, d), cfg_of(d)
            v = b.get(p)
            ok = False
            why = "argument not understood"
            if v and v[0] == "expr":
                roots = _graph_roots(fl, v[1], cfg.node_of(c))
                ok = bool(roots) and all(_is_fresh_root(r) or r == f"call:{hq}" or r.startswith(f"call:{A.PLAN}.Plan._") for r in roots)
                why = f"origin {sorted(roots)[:2]}"
            elif v and v[0] == "param":
                why = f"caller's own parameter `{v[1]}`"
                if d.name.startswith("_") and not d.name.startswith("__") and d is not h:
                    # a private function that hands its own parameter on to a mutating
                    # helper mutates that parameter itself: the obligation moves up again
                    work.append((d.qual, v[1]))
                    ctx.ob(d, c, True, f"`{h.name}` mutates its `{p}` argument, which is `{d.name}`'s own parameter `{v[1]}`; callers of `{d.name}` are checked", sel=f"copy:arg:{h.name}", props=_props_for(d), nontrivial=False)
                    continue
            ctx.ob(d, c, ok, f"`{h.name}` mutates its `{p}` argument: the caller must pass a fresh copy" + ("" if ok else f" — {why}"), sel=f"copy:arg:{h.name}", props=_props_for(d))
    ctx.need(n_sites >= 6, f"only {n_sites} graph mutation sites found")


def _props_for(f: Def) -> list[str]:
    q = f.qual
    if q.startswith(A.OPT):
        return ["C02", "C10"]
    if q == A.FP_EXECUTE:
        return ["C09", "C10"]
    if q.startswith(f"{A.PLAN}.Plan._finalize") or q.startswith(f"{A.PLAN}.Plan._c"):
        return ["C02", "C10"]
    return ["C10"]


@rule("RESUME-PURE-1", props=["C09", "C10", "C20"], floor=2)
def resume_pure(ctx: Ctx) -> None:
    """the resume decision is a read-only query of storage: already_computed / skip_node store
    nothing on the objects they inspect (plan nodes, target arrays travel inside pickled
    arrays and are shared between computations — a remembered verdict outlives the data it
    described)"""
    repo = ctx.repo
    for q in (ALREADY, SKIP_NODE_Q):
        f = repo.get(q)
        fl, cfg = flow_of(repo, f), cfg_of(f)
        bad = []
        for n in f.own_nodes():
            tg = n.targets if isinstance(n, ast.Assign) else [n.target] if isinstance(n, (ast.AugAssign, ast.AnnAssign)) else n.targets if isinstance(n, ast.Delete) else []
            for t in tg:
                if isinstance(t, (ast.Attribute, ast.Subscript)):
                    base = t
                    while isinstance(base, (ast.Attribute, ast.Subscript, ast.Call)):
                        base = base.func if isinstance(base, ast.Call) else base.value
                    local_fresh = False
                    if isinstance(base, ast.Name) and cfg.has(n):
                        rs = fl.roots(base, cfg.node_of(n))
                        local_fresh = bool(rs) and all(r.startswith("new:") for r in rs)
                    if not local_fresh:
                        bad.append(n)
            if isinstance(n, ast.Call) and isinstance(n.func, ast.Name) and n.func.id in ("setattr", "delattr"):
                bad.append(n)
        ctx.ob(
            f,
            bad[0] if bad else None,
            not bad,
            f"{f.name} stores nothing on the objects it inspects"
            + ("" if not bad else f" — `{unparse(bad[0], 50)}`: a verdict remembered on a plan object or target array is reused by later computations, and travels with the array when it is pickled, after the data it described is gone"),
            sel="pure:no-store",
        )
        # ... and reads no remembered verdict either: every acceptance consults storage
        # (covered per output by RESUME-ALL-1's completeness facts)


_PROVIDER_EXAMPLE = '''
class Group(dict):
    @property
    def nchunks_initialized(self):
        first = next(iter(self.values()))
        return first.nchunks_initialized
'''


def _part_of_members(fn: ast.FunctionDef) -> ast.AST | None:
    """in a method of a collection class: an expression that picks *one* member of self
    (next(iter(self.values())), list(self.values())[0], self[<constant>]) — the evidence that
    the answer is taken from part of the collection"""
    me = fn.args.args[0].arg if fn.args.args else "self"

    def is_members(e):
        return (isinstance(e, ast.Call) and isinstance(e.func, ast.Attribute) and e.func.attr in ("values", "items", "keys") and isinstance(e.func.value, ast.Name) and e.func.value.id == me) or (isinstance(e, ast.Name) and e.id == me)

    for n in ast.walk(fn):
        if isinstance(n, ast.Call) and isinstance(n.func, ast.Name) and n.func.id == "next" and n.args:
            a = n.args[0]
            if isinstance(a, ast.Call) and isinstance(a.func, ast.Name) and a.func.id == "iter" and a.args and is_members(a.args[0]):
                return n
        if isinstance(n, ast.Subscript) and isinstance(n.slice, ast.Constant):
            b = n.value
            if isinstance(b, ast.Call) and isinstance(b.func, ast.Name) and b.func.id in ("list", "tuple", "sorted") and b.args and is_members(b.args[0]):
                return n
            if isinstance(b, ast.Name) and b.id == me:
                return n
    return None


def _aggregates_members(fn: ast.FunctionDef) -> bool:
    me = fn.args.args[0].arg if fn.args.args else "self"
    for n in ast.walk(fn):
        its = [g.iter for g in n.generators] if isinstance(n, (ast.GeneratorExp, ast.ListComp, ast.SetComp)) else [n.iter] if isinstance(n, ast.For) else []
        for it in its:
            if (isinstance(it, ast.Call) and isinstance(it.func, ast.Attribute) and it.func.attr in ("values", "items") and isinstance(it.func.value, ast.Name) and it.func.value.id == me) or (isinstance(it, ast.Name) and it.id == me):
                return True
    return False


@rule("RESUME-PROVIDER-1", props=["C09", "C07"], floor=1)
def resume_provider(ctx: Ctx) -> None:
    """resume trusts what a stored array reports about itself (nchunks_initialized == nchunks):
    a storage class that holds several arrays (a structured array kept as one array per
    field) either does not offer that report — resume then refuses it — or answers for *all*
    of its members; an answer taken from one member calls an operation finished whose other
    fields were still being written when the run died"""
    repo = ctx.repo
    # the matcher must recognise the defect on a known example (the expected count on a
    # healthy tree is zero)
    ex = ast.parse(_PROVIDER_EXAMPLE).body[0]
    exfn = next(n for n in ex.body if isinstance(n, ast.FunctionDef))
    ctx.need(_part_of_members(exfn) is not None and not _aggregates_members(exfn), "RESUME-PROVIDER-1 self-check: the built-in example is not recognised")
    n_coll = 0
    for cls in repo.classes():
        mq = cls.module.qual
        if not mq.startswith("cubed.storage") and not mq.startswith("cubed.primitive"):
            continue
        bases = {unparse(b) for b in cls.node.bases}
        coll = bool(bases & {"dict", "list", "Mapping", "MutableMapping", "UserDict", "OrderedDict"}) or any(_aggregates_members(m.node) or _part_of_members(m.node) is not None for m in cls.children.values() if m.is_func and isinstance(m.node, ast.FunctionDef))
        if not coll:
            continue
        n_coll += 1
        reporters = [m for nm, m in cls.children.items() if nm in ("nchunks_initialized",) and m.is_func and isinstance(m.node, ast.FunctionDef)]
        if not reporters:
            ctx.ob(cls, None, True, f"{cls.name} (a collection of arrays) offers no completeness report: resume refuses it instead of guessing", sel="provider:none")
            continue
        siblings = {nm: x for nm, x in cls.children.items() if x.is_func and isinstance(x.node, ast.FunctionDef)}
        for m in reporters:
            part = _part_of_members(m.node)
            agg = _aggregates_members(m.node)
            # one level through the class's own properties / methods (self._first.…)
            me_ = m.node.args.args[0].arg if m.node.args.args else "self"
            for a_ in ast.walk(m.node):
                if isinstance(a_, ast.Attribute) and isinstance(a_.value, ast.Name) and a_.value.id == me_ and a_.attr in siblings and siblings[a_.attr] is not m:
                    sn = siblings[a_.attr].node
                    if part is None and _part_of_members(sn) is not None:
                        part = a_
                    agg = agg or _aggregates_members(sn)
            if part is None and not agg:
                ctx.need(False, f"{cls.name}.{m.name}: neither an aggregate over the members nor a pick of one; not decided")
            ok = agg and part is None
            ctx.ob(
                m,
                part,
                ok,
                f"{cls.name}.{m.name} answers for every member array"
                + ("" if ok else f" — it answers from `{unparse(part, 40)}`, one member: a crash between the per-field writes of the last task leaves the other fields short, and resume skips the operation"),
                sel=f"provider:all-members:{m.name}",
                firm=True,
            )
    ctx.need(n_coll >= 1, "no collection-of-arrays storage class found (ZarrV3ArrayGroup expected)")
