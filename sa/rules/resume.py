"""C09 resume decision logic; CREATE-MODE-1 / ZARR-CONFIG-1 (C06, C09); COPY-MUT-1 (C02, C09, C10)."""

from __future__ import annotations

import ast

from .. import anchors as A
from ..astutil import kwarg, mentions_attr, mentions_name, subscript_keys, unparse
from ..cfg import cfg_of, is_falsy_return, is_raise
from ..effects import STORE_DELETE, effects_of, fmt_effect
from ..flow import flow_of
from ..index import Def, Repo, attr_chain, walk_own
from ..runner import Ctx, rule
from .runtime import conjuncts, facts_at

ALREADY = f"{A.PLAN}.already_computed"


@rule("RESUME-ALL-1", props=["C09"], floor=5)
def resume_all(ctx: Ctx) -> None:
    """already_computed says "computed" only after *all* outputs were found complete; inside
    the scan only falsy returns / raises occur; incompleteness, 0-d arrays, a missing array and
    the create-arrays node count as not computed"""
    repo = ctx.repo
    f = repo.get(ALREADY)
    cfg = cfg_of(f)
    fl = flow_of(repo, f)
    # the scan loop over all successors
    scans = [n for n in cfg.stmts(ast.For) if not n.loops and any(isinstance(c, ast.Call) and isinstance(c.func, ast.Attribute) and c.func.attr == "successors" for c in ast.walk(n.stmt.iter))]
    ctx.need(len(scans) == 1, "the loop over the operation's outputs (dag.successors) was not found")
    S = scans[0]
    it = S.stmt.iter
    whole = isinstance(it, ast.Call) and isinstance(it.func, ast.Attribute) and it.func.attr == "successors"
    if not whole and isinstance(it, ast.Call) and isinstance(it.func, ast.Name) and it.func.id in ("list", "tuple", "sorted", "set") and len(it.args) == 1:
        it = it.args[0]
        whole = isinstance(it, ast.Call) and isinstance(it.func, ast.Attribute) and it.func.attr == "successors"
    ctx.ob(f, S.stmt, whole, "the scan iterates all of dag.successors(<node>)" + ("" if whole else f" — it iterates `{unparse(S.stmt.iter, 50)}`"), sel="all:scan-loop")
    ok = whole and len(it.args) == 1 and isinstance(it.args[0], ast.Name) and it.args[0].id == f.params[0]
    ctx.ob(f, S.stmt, ok, "the scan covers the successors of the node under test", sel="all:scan-of-node")

    def stops_false(start: int, avoid: set[int]) -> bool:
        """from start, the scan is left through a falsy return / raise and never resumed"""
        if S.id in cfg.reachable_from(start, avoid=avoid - {S.id}):
            return False
        return cfg.exits_only_to(start, avoid, lambda n: (is_falsy_return(n) and n is not None) or is_raise(n))
    pipe_names = {s.name for ss in fl.sites.values() for s in ss if s.value is not None and "pipeline" in subscript_keys(s.value)}
    for r in cfg.returns():
        if is_falsy_return(r):
            continue
        facts = facts_at(cfg, r.id)
        no_pipeline = any(pol and isinstance(t, ast.Compare) and isinstance(t.ops[0], ast.Is) and isinstance(t.left, ast.Name) and t.left.id in pipe_names for t, pol in facts)
        if no_pipeline:
            ctx.ob(f, r.stmt, True, "truthy return for a node without pipeline (nothing to compute)", sel="all:return-no-pipeline", nontrivial=False)
            continue
        inside = cfg.in_loop(r.id, S.id)
        after = all(cfg.all_paths_pass(cfg.entry, r.id, {x}) for x in cfg.edge_targets(S.id, "exit")) and bool(cfg.edge_targets(S.id, "exit"))
        v = r.stmt.value
        const_true = isinstance(v, ast.Constant) and v.value is True
        ctx.ob(
            f,
            r.stmt,
            (not inside) and after,
            "a truthy return is reachable only after the scan over all outputs has completed"
            + ("" if not inside else " — it sits inside the scan: one complete output would mark the whole operation computed"),
            sel="all:return-after-scan",
        )
    # inside the scan: the incompleteness test
    cmps = [n for n in f.own_nodes() if isinstance(n, ast.Compare) and mentions_attr(n, "nchunks_initialized")]
    ok = False
    msg = "an output counts as computed only if nchunks_initialized == nchunks"
    if len(cmps) == 1:
        c = cmps[0]
        l, op, r_ = c.left, c.ops[0], c.comparators[0]
        la, ra = attr_chain(l) or "", attr_chain(r_) or ""
        pair = {la.rsplit(".", 1)[-1], ra.rsplit(".", 1)[-1]} == {"nchunks_initialized", "nchunks"} and la.rsplit(".", 1)[0] == ra.rsplit(".", 1)[0]
        nid = cfg.node_of(c)
        bn = cfg.nodes[nid]
        if pair and bn.kind == "if":
            # polarity under which the comparison says "incomplete"
            if isinstance(op, ast.NotEq):
                inc_pol = True
            elif isinstance(op, ast.Eq):
                inc_pol = False
            elif isinstance(op, ast.Lt) and la.endswith("nchunks_initialized"):
                inc_pol = True
            elif isinstance(op, ast.Gt) and ra.endswith("nchunks_initialized"):
                inc_pol = True
            else:
                inc_pol = None
            if inc_pol is not None:
                # where the test sits in the branch condition: `A or cmp` true-edge, or plain
                test = bn.stmt.test
                disj = test.values if isinstance(test, ast.BoolOp) and isinstance(test.op, ast.Or) else [test]
                if any(x is c for x in disj) and inc_pol:
                    tg = cfg.edge_targets(nid, "true")
                    ok = bool(tg) and all(stops_false(t, {nid}) for t in tg)
                elif test is c and not inc_pol:
                    tg = cfg.edge_targets(nid, "false")
                    ok = bool(tg) and all(stops_false(t, {nid}) for t in tg)
        if not ok:
            msg += f" — found `{unparse(c)}`"
    else:
        msg += f" — found {len(cmps)} completeness comparisons"
    ctx.ob(f, cmps[0] if cmps else f.node, ok, msg, sel="all:completeness-test")
    # zero-dimensional arrays are never trusted
    z = [n for n in f.own_nodes() if isinstance(n, ast.Compare) and mentions_attr(n, "ndim") and isinstance(n.ops[0], ast.Eq) and isinstance(n.comparators[0], ast.Constant) and n.comparators[0].value == 0]
    okz = False
    for c in z:
        nid = cfg.node_of(c)
        bn = cfg.nodes[nid]
        if bn.kind == "if":
            test = bn.stmt.test
            disj = test.values if isinstance(test, ast.BoolOp) and isinstance(test.op, ast.Or) else [test]
            if any(x is c for x in disj):
                tg = cfg.edge_targets(nid, "true")
                okz = bool(tg) and all(stops_false(t, {nid}) for t in tg)
    ctx.ob(f, z[0] if z else f.node, okz, "a zero-dimensional output is treated as not computed", sel="all:zero-dim")
    # missing array → not computed
    hs = [n for n in cfg.nodes if n.kind == "except" and n.stmt.type is not None and "NotFound" in unparse(n.stmt.type)]
    okh = bool(hs) and all(stops_false(h.id, set()) for h in hs)
    ctx.ob(f, hs[0].stmt if hs else f.node, okh, "an output whose array does not exist is treated as not computed", sel="all:not-found")
    # storage that cannot report completeness → explicit error
    rs = [n for n in cfg.stmts(ast.Raise) if "NotImplementedError" in unparse(n.stmt.exc)]
    okr = False
    for r in rs:
        for t, pol in facts_at(cfg, r.id):
            if not pol and isinstance(t, ast.Call) and isinstance(t.func, ast.Name) and t.func.id == "hasattr" and len(t.args) == 2 and isinstance(t.args[1], ast.Constant) and t.args[1].value == "nchunks_initialized":
                okr = True
    ctx.ob(f, rs[0].stmt if rs else f.node, okr, "storage without `nchunks_initialized` is refused with NotImplementedError", sel="all:cannot-report")
    # create-arrays (no output has a target) → not computed
    okc = False
    for bn in cfg.stmts(ast.If):
        t = bn.stmt.test
        if isinstance(t, ast.Call) and isinstance(t.func, ast.Name) and t.func.id == "all" and "target" in subscript_keys(t) and "successors" in unparse(t):
            tg = cfg.edge_targets(bn.id, "true")
            if tg and all(cfg.exits_only_to(x, {bn.id}, lambda n: is_falsy_return(n) and n is not None) for x in tg) and cfg.dominates(bn.id, S.id):
                okc = True
    ctx.ob(f, f.node, okc, "an operation none of whose outputs has a target (create-arrays) is always re-run", sel="all:create-arrays")


@rule("RESUME-MARK-1", props=["C09"], floor=4)
def resume_mark(ctx: Ctx) -> None:
    """the `computed` marks are written only under `resume`, on a copy of the plan graph, for
    every node in topological order, before the executor is entered"""
    repo = ctx.repo
    ex = repo.get(A.FP_EXECUTE)
    cfg = cfg_of(ex)
    fl = flow_of(repo, ex)
    stores = [n for n in ex.own_nodes() if isinstance(n, ast.Assign) and isinstance(n.targets[0], ast.Subscript) and isinstance(n.targets[0].slice, ast.Constant) and n.targets[0].slice.value == "computed"]
    ctx.ob(ex, stores[0] if stores else ex.node, len(stores) == 1, f"one site writes the `computed` mark (found {len(stores)})", sel="mark:site")
    xs = [c for c, ts in repo.calls_in(ex) if any(t.kind == "def" and t.ref.name == "execute_dag" for t in ts)]
    ctx.need(xs, "no executor call in execute")
    X = cfg.node_of(xs[0])
    for st in stores:
        nid = cfg.node_of(st)
        facts = facts_at(cfg, nid)
        under = any(pol and isinstance(t, ast.Name) and t.id == "resume" for t, pol in facts)
        ctx.ob(ex, st, under, "marks are written only when `resume` is truthy", sel="mark:under-resume")
        # value comes from already_computed
        ok = isinstance(st.value, ast.Call) and ALREADY in repo.callee_quals(st.value, ex)
        ctx.ob(ex, st, ok, "the mark is the result of already_computed(<node>)", sel="mark:value")
        # receiver graph is a copy
        recv = st.targets[0].value
        g = recv
        while isinstance(g, (ast.Subscript, ast.Attribute, ast.Call)):
            g = g.func if isinstance(g, ast.Call) else g.value
        if not isinstance(g, ast.Name):
            g = None
        fresh = False
        if g is not None:
            rs = fl.roots(g, nid)
            fresh = bool(rs) and all(r.endswith(").copy") for r in rs)
        ctx.ob(ex, st, fresh, "marks are written on a copy of the frozen, lru_cache-shared plan graph" + ("" if fresh else " — the shared graph itself is mutated"), sel="mark:on-copy", props=["C09", "C10"])
        # for every node, in topological order
        lp = cfg.nodes[nid].loops
        okl = False
        if lp:
            it = cfg.nodes[lp[-1]].stmt.iter
            okl = any(isinstance(c, ast.Call) and "networkx.topological_sort" in repo.callee_quals(c, ex) for c in ast.walk(it))
            inner = [b for _, _, b in cfg.branch_conditions(nid) if cfg.in_loop(b, lp[-1])]
            okl = okl and not inner
        ctx.ob(ex, st, okl, "every node is marked, in topological order", sel="mark:all-nodes")
        ctx.ob(ex, st, not cfg.can_reach(X, nid) and cfg.can_reach(nid, X), "all marking precedes the executor call", sel="mark:before-execute")
        # the executor receives the marked graph
        a0 = xs[0].args[0] if xs[0].args else kwarg(xs[0], "dag")
        same = False
        if isinstance(a0, ast.Name) and g is not None and a0.id == g.id:
            same = {(s.node) for s in fl.rdefs(a0.id, X)} >= {(s.node) for s in fl.rdefs(g.id, nid)}
        ctx.ob(ex, xs[0], same, "the executor is given the graph that carries the marks", sel="mark:passed")


@rule("CREATE-MODE-1", props=["C06", "C09"], floor=4)
def create_mode(ctx: Ctx) -> None:
    """arrays are (re)created with open-or-create semantics: mode "a", fall back to open on
    "already exists", never overwrite/truncate, nothing reachable from a task deletes data"""
    repo = ctx.repo
    create = repo.get(f"{A.ST_ZARR}.LazyZarrArray.create")
    n = 0
    for d, c, ts in repo.all_call_sites():
        if any(t.kind == "def" and t.ref is create for t in ts):
            n += 1
            m = kwarg(c, "mode") or (c.args[0] if c.args else None)
            ok = isinstance(m, ast.Constant) and m.value == "a"
            ctx.ob(d or "<module>", c, ok, f"LazyZarrArray.create must be called with mode=\"a\" (found {unparse(m) if m is not None else 'the default w-'}): existing chunks survive re-creation on retry/resume", sel="mode:create-call")
    ctx.need(n >= 1, "no create call")
    for mq in (A.ST_V3,):
        f = repo.get(f"{mq}.open_zarr_v3_array")
        cfg = cfg_of(f)
        # every create call is in a try whose ContainsArrayError handler re-opens under mode == "a"
        creates = [c for c in f.own_nodes() if isinstance(c, ast.Call) and (attr_chain(c.func) == "zarr.create_array" or (isinstance(c.func, ast.Attribute) and c.func.attr == "create_array"))]
        ctx.need(creates, "no create_array call in the store backend")
        for c in creates:
            nid = cfg.node_of(c)
            hs = [cfg.nodes[s] for s, lab in cfg.nodes[nid].succ if lab == "exc" and "ContainsArrayError" in unparse(cfg.nodes[s].stmt.type)]
            ok = False
            for h in hs:
                # inside the handler: a branch `mode == "a"` whose true edge opens/reads the
                # existing array and whose false edge re-raises
                for bid in cfg.reachable_from(h.id):
                    bn = cfg.nodes[bid]
                    if bn.kind == "if" and isinstance(bn.stmt.test, ast.Compare) and unparse(bn.stmt.test) in ("mode == 'a'", "'a' == mode"):
                        t_ok = all(cfg.exits_only_to(t, {bid}, lambda x: x is None or not is_raise(x)) for t in cfg.edge_targets(bid, "true"))
                        ok = ok or t_ok
            ctx.ob(f, c, ok, "`create_array` failing with ContainsArrayError falls back to opening the existing array when mode == \"a\"", sel=f"mode:fallback:{unparse(c.func, 30)}")
            ow = kwarg(c, "overwrite")
            ctx.ob(f, c, ow is None or (isinstance(ow, ast.Constant) and ow.value is False), "no overwrite= on array creation", sel=f"mode:no-overwrite:{unparse(c.func, 30)}")
    # no "w" mode literal reaches a zarr open/create in the storage layer or plan
    bad = []
    for d in repo.functions():
        if not (d.module.qual.startswith("cubed.storage") or d.module.qual in (A.PLAN, A.PBW, A.PTYPES)):
            continue
        for c in d.own_nodes():
            if isinstance(c, ast.Call):
                m = kwarg(c, "mode")
                if isinstance(m, ast.Constant) and m.value in ("w",):
                    bad.append((d, c))
    ctx.ob(bad[0][0] if bad else create, bad[0][1] if bad else None, not bad, "no truncating mode \"w\" in the storage layer / plan / primitive", sel="mode:no-w")
    eff = effects_of(repo)
    for q in (f"{A.PBW}.apply_blockwise", f"{A.PLAN}.create_zarr_array"):
        d = repo.get(q)
        dl = eff.kinds(d, STORE_DELETE)
        ctx.ob(d, None, not dl, f"{d.name} (task body) reaches no delete/rmtree/erase" + ("" if not dl else f" — {fmt_effect(dl[0])}"), sel="mode:no-delete")


@rule("ZARR-CONFIG-1", props=["C09"], floor=2)
def zarr_config(ctx: Ctx) -> None:
    """every store backend enables `array.write_empty_chunks`, so that "all chunks present"
    means "fully computed" even for all-fill chunks"""
    repo = ctx.repo
    for mq in (A.ST_V3, A.ST_ZARRS):
        m = repo.module(mq)
        ok = False
        node = None
        for st in m.tree.body:
            if isinstance(st, ast.Expr) and isinstance(st.value, ast.Call) and attr_chain(st.value.func) == "zarr.config.set" and st.value.args and isinstance(st.value.args[0], ast.Dict):
                d = st.value.args[0]
                for k, v in zip(d.keys, d.values):
                    if isinstance(k, ast.Constant) and k.value == "array.write_empty_chunks":
                        node = st
                        ok = isinstance(v, ast.Constant) and v.value is True
        ctx.ob(mq, node, ok, f"{mq} sets zarr config array.write_empty_chunks = True at import", sel="config:write_empty_chunks", loc=f"{m.relpath}:{getattr(node, 'lineno', 1)}")


# ------------------------------------------------------------------------------ COPY-MUT-1

GRAPH_MUTATORS = {"add_node", "add_edge", "add_nodes_from", "add_edges_from", "remove_node", "remove_nodes_from", "remove_edge", "remove_edges_from", "clear", "update"}
FRESH_CALLS = {"networkx.MultiDiGraph", "networkx.DiGraph", "networkx.compose_all", "networkx.compose", f"{A.PLAN}.arrays_to_dag"}


def _graph_roots(fl, e: ast.AST, at: int, depth=4) -> set[str]:
    """Roots of the *graph* behind expression e: looks through `dict(G.nodes(data=True))`,
    `{n: d for n, d in G.nodes(data=True)}`, `G.nodes[...]`, loop elements of G.nodes(...)."""
    out: set[str] = set()
    if depth <= 0:
        return {"unknown"}
    if isinstance(e, ast.Subscript):
        return _graph_roots(fl, e.value, at, depth)
    if isinstance(e, ast.Attribute) and e.attr in ("nodes", "edges", "graph", "_node", "_adj"):
        return _graph_roots(fl, e.value, at, depth)
    if isinstance(e, ast.Call):
        # dict(G.nodes(...)) / G.nodes(data=True) / list(...)
        if isinstance(e.func, ast.Attribute) and e.func.attr in ("nodes", "edges", "items", "values"):
            return _graph_roots(fl, e.func.value, at, depth)
        if isinstance(e.func, ast.Name) and e.func.id in ("dict", "list", "tuple") and e.args:
            return _graph_roots(fl, e.args[0], at, depth)
        return fl.roots(e, at)
    if isinstance(e, (ast.DictComp, ast.ListComp, ast.GeneratorExp)):
        return _graph_roots(fl, e.generators[0].iter, at, depth)
    if isinstance(e, ast.Name):
        sites = fl.rdefs(e.id, at)
        if not sites:
            return fl.roots(e, at)
        for s in sites:
            if s.kind == "param":
                out.add(f"param:{s.name}")
            elif s.kind in ("assign", "walrus") and s.value is not None:
                out |= _graph_roots(fl, s.value, s.node, depth - 1)
            elif s.kind in ("for", "unpack", "with") and s.value is not None:
                out |= _graph_roots(fl, s.value, s.node, depth - 1)
            else:
                out.add("unknown")
        return out
    if isinstance(e, ast.Attribute):
        return fl.roots(e, at)
    return fl.roots(e, at)


def _is_fresh_root(r: str) -> bool:
    if r.endswith(").copy"):
        return True
    if r.startswith("call:") and r[5:] in FRESH_CALLS:
        return True
    return False


def graph_mutations(repo: Repo, f: Def):
    """(node, receiver expr, description) for every in-place mutation of a networkx graph or of a
    node-attribute dict reached from one."""
    for n in f.own_nodes():
        if isinstance(n, ast.Call) and isinstance(n.func, ast.Attribute) and n.func.attr in GRAPH_MUTATORS:
            recv = n.func.value
            txt = unparse(recv, 30)
            if n.func.attr in ("clear", "update") and not ("dag" in txt or "graph" in txt):
                continue
            if "dag" in txt or "graph" in txt or txt in ("g", "G"):
                yield n, recv, f"{txt}.{n.func.attr}(...)"
        elif isinstance(n, (ast.Assign, ast.AugAssign, ast.Delete)):
            tg = n.targets if isinstance(n, (ast.Assign, ast.Delete)) else [n.target]
            for t in tg:
                if isinstance(t, ast.Subscript) and isinstance(t.slice, ast.Constant) and isinstance(t.slice.value, str):
                    yield n, t.value, f"{unparse(t, 40)} {'=' if not isinstance(n, ast.Delete) else 'del'}"


@rule("COPY-MUT-1", props=["C02", "C09", "C10"], floor=6)
def copy_mut(ctx: Ctx) -> None:
    """a function that mutates a plan graph it received (or node attributes reached from it)
    rebinds it to a copy first; helpers that mutate a parameter are only given fresh graphs"""
    repo = ctx.repo
    helpers: dict[str, set[str]] = {}
    n_sites = 0
    scope = (A.PLAN, A.OPT, A.OPS, A.ARRAY)
    for f in repo.functions():
        if f.module.qual not in scope:
            continue
        fl = None
        cfg = None
        for n, recv, what in graph_mutations(repo, f):
            if fl is None:
                fl, cfg = flow_of(repo, f), cfg_of(f)
            if not cfg.has(n):
                continue
            at = cfg.node_of(n)
            roots = _graph_roots(fl, recv, at)
            # only graphs: node-attribute dicts count when reached from a .nodes view
            if not any(("dag" in r) or ("MultiDiGraph" in r) or ("compose" in r) or r.endswith(").copy") or r.startswith("param:") for r in roots):
                continue
            graphish = any("dag" in r or "nodes" in unparse(recv, 60) or "MultiDiGraph" in r or "compose" in r for r in roots) or "dag" in unparse(recv, 60)
            if not graphish:
                continue
            n_sites += 1
            nonfresh = {r for r in roots if not _is_fresh_root(r)}
            direct_params = {r[6:] for r in nonfresh if r.startswith("param:") and "." not in r[6:]}
            other = nonfresh - {f"param:{p}" for p in direct_params}
            if not nonfresh:
                ctx.ob(f, n, True, f"`{what}` mutates a fresh graph (copy / new / composed)", sel=f"copy:{what}", props=_props_for(f))
            elif not other and direct_params and f.name.startswith("_"):
                # private mutating helper: obligation moves to its callers
                helpers.setdefault(f.qual, set()).update(direct_params)
                ctx.ob(f, n, True, f"`{what}` mutates parameter {sorted(direct_params)} of a private helper; callers are checked", sel=f"copy:{what}", props=_props_for(f), nontrivial=False)
            else:
                ctx.ob(
                    f,
                    n,
                    False,
                    f"`{what}` mutates a graph/node dict that is not a fresh copy (origin {sorted(nonfresh)[:2]}): plan objects shared with other arrays or with the lru_cache are changed in place",
                    sel=f"copy:{what}",
                    props=_props_for(f),
                )
    eff = effects_of(repo)
    for hq, params in helpers.items():
        h = repo.get(hq)
        for d, c, ts in repo.all_call_sites():
            if d is None or not any(t.kind == "def" and t.ref is h for t in ts):
                continue
            b = eff.bind(c, h, d)
            fl, cfg = flow_of(repo, d), cfg_of(d)
            for p in params:
                v = b.get(p)
                ok = False
                why = "argument not understood"
                if v and v[0] == "expr":
                    roots = _graph_roots(fl, v[1], cfg.node_of(c))
                    ok = bool(roots) and all(_is_fresh_root(r) or r == f"call:{hq}" or r.startswith(f"call:{A.PLAN}.Plan._") for r in roots)
                    why = f"origin {sorted(roots)[:2]}"
                elif v and v[0] == "param":
                    why = f"caller's own parameter `{v[1]}`"
                ctx.ob(d, c, ok, f"`{h.name}` mutates its `{p}` argument: the caller must pass a fresh copy" + ("" if ok else f" — {why}"), sel=f"copy:arg:{h.name}", props=_props_for(d))
    ctx.need(n_sites >= 6, f"only {n_sites} graph mutation sites found")


def _props_for(f: Def) -> list[str]:
    q = f.qual
    if q.startswith(A.OPT):
        return ["C02", "C10"]
    if q == A.FP_EXECUTE:
        return ["C09", "C10"]
    if q.startswith(f"{A.PLAN}.Plan._finalize") or q.startswith(f"{A.PLAN}.Plan._c"):
        return ["C02", "C10"]
    return ["C10"]
