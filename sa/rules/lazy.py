"""C16 — building, planning and visualising are lazy and side-effect free (effect analysis);
also serves C04 (nothing is written before validate())."""

from __future__ import annotations

import ast

from .. import anchors as A
from ..astutil import unparse
from ..effects import (
    EXEC,
    STORE_CREATE,
    STORE_DELETE,
    STORE_WRITE,
    Guard,
    effects_of,
    expr_guards,
    fmt_effect,
)
from ..flow import flow_of
from ..index import Def, attr_chain, public_functions, public_methods
from .runtime import facts_at
from ..runner import Ctx, exception, rule

HEAVY = (EXEC, STORE_CREATE, STORE_WRITE, STORE_DELETE)

AO = f"{A.AOBJ}.Array"
CONVERSIONS = ("__array__", "__bool__", "__complex__", "__float__", "__index__", "__int__")

# caller → {callee: condition}; condition None = unconditional, ("param", p) = only under the
# truthiness of caller's parameter p, ("isinstance-key",) = only for elements of the key that
# are cubed arrays.  Taken from the property text, not from the code.
ALLOWED_EDGES: dict[str, dict[str, tuple | None]] = {
    A.COMPUTE: {A.FP_EXECUTE: None},
    A.CORE_COMPUTE: {A.COMPUTE: None},
    f"{A.OPS}.store": {A.COMPUTE: ("param", "compute")},
    f"{A.OPS}.to_zarr": {A.CORE_COMPUTE: ("param", "compute")},
    f"{A.INDEXING}.index": {A.CORE_COMPUTE: ("isinstance-key",)},
    f"{A.ARRAY}.CoreArray.__getitem__": {f"{A.INDEXING}.index": None},
    f"{A.ARRAY}.measure_reserved_mem": {A.CORE_COMPUTE: None},
    "cubed.icechunk.store_icechunk": {A.COMPUTE: None},
    # execution-time layer: the create-arrays task and the storage backends below it
    f"{A.PLAN}.create_zarr_array": {f"{A.ST_ZARR}.LazyZarrArray.create": None},
    f"{A.ST_ZARR}.LazyZarrArray.create": {f"{A.ST_STORE}.open_storage_array": None},
    f"{A.ST_STORE}.open_storage_array": {f"{A.ST_V3}.open_zarr_v3_array": None},
}
for _c in CONVERSIONS:
    ALLOWED_EDGES[f"{AO}.{_c}"] = {A.CORE_COMPUTE: None}

# functions that may contain a primitive heavy site themselves
ALLOWED_PRIMITIVE_OWNERS = {
    A.FP_EXECUTE: (EXEC,),
    f"{A.ST_V3}.open_zarr_v3_array": (STORE_CREATE,),
    f"{A.PBW}.apply_blockwise": (STORE_WRITE,),
    f"{A.ST_V3}.ZarrV3ArrayGroup.set_basic_selection": (STORE_WRITE,),
}

ALLOWED_ENTRIES = {
    A.COMPUTE,
    A.CORE_COMPUTE,
    f"{A.OPS}.store",
    f"{A.OPS}.to_zarr",
    f"{A.ARRAY}.CoreArray.__getitem__",
    f"{A.ARRAY}.measure_reserved_mem",
    "cubed.icechunk.store_icechunk",
} | {f"{AO}.{c}" for c in CONVERSIONS}

exception(
    "LAZY-ENTRY-1",
    "cubed._testing._#1:edge:cubed.core.array.CoreArray.compute",
    "testing helper whose documented contract is to compute",
)


_EFF_CACHE: dict[int, dict] = {}


def _effective_edges(repo) -> dict[str, dict[str, tuple | None]]:
    """ALLOWED_EDGES plus private pass-through helpers: a private function of the same module
    whose every caller is one owner of unconditional allowed edges (or such a helper) is part
    of that owner — the owner may call it, and it may call what the owner may call.  Splitting
    an allowed function into private pieces does not widen who can reach storage."""
    if id(repo) in _EFF_CACHE:
        return _EFF_CACHE[id(repo)]
    eff_edges = {k: dict(v) for k, v in ALLOWED_EDGES.items()}
    callers: dict[str, set[str]] = {}
    for d, c, ts in repo.all_call_sites():
        if d is None:
            continue
        for t in ts:
            if t.kind == "def" and t.ref.is_func:
                callers.setdefault(t.ref.qual, set()).add(d.qual)
    changed = True
    while changed:
        changed = False
        for q, cs in callers.items():
            h = repo.defs.get(q)
            if h is None or not h.name.startswith("_") or h.name.startswith("__") or q in eff_edges:
                continue
            # (callers that are not owners are judged on their own edge to the helper: with
            # their arguments bound it either carries a heavy effect — reported — or not)
            owners = {c for c in cs if c in eff_edges and repo.defs.get(c) is not None and repo.defs[c].module is h.module}
            if len(owners) >= 1:
                inherited: dict[str, tuple | None] = {}
                for o in owners:
                    for callee, cond in eff_edges[o].items():
                        # (a conditional edge keeps its condition: it is checked at the
                        # helper's own call of the callee)
                        if callee not in inherited or cond is None:
                            inherited[callee] = cond
                if inherited:
                    eff_edges[q] = inherited
                    for o in owners:
                        eff_edges[o][q] = None
                    changed = True
    _EFF_CACHE[id(repo)] = eff_edges
    return eff_edges


_OWN_CACHE: dict[int, dict] = {}


def _effective_owners(repo) -> dict[str, tuple]:
    """ALLOWED_PRIMITIVE_OWNERS plus their private pieces: a private function of the same module
    whose *every* caller is an owner (or such a piece) may hold the kinds all its callers may
    hold.  Extracting the write loop of the task body into `_write_result` moves the site, not
    the set of callers that can reach storage."""
    if id(repo) in _OWN_CACHE:
        return _OWN_CACHE[id(repo)]
    owners: dict[str, tuple] = dict(ALLOWED_PRIMITIVE_OWNERS)
    callers: dict[str, set[str | None]] = {}
    for d, c, ts in repo.all_call_sites():
        for t in ts:
            if t.kind == "def" and t.ref.is_func:
                # a call made from a nested function / lambda counts for the enclosing function
                anc = d
                while anc is not None and anc.parent is not None and anc.parent.is_func:
                    anc = anc.parent
                callers.setdefault(t.ref.qual, set()).add(anc.qual if anc is not None else None)
    changed = True
    while changed:
        changed = False
        for q, cs in callers.items():
            h = repo.defs.get(q)
            if h is None or not h.name.startswith("_") or h.name.startswith("__") or q in owners:
                continue
            if None in cs or not all(c in owners and repo.defs.get(c) is not None and repo.defs[c].module is h.module for c in cs):
                continue
            kinds = set.intersection(*[set(owners[c]) for c in cs])
            if kinds:
                owners[q] = tuple(sorted(kinds))
                changed = True
    _OWN_CACHE[id(repo)] = owners
    return owners


def _below_boundary(d: Def) -> bool:
    """Executors and code that only runs inside tasks are below the laziness boundary."""
    q = d.module.qual
    return q.startswith("cubed.runtime.") or q.startswith("cubed.diagnostics.") or q.startswith("cubed.vendor.")


def heavy_edges(ctx: Ctx):
    repo = ctx.repo
    eff = effects_of(repo)
    for d in repo.functions():
        for n, ts, g, raw in eff.calls[d.qual]:
            for t in ts:
                if t.kind != "def" or not t.ref.is_func:
                    continue
                callee: Def = t.ref
                if eff._is_leaf(callee):
                    continue
                binding = eff.bind(n, callee, d)
                hv = []
                for e in eff.kinds(callee, *HEAVY):
                    ne = eff._translate(e, binding, g, raw, callee.qual, d.qual)
                    if ne is not None:
                        hv.append(ne)
                if hv:
                    yield d, n, callee, g, hv


@rule("LAZY-ENTRY-1", props=["C16", "C04"], floor=200)
def lazy_entry(ctx: Ctx) -> None:
    """effect closure: no public constructor/composer/plan/visualize entry point reaches an
    executor or a storage create/write/delete; execution-carrying call edges are exactly the
    ones the property allows, each under its stated condition"""
    repo = ctx.repo
    eff = effects_of(repo)
    # 1. boundary edges (each defect reported once, at the call that crosses the boundary)
    n_edges = 0
    for d, n, callee, g, hv in heavy_edges(ctx):
        if _below_boundary(d):
            continue
        n_edges += 1
        allowed = _effective_edges(repo).get(d.qual, {})
        sel = f"edge:{callee.qual}"
        own = _effective_owners(repo)
        if callee.qual not in allowed and callee.qual in own and callee.qual not in ALLOWED_PRIMITIVE_OWNERS and d.qual in own and all(e.kind in own[d.qual] for e in hv):
            ctx.ob(d, n, True, f"{callee.name} is a private piece of the primitive owner {d.name}", sel=sel, props=["C16", "C04"])
            continue
        if callee.qual not in allowed:
            ctx.ob(
                d,
                n,
                False,
                f"`{unparse(n.func)}` may run tasks or touch storage ({fmt_effect(hv[0])}); "
                "the property allows that only from compute / eager store / to_zarr / "
                "conversion to an in-memory value / indexing with a cubed array",
                sel=sel,
                props=["C16", "C04"],
            )
            continue
        cond = allowed[callee.qual]
        ok = True
        why = ""
        if cond is not None and cond[0] == "param":
            ok = Guard(cond[1], "truthy", (), True) in g
            why = f" only under `if {cond[1]}:`"
        elif cond is not None and cond[0] == "isinstance-key":
            ok = False
            fl = flow_of(repo, d)
            for t, pol in expr_guards(d, n) + [(t, p) for t, p, _ in _branch_conds(d, n)]:
                if (
                    pol
                    and isinstance(t, ast.Call)
                    and isinstance(t.func, ast.Name)
                    and t.func.id == "isinstance"
                    and len(t.args) == 2
                    and "CoreArray" in unparse(t.args[1])
                ):
                    recv = n.func.value if isinstance(n.func, ast.Attribute) else None
                    if recv is not None and ast.dump(recv) == ast.dump(t.args[0]):
                        ok = True
            why = " only for key elements that are cubed arrays"
        ctx.ob(
            d,
            n,
            ok,
            f"allowed execution edge {d.name} → {callee.name}{why}" + ("" if ok else " — the condition is missing on this path"),
            sel=sel,
            props=["C16", "C04"],
        )
    ctx.need(n_edges >= 8, f"only {n_edges} execution-carrying call edges found; call graph lost")
    # 2. primitive heavy sites live only in their owners
    for d in repo.functions():
        if _below_boundary(d):
            continue
        for e in eff.own[d.qual]:
            if e.kind in HEAVY:
                # (a lambda / nested function of an allowed owner is part of that owner)
                anc, ok = d, False
                while anc is not None and not ok:
                    ok = e.kind in _effective_owners(repo).get(anc.qual, ())
                    anc = anc.parent if anc.parent is not None and anc.parent.is_func else None
                if e.kind == STORE_DELETE:
                    continue  # CLEANUP-1 (C10) owns deletion sites
                ctx.ob(
                    d,
                    None,
                    ok,
                    f"primitive {e.kind} site `{e.what}` at {e.site}: allowed only in the executor entry, "
                    "the storage backend and the task body",
                    sel=f"prim:{e.kind}:{e.what}",
                    loc=e.site,
                    props=["C16", "C04"],
                )
    # 3. every public entry point
    entries = dict(public_functions(repo))
    entries.update(public_methods(repo))
    seen = set()
    for name, d in sorted(entries.items()):
        if d.qual in seen:
            continue
        seen.add(d.qual)
        hv = [e for e in eff.kinds(d, *HEAVY) if e.kind != STORE_DELETE]
        if d.qual in ALLOWED_ENTRIES:
            ctx.ob(d, None, True, f"entry point {name}: execution allowed by the property text", sel="entry", props=["C16"], nontrivial=bool(hv))
            continue
        ok = not hv
        ctx.ob(
            d,
            None,
            ok,
            f"entry point {name} must not run tasks or create/write storage"
            + ("" if ok else f" — reaches {fmt_effect(hv[0])}"),
            sel="entry",
            props=["C16"],
            nontrivial=True,
        )


def _branch_conds(d: Def, n: ast.AST):
    from ..cfg import cfg_of

    c = cfg_of(d)
    if not c.has(n):
        return []
    return c.branch_conditions(c.node_of(n))


@rule("LAZY-CREATE-1", props=["C16"], floor=6)
def lazy_create(ctx: Ctx) -> None:
    """lazy array objects and virtual arrays are constructed without touching storage; only the
    create-arrays task materialises metadata; from_zarr only reads"""
    repo = ctx.repo
    eff = effects_of(repo)
    ctors = [
        f"{A.ST_ZARR}.LazyZarrArray.__init__",
        f"{A.ST_ZARR}.lazy_zarr_array",
        "cubed.storage.types.ArrayMetadata.__init__",
        f"{A.PTYPES}.CubedArrayProxy.__init__",
    ]
    virt = repo.module(A.ST_VIRTUAL)
    for name, c in virt.defs.items():
        if c.kind == "class" and "__init__" in c.children:
            ctors.append(c.children["__init__"].qual)
    for q in ctors:
        d = repo.get(q)
        hv = eff.kinds(d, *HEAVY, "STORE_READ")
        ctx.ob(d, None, not hv, f"{q} touches no storage" + ("" if not hv else f" — {fmt_effect(hv[0])}"), sel="ctor")
    fz = repo.get(f"{A.OPS}.from_zarr")
    hv = eff.kinds(fz, *HEAVY)
    ctx.ob(fz, None, not hv, "from_zarr opens its source read-only (no create/write effect)" + ("" if not hv else f" — {fmt_effect(hv[0])}"), sel="read-only")
    # who may call LazyZarrArray.create
    create = repo.get(f"{A.ST_ZARR}.LazyZarrArray.create")
    cza = repo.get(f"{A.PLAN}.create_zarr_array")
    n = 0
    for d, c, ts in repo.all_call_sites():
        if any(t.kind == "def" and t.ref is create for t in ts):
            n += 1
            ctx.ob(d or "<module>", c, d is cza, "LazyZarrArray.create is called only by the create-arrays task function", sel="calls-create")
    ctx.need(n >= 1, "no caller of LazyZarrArray.create found")
    # create_zarr_array itself is never called at build time: it is only referenced as a
    # pipeline function
    for d, c, ts in repo.all_call_sites():
        if any(t.kind == "def" and t.ref is cza for t in ts):
            ctx.ob(d or "<module>", c, d is not None and _below_boundary(d), "create_zarr_array is run only by executors", sel="calls-create-task")


def _maybe_array_params(repo, d: Def) -> set[str]:
    """parameters of d that may hold a cubed array: used as an array, or handed to an array
    coercion/elementwise function; parameters that are iterated are sequences, not arrays"""
    from .align import _array_like_params

    ps = set(d.params)
    out = set(_array_like_params(repo, d)) & ps
    for c, ts in repo.calls_in(d):
        if any(t.kind == "def" and (t.ref.name in ("asarray", "elemwise", "_promote_scalars", "result_type", "blockwise", "map_blocks") or t.ref.module.qual.endswith("elementwise_functions")) for t in ts):
            for a in c.args:
                if isinstance(a, ast.Name) and a.id in ps:
                    out.add(a.id)
    seqs = set()
    for n in d.own_nodes():
        if isinstance(n, (ast.For, ast.comprehension)) and isinstance(n.iter, ast.Name):
            seqs.add(n.iter.id)
        if isinstance(n, ast.Starred) and isinstance(n.value, ast.Name):
            seqs.add(n.value.id)
    if d.vararg:
        seqs.add(d.vararg)
    return out - seqs - {"self"}


@rule("LAZY-IMPLICIT-1", props=["C16"], floor=30)
def lazy_implicit(ctx: Ctx) -> None:
    """no builder function truth-tests or converts a value that may be a cubed array
    (`if a > b:`, `bool(x)`, `int(x)`, `not x`): Array.__bool__/__int__/__float__ compute"""
    repo = ctx.repo
    scope = ("cubed.array_api", "cubed.core.ops", "cubed.array.", "cubed.core.gufunc", "cubed.core.indexing", "cubed.random", "cubed.core.groupby")
    n_funcs = 0
    for d in repo.functions():
        mq = d.module.qual
        if not mq.startswith(scope) or mq.endswith("array_object"):
            continue
        ap = _maybe_array_params(repo, d)
        # operator.index(p) / p.__index__() of *any* parameter that has not been shown to be a
        # plain number: Array.__index__ computes
        if d.parent is None and not d.name.startswith("_"):
            from ..cfg import cfg_of as _cfg_of

            for n in d.own_nodes():
                arg = None
                if isinstance(n, ast.Call) and (attr_chain(n.func) or "") in ("operator.index", "index") and n.args and isinstance(n.args[0], ast.Name) and n.args[0].id in d.params:
                    arg = n.args[0]
                elif isinstance(n, ast.Call) and isinstance(n.func, ast.Attribute) and n.func.attr == "__index__" and isinstance(n.func.value, ast.Name) and n.func.value.id in d.params:
                    arg = n.func.value
                if arg is None:
                    continue
                c_ = _cfg_of(d)
                guarded = False
                if c_.has(n):
                    for t, pol in facts_at(c_, c_.node_of(n)):
                        if pol and isinstance(t, ast.Call) and isinstance(t.func, ast.Name) and t.func.id == "isinstance" and isinstance(t.args[0], ast.Name) and t.args[0].id == arg.id and "Array" not in unparse(t.args[1]):
                            guarded = True
                ctx.ob(d, n, guarded, f"`{unparse(n, 40)}` converts parameter `{arg.id}` to an index" + (" after an isinstance check" if guarded else ": if it is a 0-d cubed array, Array.__index__ computes it — tasks run while the expression is being built"), sel=f"implicit:index:{arg.id}")
        if not ap:
            continue
        n_funcs += 1
        bad = []
        for n in d.own_nodes():
            tests = []
            if isinstance(n, (ast.If, ast.While, ast.IfExp, ast.Assert)):
                tests.append(n.test)
            elif isinstance(n, ast.Call) and isinstance(n.func, ast.Name) and n.func.id in ("bool", "int", "float", "complex") and n.args:
                tests.append(n.args[0])
            elif isinstance(n, ast.comprehension):
                tests += n.ifs
            for t in tests:
                atoms = []

                def split(e):
                    if isinstance(e, ast.BoolOp):
                        for v in e.values:
                            split(v)
                    elif isinstance(e, ast.UnaryOp) and isinstance(e.op, ast.Not):
                        split(e.operand)
                    else:
                        atoms.append(e)

                split(t)
                for a in atoms:
                    if isinstance(a, ast.Name) and a.id in ap:
                        bad.append((n, a))
                    elif isinstance(a, ast.Compare) and not any(isinstance(o, (ast.Is, ast.IsNot, ast.In, ast.NotIn)) for o in a.ops):
                        if any(isinstance(o, ast.Name) and o.id in ap for o in [a.left] + a.comparators):
                            bad.append((n, a))
        # an isinstance(...) scalar check on the same parameter earlier in the test makes the
        # comparison safe
        real = []
        for n, a in bad:
            names = {x.id for x in ast.walk(a) if isinstance(x, ast.Name) and x.id in ap}
            guarded = False
            cfg = None
            from ..cfg import cfg_of

            cfg = cfg_of(d)
            if cfg.has(a):
                for t, pol, _ in cfg.branch_conditions(cfg.node_of(a)):
                    if pol and isinstance(t, ast.Call) and isinstance(t.func, ast.Name) and t.func.id == "isinstance" and isinstance(t.args[0], ast.Name) and t.args[0].id in names and "Array" not in unparse(t.args[1]):
                        guarded = True
            test_txt = unparse(n.test if hasattr(n, "test") else a, 200)
            if "isinstance(" in test_txt and "Array" not in test_txt:
                guarded = True
            if not guarded:
                real.append((n, a))
        if not real:
            ctx.ob(d, None, True, f"no truth test / scalar conversion of possibly-array parameters {sorted(ap)}", sel="implicit")
        for n, a in real:
            ctx.ob(d, a, False, f"`{unparse(a, 50)}` is truth-tested/converted, but {sorted({x.id for x in ast.walk(a) if isinstance(x, ast.Name) and x.id in ap})} may be a cubed array: Array.__bool__ computes — a composing function would execute tasks while building", sel=f"implicit:{unparse(a, 40)}")
    ctx.need(n_funcs >= 30, f"only {n_funcs} builder functions with array parameters found")
