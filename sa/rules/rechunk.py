"""C14 (rechunk plans): the plumbing around the planner — what it is given, what becomes of
its stages, that every loop of the planning code is bounded.

Nothing here decides the planner's arithmetic (geometric spacing, floor, lcm, consolidation):
that is a fact about integers over an unbounded domain.  What is decided is the part of the
property whose truth is in the shape of the code:

* RECHUNK-PLAN-1   the planner receives the source chunking, the requested chunking, the shape,
                   the item size and the memory budget from the right places; the regular
                   planner is the one used when irregular chunks are not allowed; the *last*
                   copy of the last stage is written with the requested chunking; the roles of
                   a stage's three chunkings (read / intermediate / write) are kept
* RECHUNK-CHAIN-1  both consumers of the stage generator (rechunk, which executes it, and
                   rechunk_plan, which reports it) call it with the same forwarded arguments,
                   and the (copy chunks, target chunks) pairs reach the copy constructor in
                   their roles
* RECHUNK-TERM-1   termination: every loop reachable from the planning entry points iterates
                   over a finite collection that the body does not grow, no `while` loop
                   repeats without changing what its test reads, and the only recursion is the
                   strictly guarded argument swap of multspace
"""

from __future__ import annotations

import ast

from .. import anchors as A
from ..astutil import kwarg, unparse
from ..cfg import cfg_of
from ..flow import flow_of
from ..index import Def, attr_chain
from ..runner import Ctx, rule
from .runtime import facts_at

RECHUNK_MOD = "cubed.core.rechunk"
ALGO_MOD = "cubed.vendor.rechunker.algorithm"
IRREGULAR_PLANNER = f"{ALGO_MOD}.multistage_rechunking_plan"
REGULAR_PLANNER = f"{RECHUNK_MOD}.multistage_regular_rechunking_plan"
PLANNERS = (IRREGULAR_PLANNER, REGULAR_PLANNER)
PLAN_KW = ("shape", "source_chunks", "target_chunks", "itemsize", "min_mem", "max_mem")


def _deep(fl, e: ast.AST, at: int, depth: int = 8, seen=None):
    """every expression that contributes to the value of `e` at cfg node `at` (through local
    definitions): yields (expr, node)"""
    if seen is None:
        seen = set()
    yield e, at
    if depth <= 0:
        return
    for n in ast.walk(e):
        if isinstance(n, ast.Name) and isinstance(n.ctx, ast.Load):
            for s in fl.rdefs(n.id, at):
                k = (s.name, s.node, s.kind)
                if k in seen or s.value is None:
                    continue
                seen.add(k)
                v = s.value.value if s.kind == "aug" else s.value
                yield from _deep(fl, v, s.node, depth - 1, seen)


def _deep_attrs(fl, e, at) -> set[str]:
    return {n.attr for x, _ in _deep(fl, e, at) for n in ast.walk(x) if isinstance(n, ast.Attribute)}


def _deep_ops(fl, e, at) -> set[type]:
    return {type(n.op) for x, _ in _deep(fl, e, at) for n in ast.walk(x) if isinstance(n, ast.BinOp)}


def _planner_call(ctx: Ctx, f: Def):
    """the call that asks a planner for stages: the call carrying the planner's keyword API"""
    cands = [c for c in f.own_nodes() if isinstance(c, ast.Call) and kwarg(c, "source_chunks") is not None and kwarg(c, "target_chunks") is not None and kwarg(c, "max_mem") is not None]
    ctx.need(len(cands) == 1, f"{f.name}: expected one planner call (source_chunks=, target_chunks=, max_mem=), found {len(cands)}")
    return cands[0]


def _planner_choice(ctx: Ctx, f: Def, call: ast.Call, flag: str):
    """which planner is called when `flag` (allow_irregular) is true / false:
    {True: set(quals), False: set(quals)}"""
    repo = ctx.repo
    fl, cfg = flow_of(repo, f), cfg_of(f)
    at = cfg.node_of(call)

    def quals(e) -> set[str]:
        return {t.qual for t in repo.resolve_value(e, f, f.module) if t.kind == "def"} & set(PLANNERS)

    def flag_pol(test) -> bool | None:
        if isinstance(test, ast.Name) and test.id == flag:
            return True
        if isinstance(test, ast.UnaryOp) and isinstance(test.op, ast.Not):
            p = flag_pol(test.operand)
            return None if p is None else not p
        return None

    out = {True: set(), False: set()}

    def visit(e, node, assume: dict):
        if isinstance(e, ast.IfExp):
            p = flag_pol(e.test)
            if p is not None:
                for val, branch in ((True, e.body), (False, e.orelse)):
                    want = val if p else not val  # value of flag that selects this branch
                    if assume.get("flag", want) == want:
                        visit(branch, node, {**assume, "flag": want})
                return
            visit(e.body, node, assume)
            visit(e.orelse, node, assume)
            return
        if isinstance(e, ast.Name) and fl.rdefs(e.id, node):
            for s in fl.rdefs(e.id, node):
                if s.value is None or s.kind not in ("assign", "walrus"):
                    continue
                a = dict(assume)
                contradict = False
                for t, pol in facts_at(cfg, s.node):
                    p = flag_pol(t)
                    if p is not None:
                        v = pol if p else not pol
                        if a.get("flag", v) != v:
                            contradict = True
                        a["flag"] = v
                if not contradict:
                    visit(s.value, s.node, a)
            return
        q = quals(e)
        if q:
            for v in ((assume["flag"],) if "flag" in assume else (True, False)):
                out[v] |= q

    base = {}
    for t, pol in facts_at(cfg, at):
        p = flag_pol(t)
        if p is not None:
            base["flag"] = pol if p else not pol
    visit(call.func, at, base)
    return out


def _stage_loop(ctx: Ctx, f: Def, call: ast.Call):
    """the loop over the planner's stages: (for-node, stage variable names, index variable)"""
    fl, cfg = flow_of(ctx.repo, f), cfg_of(f)
    for n in cfg.stmts((ast.For,)):
        it = n.stmt.iter
        src = it
        idx = None
        if isinstance(it, ast.Call) and isinstance(it.func, ast.Name) and it.func.id == "enumerate" and it.args:
            src = it.args[0]
            if isinstance(n.stmt.target, ast.Tuple) and isinstance(n.stmt.target.elts[0], ast.Name):
                idx = n.stmt.target.elts[0].id
                st_ = it.args[1] if len(it.args) > 1 else kwarg(it, "start")
                if st_ is not None:
                    # the index counts from `start`: only a constant start is understood
                    idx = (idx, st_.value) if isinstance(st_, ast.Constant) and isinstance(st_.value, int) else None
        if isinstance(src, ast.Name) and any(s.value is call for s in fl.rdefs(src.id, n.id)):
            return n, src.id, idx
        if src is call:
            return n, None, idx
    ctx.need(False, f"{f.name}: no loop over the planner's stages")


def _lin(e: ast.AST, idx: str | None, stages: str | None, fl, at, depth: int = 4):
    """`e` as a linear form over i (the stage index), n (the number of stages) and 1"""
    if depth <= 0:
        return None
    if isinstance(e, ast.Constant) and isinstance(e.value, int) and not isinstance(e.value, bool):
        return {"1": e.value}
    if isinstance(e, ast.Call) and isinstance(e.func, ast.Name) and e.func.id == "len" and len(e.args) == 1:
        if stages is None or unparse(e.args[0]) == stages:
            return {"n": 1}
        return None
    if isinstance(e, ast.Name):
        if isinstance(idx, tuple) and e.id == idx[0]:
            return {"i": 1, "1": idx[1]}
        if idx is not None and e.id == idx:
            return {"i": 1}
        ds = fl.rdefs(e.id, at)
        if len(ds) == 1 and ds[0].kind in ("assign", "walrus") and ds[0].value is not None:
            return _lin(ds[0].value, idx, stages, fl, ds[0].node, depth - 1)
        return None
    if isinstance(e, ast.BinOp) and isinstance(e.op, (ast.Add, ast.Sub)):
        a, b = _lin(e.left, idx, stages, fl, at, depth - 1), _lin(e.right, idx, stages, fl, at, depth - 1)
        if a is None or b is None:
            return None
        sg = 1 if isinstance(e.op, ast.Add) else -1
        return {k: a.get(k, 0) + sg * b.get(k, 0) for k in set(a) | set(b)}
    return None


def _last_test_kind(e: ast.AST, idx: str | None, stages: str | None, fl, at) -> str | None:
    """'last' for a test equivalent to i == len(stages) - 1 (any arrangement, or a name defined
    as that); 'off' for i == len(stages) + k with k != -1 (never / wrongly true); None if the
    expression is not a comparison of the stage index with the number of stages"""
    if isinstance(e, ast.Name):
        ds = [s for s in fl.rdefs(e.id, at)]
        if ds and all(s.kind in ("assign", "walrus") and s.value is not None for s in ds):
            kinds = {_last_test_kind(s.value, idx, stages, fl, s.node) for s in ds}
            if len(kinds) == 1:
                return kinds.pop()
        return None
    if isinstance(e, ast.Compare) and len(e.ops) == 1 and isinstance(e.ops[0], ast.Eq):
        a, b = _lin(e.left, idx, stages, fl, at), _lin(e.comparators[0], idx, stages, fl, at)
        if a is None or b is None:
            return None
        d = {k: a.get(k, 0) - b.get(k, 0) for k in set(a) | set(b)}
        if d.get("i", 0) == 0 or d.get("n", 0) == 0:
            return None
        if d.get("i") < 0:
            d = {k: -v for k, v in d.items()}
        if d.get("i") == 1 and d.get("n") == -1:
            return "last" if d.get("1", 0) == 1 else "off"
    return None


def _is_last_test(e, idx, stages, fl, at) -> bool:
    return _last_test_kind(e, idx, stages, fl, at) == "last"


def _body_paths(cfg, header: int, limit: int = 400):
    """acyclic paths through one iteration of the loop `header`: lists of (node id, label taken)"""
    out = []

    def dfs(nid, path, seen):
        if len(out) >= limit:
            return
        for s, lab in cfg.nodes[nid].succ:
            if lab in ("raise", "assert-fail"):
                continue
            if s == header or not cfg.in_loop(s, header):
                out.append(path + [(nid, lab)])
                continue
            if s in seen:
                continue
            dfs(s, path + [(nid, lab)], seen | {s})

    for s, lab in cfg.nodes[header].succ:
        if lab == "body":
            dfs(s, [], {s})
    return out


WRAPPERS = {"to_chunksize", "normalize_chunks", "tuple", "list"}


@rule("RECHUNK-PLAN-1", props=["C14"], floor=12)
def rechunk_plan(ctx: Ctx) -> None:
    """the stage generator hands the planner the source chunking, the requested chunking, the
    shape, the item size and a budget derived from allowed_mem - reserved_mem over all buffer
    copies; chooses the regular planner when irregular chunks are not allowed; and writes the
    last copy of the last stage with the requested chunking"""
    repo = ctx.repo
    f = repo.get(f"{A.OPS}._rechunk_plan")
    fl, cfg = flow_of(repo, f), cfg_of(f)
    ctx.need(len(f.params) >= 2, "_rechunk_plan(x, chunks, ...) signature changed")
    px, pchunks = f.params[0], f.params[1]
    call = _planner_call(ctx, f)
    at = cfg.node_of(call)

    def prov(name):
        v = kwarg(call, name)
        ctx.need(v is not None, f"planner call has no {name}=")
        return v, fl.taint(v, at, through_calls=True), _deep_attrs(fl, v, at)

    v, t, attrs = prov("source_chunks")
    ok = px in t and pchunks not in t and "chunks" in attrs | ({"chunks"} if "chunksize" in attrs else set())
    ctx.ob(f, call, ok, f"the planner's source chunking is the operand's own chunking (`{px}.chunks`), nothing of the request" + ("" if ok else f" — `{unparse(v, 50)}` derives from {sorted(t)} (attributes {sorted(attrs)[:6]}): the plan no longer starts at the chunking the data is stored with"), sel="plan:source", firm=(px not in t or pchunks in t) or not ctx.delegated(f))
    v_t, t, attrs = prov("target_chunks")
    ok = pchunks in t
    ctx.ob(f, call, ok, f"the planner's target chunking derives from the requested `{pchunks}`" + ("" if ok else f" — `{unparse(v_t, 50)}` derives from {sorted(t)} only"), sel="plan:target", firm=True)
    v, t, attrs = prov("shape")
    ok = px in t and pchunks not in t and "shape" in attrs
    ctx.ob(f, call, ok, f"the planner's shape is `{px}.shape`" + ("" if ok else f" — `{unparse(v, 50)}`"), sel="plan:shape", firm=(px not in t or pchunks in t) or not ctx.delegated(f))
    v, t, attrs = prov("itemsize")
    ok = px in t and pchunks not in t and ("dtype" in attrs or "itemsize" in attrs)
    ctx.ob(f, call, ok, f"the planner's item size is that of `{px}.dtype`" + ("" if ok else f" — `{unparse(v, 50)}`"), sel="plan:itemsize", firm=(px not in t or pchunks in t) or not ctx.delegated(f))
    v, t, attrs = prov("max_mem")
    ops = _deep_ops(fl, v, at)
    missing = [a for a in ("allowed_mem", "reserved_mem", "read", "write") if a not in attrs]
    ok = not missing and ast.Sub in ops and (ast.FloorDiv in ops or ast.Div in ops)
    ctx.ob(
        f,
        call,
        ok,
        "the planner's budget is (allowed_mem - reserved_mem) divided by the number of chunk copies a task holds, read and write buffer copies included"
        + ("" if ok else f" — `{unparse(v, 50)}` is built without {missing or 'the subtraction / division'}: stages are planned against more memory than a task may use"),
        sel="plan:budget",
        firm=not ctx.delegated(f),
    )
    v, t, attrs = prov("min_mem")
    v_max = kwarg(call, "max_mem")
    same = unparse(v) == unparse(v_max)
    ctx.ob(f, call, not same, "min_mem and max_mem are different quantities" + ("" if not same else " — the same expression is passed for both"), sel="plan:min-max", firm=True)

    # -- which planner -------------------------------------------------------------------
    flag = "allow_irregular"
    ctx.need(flag in f.params, "_rechunk_plan has no allow_irregular parameter")
    choice = _planner_choice(ctx, f, call, flag)
    ctx.need(choice[True] or choice[False], "planner callee not resolved")
    ok = choice[False] == {REGULAR_PLANNER}
    ctx.ob(
        f,
        call,
        ok,
        "with allow_irregular false the stages come from the regular planner (the one that re-aligns copy chunks with the chunks they are written to)"
        + ("" if ok else f" — they come from {sorted(q.rsplit('.', 1)[-1] for q in choice[False]) or 'nothing recognisable'}: intermediate copies no longer line up with regular stored chunks"),
        sel="plan:dispatch-regular",
        firm=bool(choice[False]),
    )
    ok = IRREGULAR_PLANNER in choice[True] or choice[True] == {REGULAR_PLANNER}
    ctx.ob(f, call, ok, "with allow_irregular true a planner is called", sel="plan:dispatch-irregular")

    # -- what becomes of the stages --------------------------------------------------------
    loop, stages_name, idx = _stage_loop(ctx, f, call)
    header = loop.id
    loopvars = {n.id for n in ast.walk(loop.stmt.target) if isinstance(n, ast.Name)}
    yields = [n for n in cfg.stmts((ast.Expr,)) if isinstance(n.stmt.value, ast.Yield) and cfg.in_loop(n.id, header)]
    ctx.need(yields, "the stage loop yields nothing")
    target_defs = {(s.name, s.node) for n in ast.walk(v_t) if isinstance(n, ast.Name) for s in fl.rdefs(n.id, at)}

    def last_pol(test, node) -> bool | None:
        if _is_last_test(test, idx, stages_name, fl, node):
            return True
        return None

    def stage_index(s) -> int | None:
        """position in the stage triple if definition `s` unpacks the loop's stage variable"""
        if s.kind in ("unpack", "assign", "for") and s.value is not None:
            src = s.value
            if s.kind != "for" and isinstance(src, (ast.Tuple, ast.List)) and len(s.index) == 1 and isinstance(s.index[0], int) and s.index[0] < len(src.elts):
                # a, b, c = stage[0], stage[1], stage[2]
                el = src.elts[s.index[0]]
                if isinstance(el, ast.Subscript) and isinstance(el.value, ast.Name) and el.value.id in loopvars and isinstance(el.slice, ast.Constant):
                    return el.slice.value
                return None
            if s.kind == "for":
                # for i, (r, m, w) in enumerate(stages): index path (1, k)
                return s.index[-1] if s.index and isinstance(s.index[-1], int) and len(s.index) >= (2 if idx is not None else 1) and s.name != (idx[0] if isinstance(idx, tuple) else idx) else None
            if isinstance(src, ast.Name) and src.id in loopvars and s.index:
                return s.index[-1] if isinstance(s.index[-1], int) else None
            if isinstance(src, ast.Subscript) and isinstance(src.value, ast.Name) and src.value.id in loopvars and isinstance(src.slice, ast.Constant):
                return src.slice.value
        return None

    def origins(e, node, assume_last: bool, depth=8) -> set:
        """atoms the value of `e` comes from: ('stage', k) | ('requested',) | ('other', text)"""
        if depth <= 0:
            return {("other", "?")}
        if isinstance(e, ast.IfExp):
            p = last_pol(e.test, node)
            if p is None and isinstance(e.test, ast.UnaryOp) and isinstance(e.test.op, ast.Not) and last_pol(e.test.operand, node):
                return origins(e.orelse if assume_last else e.body, node, assume_last, depth - 1)
            if p is not None:
                return origins(e.body if assume_last else e.orelse, node, assume_last, depth - 1)
            a_, b_ = origins(e.body, node, assume_last, depth - 1), origins(e.orelse, node, assume_last, depth - 1)
            if {x[0] for x in a_} != {x[0] for x in b_}:
                # a choice between the requested chunking and a stage's own, under a test
                # that is not understood as "this is the last stage"
                return {("other", f"choice under `{unparse(e.test, 30)}`")}
            return a_ | b_
        if isinstance(e, ast.Call) and isinstance(e.func, ast.Name) and e.func.id in WRAPPERS and e.args:
            return origins(e.args[0], node, assume_last, depth - 1)
        if isinstance(e, ast.Name):
            out = set()
            for s in fl.rdefs(e.id, node):
                facts = facts_at(cfg, s.node)
                skip = False
                for t_, pol in facts:
                    if last_pol(t_, s.node) and pol != assume_last and cfg.in_loop(s.node, header):
                        skip = True
                if skip:
                    continue
                k = stage_index(s)
                if k is not None:
                    out.add(("stage", k))
                elif (s.name, s.node) in target_defs:
                    out.add(("requested",))
                elif s.kind == "param":
                    out.add(("requested",) if s.name == pchunks else ("other", s.name))
                elif s.value is not None and s.kind in ("assign", "walrus"):
                    out |= origins(s.value, s.node, assume_last, depth - 1)
                else:
                    out.add(("other", s.name))
            return out or {("other", e.id)}
        if isinstance(e, ast.Subscript) and isinstance(e.value, ast.Name) and e.value.id in loopvars and isinstance(e.slice, ast.Constant):
            return {("stage", e.slice.value)}
        return {("other", unparse(e, 30))}

    for n in [n for n in cfg.nodes if n.stmt is not None and cfg.in_loop(n.id, header)]:
        exprs = [n.stmt.test] if n.kind in ("if", "while") else list(ast.walk(n.stmt)) if n.kind == "stmt" else []
        for x in exprs:
            if isinstance(x, ast.Compare) and _last_test_kind(x, idx, stages_name, fl, n.id) == "off":
                ctx.ob(f, x, False, f"the last stage is recognised by comparing the stage index with the number of stages minus one — `{unparse(x, 40)}` is off by one: the closing copy is never (or too early) written with the requested chunking", sel="plan:last-test", firm=True)
    paths = _body_paths(cfg, header)
    ctx.need(paths, "no path through the stage loop")
    n_last = 0
    for path in paths:
        feasible = True
        for nid, lab in path:
            nd = cfg.nodes[nid]
            if nd.kind == "if" and lab in ("true", "false"):
                from .runtime import conjuncts

                for t_, pol in conjuncts(nd.stmt.test, lab == "true"):
                    if last_pol(t_, nid) and pol is False:
                        feasible = False
        if not feasible:
            continue
        n_last += 1
        ys = [nid for nid, _ in path if isinstance(cfg.nodes[nid].stmt, ast.Expr) and isinstance(cfg.nodes[nid].stmt.value, ast.Yield)]
        conds = " and ".join(f"{'' if lab == 'true' else 'not '}({unparse(cfg.nodes[nid].stmt.test, 30)})" for nid, lab in path if cfg.nodes[nid].kind == "if") or "always"
        if not ys:
            ctx.ob(f, loop.stmt, False, f"the last stage emits a copy on every path — none on the path [{conds}]: the plan does not end at the requested chunking", sel=f"plan:last-target:{ctx.anon(f, ast.parse(conds.replace('always', 'True'), mode='eval').body, 60) if conds != 'always' else 'always'}", firm=True)
            continue
        y = cfg.nodes[ys[-1]].stmt.value.value
        ctx.need(isinstance(y, ast.Tuple) and len(y.elts) == 2, f"a stage yield is not a (copy chunks, target chunks) pair: `{unparse(y, 40)}`")
        o = origins(y.elts[1], ys[-1], True)
        bad = sorted(x for x in o if x[0] == "stage")
        unk = sorted(x for x in o if x[0] == "other")
        if unk and not bad:
            ctx.need(False, f"origin of the last stage's target chunking not understood: `{unparse(y.elts[1], 40)}` ← {unk}")
        ok = not bad
        ctx.ob(
            f,
            cfg.nodes[ys[-1]].stmt,
            ok,
            f"the final copy of the last stage is written with the requested chunking (path [{conds}])"
            + ("" if ok else f" — `{unparse(y.elts[1], 40)}` is the planner's own {['read', 'intermediate', 'write'][bad[0][1]] if isinstance(bad[0][1], int) and bad[0][1] < 3 else 'stage'} chunking (consolidated up to the memory budget): the result does not have the chunks that were asked for"),
            sel=f"plan:last-target:{'-'.join(lab for nid, lab in path if cfg.nodes[nid].kind == 'if') or 'straight'}",
            firm=True,
        )
    ctx.need(n_last > 0, "no feasible last-stage path through the stage loop")

    # roles of the stage triple: the copy grid of a yielded pair is the stage's read (or, for
    # the closing copy, write) chunking; an intermediate target is the stage's intermediate
    # or write chunking — never the read chunking as a target
    for n in yields:
        y = n.stmt.value.value
        if not (isinstance(y, ast.Tuple) and len(y.elts) == 2):
            continue
        for assume in (True, False):
            oc = origins(y.elts[0], n.id, assume)
            ot = origins(y.elts[1], n.id, assume)
            sc = {x[1] for x in oc if x[0] == "stage"}
            st = {x[1] for x in ot if x[0] == "stage"}
            if not sc or any(x[0] == "other" for x in oc | ot):
                continue
            # copy = read(0): target in {int(1), write(2), requested}; copy = write(2): target in {write(2), requested}
            bad = (0 in st) or (sc == {2} and 1 in st) or (1 in sc) or (("requested",) in oc)
            ctx.ob(
                f,
                n.stmt,
                not bad,
                f"`{unparse(y, 50)}`: copy chunks are a stage's read (or closing write) chunking and the target is what that copy writes to"
                + ("" if not bad else f" — copy ← stage{sorted(sc)}, target ← stage{sorted(st)}: the roles of the stage triple are mixed up"),
                sel=f"plan:stage-roles:{'last' if assume else 'inner'}:copy{sorted(sc)}:target{sorted(st) or 'requested'}",
                firm=True,
            )


@rule("RECHUNK-CHAIN-1", props=["C14"], floor=12)
def rechunk_chain(ctx: Ctx) -> None:
    """the two consumers of the stage generator — rechunk (executes the stages) and
    rechunk_plan (reports them) — call it with the same forwarded arguments, so the plan that
    is shown is the plan that runs; each (copy chunks, target chunks) pair reaches the copy
    constructor in its roles"""
    repo = ctx.repo
    gen = repo.get(f"{A.OPS}._rechunk_plan")
    consumers = [repo.get(f"{A.OPS}.rechunk"), repo.get(f"{RECHUNK_MOD}.rechunk_plan")]
    # every function of the package that offers one of rechunk's options under the same name
    # and calls rechunk / rechunk_plan hands it on (CoreArray.rechunk, wrappers)
    OPTIONS = [p_ for p_ in gen.params[2:]]
    for d_, c_, ts_ in repo.all_call_sites():
        if d_ is None or d_ in consumers or d_ is gen or d_.module.qual.startswith(("cubed.vendor.", "cubed.tests")):
            continue
        tq = [t for t in ts_ if t.kind == "def" and t.ref in consumers]
        if not tq:
            continue
        callee = tq[0].ref
        dfl, dcfg = flow_of(repo, d_), cfg_of(d_)
        if not dcfg.has(c_):
            continue
        kw = {k.arg: k.value for k in c_.keywords if k.arg}
        star = any(k.arg is None for k in c_.keywords)
        for opt in OPTIONS:
            if opt not in d_.params or opt not in callee.params:
                continue
            v = kw.get(opt)
            if v is None and star:
                continue
            ok = v is not None and opt in dfl.taint(v, dcfg.node_of(c_))
            ctx.ob(d_, c_, ok, f"{d_.name} offers `{opt}` and hands it on to {callee.name}" + ("" if ok else f" — it does not: `{opt}` given to {d_.name} has no effect, the default of {callee.name} is used instead"), sel=f"chain:wrapper-forward:{opt}", firm=True)
    for c in consumers:
        fl, cfg = flow_of(repo, c), cfg_of(c)
        calls = repo.calls_to(c, gen.qual)
        ctx.need(len(calls) == 1, f"{c.name} does not call _rechunk_plan exactly once")
        call = calls[0]
        at = cfg.node_of(call)
        # positional / keyword -> generator parameter
        bound: dict[str, ast.AST] = {}
        for i, a in enumerate(call.args):
            if i < len(gen.params):
                bound[gen.params[i]] = a
        for k in call.keywords:
            if k.arg:
                bound[k.arg] = k.value
        for p in gen.params:
            if p not in c.params:
                continue
            v = bound.get(p)
            if v is None:
                # a keyword-only option with a default, not forwarded: the consumer's own
                # parameter of that name is silently ignored
                ctx.ob(c, call, False, f"{c.name} forwards its `{p}` to the stage generator — it is not passed: the option has no effect on the plan", sel=f"chain:forward:{p}", firm=True)
                continue
            t = fl.taint(v, at)
            others = {q for q in c.params if q != p and q in gen.params}
            ok = p in t and not (t & others)
            ctx.ob(c, call, ok, f"{c.name} forwards its `{p}` to the stage generator's `{p}`" + ("" if ok else f" — `{unparse(v, 40)}` derives from {sorted(t)}"), sel=f"chain:forward:{p}", firm=True)
    # the reported plan is a chain: what a copy reads from is what the previous copy wrote
    rp = consumers[1]
    rfl, rcfg = flow_of(repo, rp), cfg_of(rp)
    rgen = repo.calls_to(rp, gen.qual)[0]
    for rc_ in [x for x in rp.own_nodes() if isinstance(x, ast.Call) and any(t.kind in ("class", "def") and t.qual.endswith("RechunkCopy") for t in repo.resolve_call(x, rp, rp.module))]:
        src = rc_.args[1] if len(rc_.args) > 1 else kwarg(rc_, "source_chunks")
        if not isinstance(src, ast.Name) or not rcfg.has(rc_):
            continue
        carried = [s_ for s_ in rfl.rdefs(src.id, rcfg.node_of(rc_)) if s_.kind == "assign" and rcfg.nodes[s_.node].loops]
        ctx.need(carried, "rechunk_plan: the reported source chunks are not carried from one copy to the next")
        for s_ in carried:
            idxs = set()
            for n in ast.walk(s_.value):
                if isinstance(n, ast.Name):
                    for d2 in rfl.rdefs(n.id, s_.node):
                        if d2.kind == "for" and d2.value is not None and any(x is rgen for x in ast.walk(d2.value)) and d2.index and isinstance(d2.index[-1], int):
                            idxs.add(d2.index[-1])
            ctx.need(idxs, f"rechunk_plan: `{unparse(s_.value, 30)}` is not an element of the planned pairs")
            ok = idxs == {1}
            ctx.ob(rp, rcfg.nodes[s_.node].stmt, ok, "the next reported copy reads from the chunks the previous one wrote (element 1 of the pair)" + ("" if ok else " — it is set to the previous copy's *copy* chunks: the reported stages no longer describe the arrays that are built"), sel="chain:report-source", firm=True)

    # roles of the pair at the copy constructor
    r = consumers[0]
    fl, cfg = flow_of(repo, r), cfg_of(r)
    cons = repo.get(f"{A.OPS}._rechunk")
    cs = repo.calls_to(r, cons.qual)
    ctx.need(len(cs) == 1, "rechunk does not call _rechunk exactly once")
    c = cs[0]
    at = cfg.node_of(c)
    bound = {}
    for i, a in enumerate(c.args):
        if i < len(cons.params):
            bound[cons.params[i]] = a
    for k in c.keywords:
        if k.arg:
            bound[k.arg] = k.value
    ctx.need(len(cons.params) >= 3, "_rechunk(x, copy_chunks, target_chunks, ...) signature changed")
    gen_call = repo.calls_to(r, gen.qual)[0]
    for pos, pname in ((0, cons.params[1]), (1, cons.params[2])):
        v = bound.get(pname)
        ctx.need(v is not None, f"_rechunk call passes no {pname}")
        idxs = set()
        for n in ast.walk(v):
            if isinstance(n, ast.Name):
                for s in fl.rdefs(n.id, at):
                    if s.kind == "for" and s.value is not None and any(x is gen_call for x in ast.walk(s.value)) and s.index and isinstance(s.index[-1], int):
                        idxs.add(s.index[-1])
        ctx.need(idxs, f"`{unparse(v, 30)}` passed as {pname} is not an element of the generator's pairs")
        ok = idxs == {pos}
        ctx.ob(r, c, ok, f"element {pos} of each planned pair is passed to _rechunk as `{pname}`" + ("" if ok else f" — element {sorted(idxs)} is: copy grid and storage grid are exchanged"), sel=f"chain:role:{pname}", firm=True)
    # the array a stage copies from is the previous stage's result (or the operand for the
    # first): the accumulator is re-bound with the constructor's result and returned
    first = bound.get(cons.params[0])
    stmt = next((n.stmt for n in cfg.stmts((ast.Assign,)) if n.stmt.value is c), None)
    rets = [n for n in cfg.returns() if n.stmt.value is not None]
    ok = stmt is not None and isinstance(stmt.targets[0], ast.Name) and bool(rets) and all(isinstance(n.stmt.value, ast.Name) and n.stmt.value.id == stmt.targets[0].id for n in rets)
    ctx.ob(r, c, ok, "rechunk returns the result of the last copy it built", sel="chain:returns-last")
    flag = "allow_irregular"
    if flag in cons.params and flag in r.params:
        v = bound.get(flag)
        ok = v is not None and flag in fl.taint(v, at)
        ctx.ob(r, c, ok, "the copy constructor is told whether irregular chunks are allowed", sel="chain:forward-copy:allow_irregular")

    # a request object (dict / list chunk spec) belongs to the caller: the rechunk functions
    # normalise a copy, never the argument itself — otherwise the next array rechunked with
    # the same spec object is planned towards the first array's block sizes
    MUT = {"pop", "update", "setdefault", "clear", "popitem", "append", "extend", "insert", "remove", "sort", "reverse", "__setitem__", "__delitem__"}
    for fn in (gen, consumers[0], consumers[1], cons):
        ffl, fcfg = flow_of(repo, fn), cfg_of(fn)
        hits = []
        for n in fn.own_nodes():
            recv = None
            if isinstance(n, (ast.Assign, ast.AugAssign, ast.Delete)):
                tg = n.targets if isinstance(n, (ast.Assign, ast.Delete)) else [n.target]
                for t in tg:
                    if isinstance(t, ast.Subscript) and isinstance(t.value, ast.Name):
                        recv = t.value
            elif isinstance(n, ast.Call) and isinstance(n.func, ast.Attribute) and n.func.attr in MUT and isinstance(n.func.value, ast.Name):
                recv = n.func.value
            if recv is None or not fcfg.has(n):
                continue
            ds = ffl.rdefs(recv.id, fcfg.node_of(n))
            if any(s_.kind == "param" for s_ in ds) and recv.id in fn.params:
                hits.append((n, recv.id))
        ctx.ob(
            fn,
            hits[0][0] if hits else None,
            not hits,
            f"{fn.name} leaves its arguments as the caller passed them"
            + ("" if not hits else f" — `{unparse(hits[0][0], 50)}` changes the caller's `{hits[0][1]}` object in place: a chunk specification reused for a second array carries the first array's sizes"),
            sel=f"chain:request-intact:{fn.name}",
            firm=True,
        )

    # the regular path of the copy constructor stores with the chunks it was asked for
    f = cons
    fl, cfg = flow_of(repo, f), cfg_of(f)
    ms = repo.calls_to(f, f"{A.OPS}.map_selection")
    ctx.need(len(ms) == 1, "_rechunk does not call map_selection once")
    tc = kwarg(ms[0], "target_chunks_")
    ctx.need(isinstance(tc, ast.Name), "_rechunk passes no target_chunks_ name")
    if flag in f.params:
        sites = fl.rdefs(tc.id, cfg.node_of(ms[0]))
        regular = [s for s in sites if any((not pol) and isinstance(t, ast.Name) and t.id == flag for t, pol in facts_at(cfg, s.node))]
        ctx.need(regular, "no definition of the storage chunks on the regular path")
        for s in regular:
            t = fl.taint(s.value, s.node) if s.value is not None else set()
            ok = f.params[2] in t and f.params[1] not in t
            ctx.ob(f, cfg.nodes[s.node].stmt, ok, f"regular rechunk: the storage chunks derive from `{f.params[2]}` alone" + ("" if ok else f" — from {sorted(t)}: the array is stored with the copy grid, not with the chunks asked for"), sel="chain:regular-target", firm=True)


INFINITE_ITERS = {"itertools.count", "itertools.cycle", "itertools.repeat", "count", "cycle", "repeat"}
GROWERS = {"append", "extend", "insert", "add", "update", "appendleft"}


@rule("RECHUNK-TERM-1", props=["C14"], floor=10)
def rechunk_term(ctx: Ctx) -> None:
    """termination of planning: every loop reachable from rechunk / rechunk_plan inside the
    planning modules iterates over a finite collection its body does not grow; a `while`
    loop changes something its test reads on every way round; recursion occurs only as a
    strictly guarded exchange of two arguments"""
    repo = ctx.repo
    entry = [repo.get(f"{A.OPS}.rechunk"), repo.get(f"{RECHUNK_MOD}.rechunk_plan"), repo.get(f"{A.OPS}._rechunk_plan")]
    mods = {RECHUNK_MOD, ALGO_MOD}
    extra = {f"{A.OPS}.split_chunks", f"{A.OPS}.split_chunksizes", f"{A.OPS}._rechunk", f"{A.OPS}._rechunk_plan", f"{A.OPS}.rechunk"}
    seen: dict[str, Def] = {}
    edges: dict[str, set[str]] = {}
    work = list(entry)
    while work:
        d = work.pop()
        if d.qual in seen:
            continue
        seen[d.qual] = d
        edges[d.qual] = set()
        for call, ts in repo.calls_in(d):
            for t in ts:
                if t.kind == "def" and t.ref.is_func and (t.ref.module.qual in mods or t.qual in extra):
                    edges[d.qual].add(t.qual)
                    work.append(t.ref)
        for ch in d.children.values():
            if ch.is_func:
                work.append(ch)
    ctx.need(REGULAR_PLANNER in seen and IRREGULAR_PLANNER in seen, "planners not reachable from rechunk")
    ctx.note(f"termination scope: {len(seen)} functions: {', '.join(sorted(q.rsplit('.', 1)[-1] for q in seen))}")
    for q, d in sorted(seen.items()):
        cfg = cfg_of(d)
        fl = flow_of(repo, d)
        for n in cfg.stmts((ast.For,)):
            it = n.stmt.iter
            chain = attr_chain(it.func) if isinstance(it, ast.Call) else None
            tq = {t.qual for t in repo.resolve_call(it, d, d.module)} if isinstance(it, ast.Call) else set()
            infinite = bool(chain) and (chain in INFINITE_ITERS or any(x.startswith("itertools.") and x.rsplit(".", 1)[-1] in ("count", "cycle", "repeat") for x in tq))
            if infinite and chain and chain.endswith("repeat") and isinstance(it, ast.Call) and (len(it.args) > 1 or kwarg(it, "times") is not None):
                infinite = False
            two_arg_iter = isinstance(it, ast.Call) and isinstance(it.func, ast.Name) and it.func.id == "iter" and len(it.args) == 2
            grown = None
            base = it
            while isinstance(base, ast.Call) and isinstance(base.func, ast.Name) and base.func.id in ("enumerate", "reversed", "iter") and base.args:
                base = base.args[0]
            if isinstance(base, ast.Name):
                for x in ast.walk(n.stmt):
                    if x is not n.stmt.iter and isinstance(x, ast.Call) and isinstance(x.func, ast.Attribute) and x.func.attr in GROWERS and isinstance(x.func.value, ast.Name) and x.func.value.id == base.id:
                        grown = x
            ok = not infinite and not two_arg_iter and grown is None
            why = "an unbounded iterator" if infinite or two_arg_iter else (f"`{unparse(grown, 40)}` grows the collection being iterated" if grown is not None else "")
            ctx.ob(d, n.stmt, ok, f"`for … in {unparse(it, 40)}` iterates a finite collection that its body does not grow" + ("" if ok else f" — {why}: the search for a plan has no bound of its own any more"), sel=f"term:for:{ctx.anon(d, it, 50)}", firm=True, key_node=it)
        for n in cfg.stmts((ast.While,)):
            test = n.stmt.test
            read = {x.id for x in ast.walk(test) if isinstance(x, ast.Name)}
            exits = [m for m in cfg.nodes if m.stmt is not None and cfg.in_loop(m.id, n.id) and isinstance(m.stmt, (ast.Break, ast.Return, ast.Raise))]
            if isinstance(test, ast.Constant) and bool(test.value):
                if not exits:
                    ctx.ob(d, n.stmt, False, "`while True` has a way out — it has none (no break, return or raise in its body)", sel="term:while:True", firm=True, key_node=test)
                    continue
                # what decides leaving the loop is what the tests in front of its exits read
                for m in exits:
                    for t_, _, b_ in cfg.branch_conditions(m.id):
                        if cfg.in_loop(b_, n.id):
                            read |= {x.id for x in ast.walk(t_) if isinstance(x, ast.Name)}
                if not read:
                    continue
            stuck = None
            for path in _body_paths(cfg, n.id):
                changed = False
                for nid, _ in path:
                    st = cfg.nodes[nid].stmt
                    if st is None:
                        continue
                    for x in ast.walk(st) if cfg.nodes[nid].kind == "stmt" else []:
                        if isinstance(x, ast.Name) and isinstance(x.ctx, ast.Store) and x.id in read:
                            changed = True
                        if isinstance(x, ast.Call) and isinstance(x.func, ast.Attribute) and isinstance(x.func.value, ast.Name) and x.func.value.id in read:
                            changed = True
                        if isinstance(x, (ast.Subscript, ast.Attribute)) and isinstance(x.ctx, (ast.Store, ast.Del)):
                            b = x
                            while isinstance(b, (ast.Subscript, ast.Attribute)):
                                b = b.value
                            if isinstance(b, ast.Name) and b.id in read:
                                changed = True
                    if cfg.nodes[nid].kind == "for":
                        for x in ast.walk(cfg.nodes[nid].stmt.target):
                            if isinstance(x, ast.Name) and x.id in read:
                                changed = True
                ends_back = path and path[-1][1] in ("back", "continue", "", "false", "true", "exit") and not any(isinstance(cfg.nodes[nid].stmt, (ast.Return, ast.Raise, ast.Break)) for nid, _ in path)
                if ends_back and not changed:
                    stuck = path
                    break
            calls_in_test = any(isinstance(x, ast.Call) for x in ast.walk(test))
            if stuck is not None and calls_in_test:
                ctx.need(False, f"{d.name}: `while {unparse(test, 40)}`: the test calls a function; termination not decided")
            ok = stuck is None
            ctx.ob(d, n.stmt, ok, f"`while {unparse(test, 40)}`: every way round the loop changes something the test reads" + ("" if ok else " — one way round changes none of " + str(sorted(read)) + ": once taken, the loop never ends"), sel=f"term:while:{ctx.anon(d, test, 50)}", firm=True, key_node=test)
    # recursion
    def reach(a, b, seen_=None):
        seen_ = seen_ or set()
        for c in edges.get(a, ()):
            if c == b:
                return True
            if c not in seen_:
                seen_.add(c)
                if reach(c, b, seen_):
                    return True
        return False

    for q, d in sorted(seen.items()):
        if not reach(q, q):
            continue
        direct = [c for c in repo.calls_to(d, q)]
        ctx.need(direct and q in edges[q], f"{d.name} is part of an indirect call cycle; termination not decided")
        cfg = cfg_of(d)
        for c in direct:
            facts = facts_at(cfg, cfg.node_of(c))
            ps = d.params
            swapped = len(c.args) >= 2 and isinstance(c.args[0], ast.Name) and isinstance(c.args[1], ast.Name) and len(ps) >= 2 and c.args[0].id == ps[1] and c.args[1].id == ps[0]
            strict = False
            for t, pol in facts:
                if isinstance(t, ast.Compare) and len(t.ops) == 1:
                    names = {unparse(t.left), unparse(t.comparators[0])}
                    if len(ps) >= 2 and names == {ps[0], ps[1]}:
                        op = t.ops[0]
                        strict = (pol and isinstance(op, (ast.Lt, ast.Gt, ast.NotEq))) or ((not pol) and isinstance(op, (ast.LtE, ast.GtE, ast.Eq)))
            ok = swapped and strict
            ctx.ob(
                d,
                c,
                ok,
                f"{d.name} calls itself only with its first two arguments exchanged, under a strict comparison of the two (so the inner call cannot recurse again)"
                + ("" if ok else (" — the guard also holds when the two are equal: the call repeats itself for ever" if swapped else f" — `{unparse(c, 50)}` is not the exchanged call")),
                sel="term:recursion",
                firm=True,
            )
