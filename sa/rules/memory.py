"""C03 — projected memory: the model the property states is what the code computes, is fed
complete operands, and is never weakened by fusion (also serves C04)."""

from __future__ import annotations

import ast

from .. import anchors as A
from ..astutil import kwarg, mentions_attr, mentions_name, unparse
from ..cfg import cfg_of
from ..flow import flow_of
from ..index import Def, Repo, attr_chain, walk_own
from ..linform import NotLinear, eval_function, poly_of
from ..runner import Ctx, rule
from .runtime import facts_at
from .. import AnalysisError

CALC = f"{A.PMEM}.calculate_projected_mem"
PEAK = f"{A.PBW}.peak_projected_mem"


@rule("MEM-MODEL-1", props=["C03"], floor=6)
def mem_model(ctx: Ctx) -> None:
    """calculate_projected_mem, evaluated as a polynomial, dominates the model in the property
    text: reserved + Σ inputs·(1 + read copies) + extra + output·(1 + write copies)"""
    repo = ctx.repo
    f = repo.get(CALC)
    try:
        p = eval_function(f.node)
    except NotLinear as e:
        raise AnalysisError(f"[MEM-MODEL-1] cannot evaluate calculate_projected_mem as a polynomial: {e}")
    ctx.note(f"calculate_projected_mem = {p}")
    params = f.params
    ctx.need({"reserved_mem", "inputs", "operation", "output", "buffer_copies"} <= set(params), "unexpected signature of calculate_projected_mem")
    req = [
        (("reserved_mem",), 1, "reserved memory"),
        (("operation",), 1, "the operation's extra memory"),
        (("Σinputs",), 1, "every input chunk (the in-memory copy)"),
        (("buffer_copies.read", "Σinputs"), 1, "every input chunk × read buffer copies"),
        (("output",), 1, "the output chunk"),
        (("buffer_copies.write", "output"), 1, "the output chunk × write buffer copies"),
    ]
    for mono, c, what in req:
        got = p.coef(*mono)
        ctx.ob(f, None, got >= c, f"coefficient of {'·'.join(mono)} must be ≥ {c} ({what}); found {got}", sel=f"model:{'*'.join(mono)}")
    neg = {k: v for k, v in p.terms.items() if v < 0}
    ctx.ob(f, None, not neg, "no term is subtracted from the projection" + ("" if not neg else f" — negative terms {neg}"), sel="model:no-negative")


@rule("MEM-CALL-1", props=["C03"], floor=5)
def mem_call(ctx: Ctx) -> None:
    """the primitive feeds the model with all operand arrays (largest chunk), the maximum over
    all outputs, the caller's extra_projected_mem and the spec's reserved_mem"""
    repo = ctx.repo
    g = repo.get(f"{A.PBW}.general_blockwise")
    fl, cfg = flow_of(repo, g), cfg_of(g)
    calls = repo.calls_to(g, CALC)
    ctx.need(len(calls) == 1, "primitive general_blockwise does not call calculate_projected_mem once")
    c = calls[0]
    at = cfg.node_of(c)
    inp = kwarg(c, "inputs")
    ok = False
    why = "not a comprehension over the operand arrays"
    if isinstance(inp, (ast.ListComp, ast.GeneratorExp)):
        gen = inp.generators[0]
        over_all = isinstance(gen.iter, ast.Name) and gen.iter.id == g.vararg and not gen.ifs and len(inp.generators) == 1 and all(s.kind == "param" for s in fl.rdefs(gen.iter.id, at))
        el = inp.elt
        is_mem = isinstance(el, ast.Call) and f"{A.UTILS}.array_memory" in repo.callee_quals(el, g)
        largest = is_mem and any(isinstance(x, ast.Call) and f"{A.UTILS}.largest_chunk" in repo.callee_quals(x, g) for x in ast.walk(el)) or (is_mem and "chunksize" in unparse(el))
        ok = over_all and is_mem and largest
        why = ("does not range over all of *arrays" if not over_all else "") + ("; element is not array_memory(dtype, largest chunk)" if not (is_mem and largest) else "")
    ctx.ob(g, c, ok, "inputs= is array_memory(dtype, largest chunk) for every operand array" + ("" if ok else f" — {why}"), sel="call:inputs")
    # the same sequence builds the read proxies
    rp = [n for n in g.own_nodes() if isinstance(n, ast.DictComp) and any(isinstance(x, ast.Call) and f"{A.PTYPES}.CubedArrayProxy" in repo.callee_quals(x, g) for x in ast.walk(n.value))]
    okr = False
    for d in rp:
        t = fl.taint(d.generators[0].iter, cfg.node_of(d))
        okr = g.vararg in t
    ctx.ob(g, rp[0] if rp else g.node, okr, "read proxies are built from the same operand sequence", sel="call:reads-same-seq")
    out = kwarg(c, "output")
    ok = False
    if isinstance(out, ast.Name):
        for s in fl.rdefs(out.id, at):
            v = s.value
            if s.kind == "assign" and isinstance(v, ast.Call) and isinstance(v.func, ast.Name) and v.func.id == "max" and mentions_name(v, out.id) and any(isinstance(x, ast.Call) and f"{A.UTILS}.array_memory" in repo.callee_quals(x, g) for x in ast.walk(v)):
                lp = cfg.nodes[s.node].loops
                if lp and "target_stores" in unparse(cfg.nodes[lp[-1]].stmt.iter) and not [b for _, _, b in cfg.branch_conditions(s.node) if cfg.in_loop(b, lp[-1])]:
                    ok = True
    ctx.ob(g, c, ok, "output= is the maximum chunk memory over all outputs", sel="call:output")
    for k, src in (("operation", "extra_projected_mem"), ("reserved_mem", "reserved_mem")):
        v = kwarg(c, k)
        ok = isinstance(v, ast.Name) and v.id == src and all(s.kind == "param" for s in fl.rdefs(v.id, at))
        ctx.ob(g, c, ok, f"{k}= is the caller's {src}", sel=f"call:{k}")
    bc = kwarg(c, "buffer_copies")
    ok = bc is not None
    if isinstance(bc, ast.Name):
        for s in fl.rdefs(bc.id, at):
            if s.kind == "assign" and isinstance(s.value, ast.BoolOp):
                dflt = s.value.values[-1]
                # default copies are at least 1/1
                if isinstance(dflt, ast.Call):
                    r, w = kwarg(dflt, "read"), kwarg(dflt, "write")
                    ok = isinstance(r, ast.Constant) and isinstance(w, ast.Constant) and r.value >= 1 and w.value >= 1
    ctx.ob(g, c, ok, "buffer_copies default to at least one read and one write copy", sel="call:buffer-copies")
    # projected_mem of the operation is the model's result
    po = repo.calls_to(g, f"{A.PTYPES}.PrimitiveOperation")
    ok = False
    for p in po:
        v = kwarg(p, "projected_mem")
        if v is not None:
            rs = fl.roots(v, cfg.node_of(p))
            ok = rs == {f"call:{CALC}"}
    ctx.ob(g, po[0] if po else g.node, ok, "the operation's projected_mem is exactly the model's result", sel="call:stored")
    # core.ops forwards extra_projected_mem to the primitive
    for q, prim in ((f"{A.OPS}.blockwise", "blockwise"), (f"{A.OPS}._general_blockwise", "general_blockwise")):
        f = repo.get(q)
        ffl, fcfg = flow_of(repo, f), cfg_of(f)
        for p in repo.calls_to(f, f"{A.PBW}.{prim}"):
            v = kwarg(p, "extra_projected_mem")
            ok = False
            if isinstance(v, ast.Name):
                for s in ffl.rdefs(v.id, fcfg.node_of(p)):
                    ok = s.value is not None and "kwargs.pop('extra_projected_mem'" in unparse(s.value)
            ctx.ob(f, p, ok, f"{f.name} forwards the declared extra_projected_mem to the primitive", sel="call:forward-extra")
    # create-arrays op includes reserved memory
    cz = repo.get(f"{A.PLAN}.create_zarr_arrays")
    ok = False
    cfl, ccfg = flow_of(repo, cz), cfg_of(cz)
    ctx.need("reserved_mem" in cz.params, "create_zarr_arrays lost its reserved_mem parameter")
    for p_ in repo.calls_to(cz, f"{A.PTYPES}.PrimitiveOperation"):
        v = kwarg(p_, "projected_mem")
        if v is None:
            continue
        if isinstance(v, ast.Name):
            ds = cfl.rdefs(v.id, ccfg.node_of(p_))
            v = ds[0].value if len(ds) == 1 and ds[0].kind == "assign" else v
        ok = isinstance(v, ast.BinOp) and isinstance(v.op, ast.Add) and any(isinstance(x, ast.Name) and x.id == "reserved_mem" for x in (v.left, v.right))
    ctx.ob(cz, None, ok, "the create-arrays operation's projection includes reserved_mem", sel="call:create-arrays")


def _max_operands(e: ast.AST) -> list[ast.AST] | None:
    if isinstance(e, ast.Call) and isinstance(e.func, ast.Name) and e.func.id == "max":
        return list(e.args)
    return None


@rule("MEM-FUSEMAX-1", props=["C03", "C04"], floor=4)
def mem_fusemax(ctx: Ctx) -> None:
    """a fused operation never reports less projected memory than any operation it replaced:
    max over the successor and (the peak of) its predecessors"""
    repo = ctx.repo
    PO = f"{A.PTYPES}.PrimitiveOperation"
    f = repo.get(f"{A.PBW}.fuse")
    fl, cfg = flow_of(repo, f), cfg_of(f)
    for p in repo.calls_to(f, PO):
        v = kwarg(p, "projected_mem")
        ok = False
        expr = v
        if isinstance(v, ast.Name):
            for s in fl.rdefs(v.id, cfg.node_of(p)):
                expr = s.value
        ops = _max_operands(expr) if expr is not None else None
        if ops:
            txt = {unparse(o) for o in ops}
            ok = {f"{f.params[0]}.projected_mem", f"{f.params[1]}.projected_mem"} <= txt
        ctx.ob(f, p, ok, "fuse: projected_mem = max(predecessor's, successor's)" + ("" if ok else f" — found `{unparse(expr, 60)}`"), sel="fusemax:fuse")
    f = repo.get(f"{A.PBW}.fuse_multiple")
    fl, cfg = flow_of(repo, f), cfg_of(f)
    for p in repo.calls_to(f, PO):
        v = kwarg(p, "projected_mem")
        expr = v
        if isinstance(v, ast.Name):
            for s in fl.rdefs(v.id, cfg.node_of(p)):
                expr = s.value
        ops = _max_operands(expr) if expr is not None else None
        ok = False
        if ops:
            has_succ = any(unparse(o) == f"{f.params[0]}.projected_mem" for o in ops)
            # an operand may be a local holding the peak (`peak = peak_projected_mem(...)`)
            ops2 = []
            for o in ops:
                if isinstance(o, ast.Name):
                    ds = fl.rdefs(o.id, cfg.node_of(p))
                    if len(ds) == 1 and ds[0].kind == "assign" and ds[0].value is not None:
                        o = ds[0].value
                ops2.append(o)
            pk = [o for o in ops2 if isinstance(o, ast.Call) and PEAK in repo.callee_quals(o, f)]
            covers = False
            for o in pk:
                a = o.args[0] if o.args else None
                if isinstance(a, ast.Name) and a.id == f.vararg:
                    covers = True
                if isinstance(a, (ast.GeneratorExp, ast.ListComp)) and isinstance(a.generators[0].iter, ast.Name) and a.generators[0].iter.id == f.vararg:
                    # only `is not None` filters allowed
                    covers = all("is not None" in unparse(c) for c in a.generators[0].ifs) and isinstance(a.elt, ast.Name) and a.elt.id == a.generators[0].target.id
            ok = has_succ and covers
        ctx.ob(f, p, ok, "fuse_multiple: projected_mem = max(successor's, peak over all fused predecessors)" + ("" if ok else f" — found `{unparse(expr, 70)}`"), sel="fusemax:fuse_multiple")
    # peak model
    pk = repo.get(PEAK)
    pfl, pcfg = flow_of(repo, pk), cfg_of(pk)
    def over_ops(it: ast.AST) -> bool:
        """the parameter itself, or the parameter filtered by `is not None` only"""
        if isinstance(it, ast.Name) and it.id == pk.params[0]:
            return True
        if isinstance(it, (ast.GeneratorExp, ast.ListComp)) and len(it.generators) == 1:
            g_ = it.generators[0]
            return isinstance(g_.iter, ast.Name) and g_.iter.id == pk.params[0] and isinstance(g_.target, ast.Name) and isinstance(it.elt, ast.Name) and it.elt.id == g_.target.id and all(unparse(c_) == f"{g_.target.id} is not None" for c_ in g_.ifs)
        if isinstance(it, ast.Call) and isinstance(it.func, ast.Name) and it.func.id == "filter" and len(it.args) == 2 and isinstance(it.args[0], ast.Constant) and it.args[0].value is None:
            return over_ops(it.args[1])
        return False

    loops = [n for n in pcfg.stmts(ast.For) if over_ops(n.stmt.iter)]
    ctx.need(len(loops) == 1, "peak_projected_mem: loop over the operations not found")
    L = loops[0]
    pv = L.stmt.target.id
    allocs = [c for c in pk.own_nodes() if isinstance(c, ast.Call) and isinstance(c.func, ast.Attribute) and c.func.attr == "allocate"]
    frees = [c for c in pk.own_nodes() if isinstance(c, ast.Call) and isinstance(c.func, ast.Attribute) and c.func.attr == "free"]
    ok = len(allocs) == 1 and unparse(allocs[0].args[0]) == f"{pv}.projected_mem"
    if ok:
        an = pcfg.node_of(allocs[0])
        facts = [(t, pol) for t, pol in facts_at(pcfg, an)]
        # only the `p is None → continue` filter
        ok = all((not pol) and isinstance(t, ast.Compare) and isinstance(t.ops[0], ast.Is) and unparse(t.left) == pv for t, pol in facts) and pcfg.in_loop(an, L.id)
    ctx.ob(pk, allocs[0] if allocs else pk.node, ok, "peak model: every (non-None) operation's full projected_mem is allocated", sel="peak:allocate-all")
    okf = True
    for c in frees:
        a = c.args[0]
        fine = isinstance(a, ast.BinOp) and isinstance(a.op, ast.Sub) and unparse(a.left) == f"{pv}.projected_mem"
        if fine:
            r = a.right
            rr = r
            if isinstance(r, ast.Name):
                for s in pfl.rdefs(r.id, pcfg.node_of(c)):
                    rr = s.value
            fine = isinstance(rr, ast.Call) and f"{A.UTILS}.chunk_memory" in repo.callee_quals(rr, pk) and f"{pv}.target_array" in unparse(rr)
        fine = fine and allocs and pcfg.dominates(pcfg.node_of(allocs[0]), pcfg.node_of(c))
        okf = okf and bool(fine)
    ctx.ob(pk, frees[0] if frees else pk.node, okf, "peak model: after an operation at most projected_mem − chunk_memory(target) is freed (its result stays alive), and only after the allocation", sel="peak:free-bound")
    rets = pcfg.returns()
    ok = bool(rets) and all(isinstance(r.stmt.value, ast.Attribute) and r.stmt.value.attr == "peak_mem" for r in rets)
    ctx.ob(pk, None, ok, "peak model returns the modeller's peak", sel="peak:returns-peak")
    mm = repo.get(f"{A.PMEM}.MemoryModeller")
    for m, sign in (("allocate", ast.Add), ("free", ast.Sub)):
        d = mm.children[m]
        aug = [n for n in d.own_nodes() if isinstance(n, ast.AugAssign) and unparse(n.target) == "self.current_mem"]
        pkup = [n for n in d.own_nodes() if isinstance(n, ast.Assign) and unparse(n.targets[0]) == "self.peak_mem"]
        ok = len(aug) == 1 and isinstance(aug[0].op, sign) and unparse(aug[0].value) == d.params[1]
        if m == "allocate":
            ok = ok and len(pkup) == 1 and isinstance(pkup[0].value, ast.Call) and unparse(pkup[0].value.func) == "max" and {unparse(a) for a in pkup[0].value.args} == {"self.peak_mem", "self.current_mem"} and pkup[0].lineno > aug[0].lineno
        ctx.ob(d, None, ok, f"MemoryModeller.{m} updates current memory by its argument" + (" and raises the peak to max(peak, current)" if m == "allocate" else ""), sel=f"peak:modeller:{m}")


# ---------------------------------------------------------------------- units (tier 2)

BYTES, COUNT, NUM, UNK = "BYTES", "COUNT", "NUM", "?"
BYTE_ATTRS = {"chunkmem", "nbytes", "projected_mem", "allowed_mem", "reserved_mem"}
BYTE_FUNCS = {"array_memory", "chunk_memory", "memory_repr"}
COUNT_ATTRS = {"size", "shape", "chunksize", "chunks", "numblocks", "npartitions", "ndim", "nchunks"}


def unit_of(repo: Repo, fl, e: ast.AST, at: int, depth: int = 5) -> str:
    if depth <= 0:
        return UNK
    if isinstance(e, ast.Constant) and isinstance(e.value, (int, float)):
        return NUM
    if isinstance(e, ast.Attribute):
        if e.attr in BYTE_ATTRS:
            return BYTES
        if e.attr in COUNT_ATTRS:
            return COUNT
        if e.attr == "itemsize":
            return "ITEM"
        return UNK
    if isinstance(e, ast.Subscript):
        return unit_of(repo, fl, e.value, at, depth)
    if isinstance(e, ast.Call):
        fn = attr_chain(e.func) or ""
        last = fn.split(".")[-1]
        if last in BYTE_FUNCS:
            return BYTES
        if last == "itemsize":
            return "ITEM"
        if last in ("prod", "len", "array_size"):
            return COUNT
        if last in ("max", "min", "sum", "int", "ceil"):
            us = {unit_of(repo, fl, a, at, depth - 1) for a in e.args}
            if isinstance(e.args[0], (ast.GeneratorExp, ast.ListComp)) if e.args else False:
                us = {unit_of(repo, fl, e.args[0].elt, at, depth - 1)}
            us -= {NUM}
            return us.pop() if len(us) == 1 else (UNK if us else NUM)
        return UNK
    if isinstance(e, ast.BinOp):
        l, r = unit_of(repo, fl, e.left, at, depth - 1), unit_of(repo, fl, e.right, at, depth - 1)
        if isinstance(e.op, (ast.Add, ast.Sub)):
            if l == r:
                return l
            if NUM in (l, r):
                return r if l == NUM else l
            if UNK in (l, r):
                return UNK
            return f"CLASH({l}±{r})"
        if isinstance(e.op, ast.Mult):
            s = {l, r}
            if s == {"ITEM", COUNT}:
                return BYTES
            if BYTES in s and (s - {BYTES}) <= {NUM, COUNT, UNK}:
                return BYTES if UNK not in s else BYTES
            if s <= {COUNT, NUM}:
                return COUNT if COUNT in s else NUM
            return UNK
        if isinstance(e.op, (ast.FloorDiv, ast.Div)):
            if l == BYTES and r in (NUM, COUNT, UNK):
                return BYTES
            if l == BYTES and r == BYTES:
                return NUM
            return UNK
        return UNK
    if isinstance(e, ast.Name):
        sites = fl.rdefs(e.id, at)
        us = set()
        for s in sites:
            if s.kind == "assign" and s.value is not None:
                us.add(unit_of(repo, fl, s.value, s.node, depth - 1))
            else:
                us.add(UNK)
        return us.pop() if len(us) == 1 else UNK
    if isinstance(e, ast.IfExp):
        a, b = unit_of(repo, fl, e.body, at, depth - 1), unit_of(repo, fl, e.orelse, at, depth - 1)
        return a if a == b else UNK
    return UNK


@rule("MEM-UNITS-1", props=["C03"], floor=6, tier="thorough")
def mem_units(ctx: Ctx) -> None:
    """dimension check: what flows into extra_projected_mem= is a number of bytes
    (chunkmem / array_memory / nbytes / itemsize·count and sums or multiples of those), never
    an element count or a chunk shape"""
    repo = ctx.repo
    n = 0
    for f in repo.functions():
        if f.module.qual.startswith(("cubed.vendor.", "cubed.diagnostics.", "cubed.primitive.")):
            continue
        for c in f.own_nodes():
            if not isinstance(c, ast.Call):
                continue
            v = kwarg(c, "extra_projected_mem")
            if v is None:
                continue
            if isinstance(v, ast.Name) and v.id == "extra_projected_mem" and "extra_projected_mem" in f.params:
                continue
            fl, cfg = flow_of(repo, f), cfg_of(f)
            if isinstance(v, ast.Name):
                ss = fl.rdefs(v.id, cfg.node_of(c))
                if ss and all(s.value is not None and "kwargs.pop" in unparse(s.value) for s in ss):
                    continue  # plain forwarding
            n += 1
            u = unit_of(repo, fl, v, cfg.node_of(c))
            ok = not (u == COUNT or u.startswith("CLASH") or u == "ITEM")
            ctx.ob(f, c, ok, f"extra_projected_mem=`{unparse(v, 40)}` has unit {u}; it must be BYTES" + ("" if ok else " — an element count / shape is not a memory size"), sel=f"units:extra:{unparse(v, 30)}", nontrivial=u == BYTES)
    ctx.need(n >= 6, f"only {n} extra_projected_mem declarations found")


@rule("MEM-DTYPE-1", props=["C03"], floor=1)
def mem_dtype(ctx: Ctx) -> None:
    """where an operation declares extra memory as array_memory(<dtype>, <its own output chunk
    shape>), the dtype is the operation's output dtype (reduced/intermediate chunks have the
    output dtype, which may be wider than the input's)"""
    repo = ctx.repo
    n = 0
    for f in repo.functions():
        if f.module.qual.startswith(("cubed.vendor.", "cubed.primitive.", "cubed.runtime.")):
            continue
        for c in f.own_nodes():
            if not isinstance(c, ast.Call):
                continue
            e = kwarg(c, "extra_projected_mem")
            dt, ch = kwarg(c, "dtypes"), kwarg(c, "chunkss")
            if e is None or dt is None or ch is None:
                continue
            if not (isinstance(dt, ast.List) and len(dt.elts) == 1 and isinstance(ch, ast.List) and len(ch.elts) == 1):
                continue
            fl, cfg = flow_of(repo, f), cfg_of(f)
            at = cfg.node_of(c)
            def alias(x, at_):
                # follow simple local aliases (`out_dtype = dtype`) to what they name
                for _ in range(4):
                    if not isinstance(x, ast.Name):
                        break
                    ds = fl.rdefs(x.id, at_)
                    if len(ds) == 1 and ds[0].kind == "assign" and isinstance(ds[0].value, (ast.Name, ast.Attribute)):
                        x, at_ = ds[0].value, ds[0].node
                    else:
                        break
                return unparse(x)

            # the declaration, with local names expanded to their definitions (transitively)
            exprs, seen, work = [], set(), [(e, at)]
            while work:
                ex, at_ = work.pop()
                exprs.append((ex, at_))
                for nm in [x for x in ast.walk(ex) if isinstance(x, ast.Name) and isinstance(x.ctx, ast.Load)]:
                    for s_ in fl.rdefs(nm.id, at_):
                        if s_.kind == "assign" and s_.value is not None and id(s_.value) not in seen and len(seen) < 40:
                            seen.add(id(s_.value))
                            work.append((s_.value, s_.node))
            out_dtype, out_chunks = alias(dt.elts[0], at), unparse(ch.elts[0])
            done = set()
            for ex, at_ in exprs:
                for am in [x for x in ast.walk(ex) if isinstance(x, ast.Call) and f"{A.UTILS}.array_memory" in repo.callee_quals(x, f) and len(x.args) == 2]:
                    if id(am) in done:
                        continue
                    done.add(id(am))
                    if out_chunks not in unparse(am.args[1]):
                        continue  # memory of something else (an input chunk, a copy chunk)
                    n += 1
                    got = alias(am.args[0], at_)
                    ok = got == out_dtype
                    ctx.ob(f, am, ok, f"`{unparse(am, 60)}` sizes chunks of this operation's output grid; its dtype must be the output dtype `{out_dtype}`" + ("" if ok else f" — it uses `{got}`: a widening reduction keeps reduced chunks that are larger than declared"), sel=f"dtype:{unparse(am, 50)}")
    ctx.need(n >= 1, "no array_memory(<dtype>, <output chunks>) declaration found")


@rule("MEM-STALE-1", props=["C03"], floor=3)
def mem_stale(ctx: Ctx) -> None:
    """the extra memory an operation declares (extra_projected_mem=) from the chunk size of one
    of its own operands is computed from the operand *as passed*: not from a value taken before
    the operand variable was rebound (x = flatten(x), x = rechunk(x), … change the chunks)"""
    repo = ctx.repo
    n = 0
    ATTRS = ("chunkmem", "chunksize", "chunks", "nbytes", "shape", "dtype", "size")
    for f in repo.functions():
        mq = f.module.qual
        if not mq.startswith(("cubed.array_api.", "cubed.array.", "cubed.core.ops", "cubed.core.gufunc", "cubed.random")):
            continue
        fl = cfg = None
        for c in f.own_nodes():
            if not isinstance(c, ast.Call):
                continue
            e = kwarg(c, "extra_projected_mem")
            if e is None:
                continue
            operands = {a.id for a in c.args if isinstance(a, ast.Name)}
            if not operands:
                continue
            if fl is None:
                fl, cfg = flow_of(repo, f), cfg_of(f)
            if not cfg.has(c):
                continue
            at = cfg.node_of(c)
            # expand local names of the declaration to their definitions, remembering where each
            # piece was evaluated
            seen, work, pieces = set(), [(e, at)], []
            while work and len(seen) < 40:
                x, at_ = work.pop()
                pieces.append((x, at_))
                for nm in [y for y in ast.walk(x) if isinstance(y, ast.Name) and isinstance(y.ctx, ast.Load) and id(y) not in fl.comp_bind]:
                    for s_ in fl.rdefs(nm.id, at_):
                        if s_.kind == "assign" and s_.value is not None and id(s_.value) not in seen:
                            seen.add(id(s_.value))
                            work.append((s_.value, s_.node))
            for x, at_ in pieces:
                for a_ in ast.walk(x):
                    if isinstance(a_, ast.Attribute) and a_.attr in ATTRS and isinstance(a_.value, ast.Name) and a_.value.id in operands:
                        X = a_.value.id
                        n += 1
                        here = {d_.node for d_ in fl.rdefs(X, at_)}
                        there = {d_.node for d_ in fl.rdefs(X, at)}
                        stale = bool(there - here)
                        ctx.ob(
                            f,
                            c,
                            not stale,
                            f"extra_projected_mem of `{unparse(c.func, 30)}` reads `{unparse(a_)}` of its operand `{X}`"
                            + ("" if not stale else f" — evaluated before `{X}` was rebound: the declaration describes the previous chunks, the task works on the new ones"),
                            sel=f"stale:{ctx.anon(f, c.func, 30)}:{a_.attr}",
                        )
    ctx.need(n >= 3, f"only {n} extra_projected_mem declarations that read an operand found")


NX_SET_NEIGHBOURS = {"predecessors", "successors", "neighbors", "pred", "succ", "adj"}
NX_EDGE_VIEWS = {"in_edges", "out_edges", "edges"}


@rule("MULTI-EDGE-1", props=["C03", "C04"], floor=4)
def multi_edge(ctx: Ctx) -> None:
    """the plan is a multigraph with one edge per operand *position*: every count of an
    operation's inputs that feeds a fusion limit walks edges (in_edges / out_edges or the
    helpers built on them), never the set-valued neighbour views of networkx, which collapse
    an operand used twice into one"""
    repo = ctx.repo
    import ast as _ast

    opt = A.OPT
    helpers = {"predecessors_unordered": "in_edges", "successors_unordered": "out_edges"}
    for hn, view in helpers.items():
        h = repo.get(f"{opt}.{hn}")
        its = [n.iter for n in h.own_nodes() if isinstance(n, (_ast.For, _ast.comprehension))]
        ok = bool(its) and all(isinstance(i, _ast.Call) and isinstance(i.func, _ast.Attribute) and i.func.attr == view for i in its)
        bad = next((i for i in its if isinstance(i, _ast.Call) and isinstance(i.func, _ast.Attribute) and i.func.attr in NX_SET_NEIGHBOURS), None)
        if not ok and bad is None:
            ok = ctx.present(h, False, f"{hn}: iteration over .{view}()")
        ctx.ob(h, bad, ok, f"{hn} walks `.{view}(node)` — one item per edge, repeats for an operand used twice" + ("" if ok else f" — it walks `{unparse(bad, 40) if bad is not None else '?'}`, a set of distinct neighbours"), sel=f"multi:helper:{hn}", firm=bad is not None)
    # counts: sum(...) / len(...) in the optimiser whose items come from graph neighbours
    n_counts = 0
    for d in repo.functions():
        if d.module.qual != opt:
            continue
        fl, cfg = flow_of(repo, d), cfg_of(d)
        for c in d.own_nodes():
            if not (isinstance(c, _ast.Call) and isinstance(c.func, _ast.Name) and c.func.id in ("sum", "len") and c.args):
                continue
            srcs = []
            arg = c.args[0]
            for x in _ast.walk(arg):
                if isinstance(x, _ast.comprehension):
                    srcs.append(x.iter)
            if not srcs:
                srcs = [arg]
            neigh = []
            for s_ in srcs:
                for x in _ast.walk(s_):
                    if isinstance(x, _ast.Call) and isinstance(x.func, _ast.Attribute) and x.func.attr in NX_SET_NEIGHBOURS | NX_EDGE_VIEWS:
                        neigh.append(x)
                    elif isinstance(x, _ast.Call) and any(t.kind == "def" and t.ref.name in helpers for t in repo.resolve_call(x, d, d.module)):
                        neigh.append(x)
                    elif isinstance(x, _ast.Name) and cfg.has(c):
                        for ds in fl.rdefs(x.id, cfg.node_of(c)):
                            if ds.value is not None:
                                for y in _ast.walk(ds.value):
                                    if isinstance(y, _ast.Call) and isinstance(y.func, _ast.Attribute) and y.func.attr in NX_SET_NEIGHBOURS:
                                        neigh.append(y)
            if not neigh:
                continue
            n_counts += 1
            bad = next((x for x in neigh if isinstance(x.func, _ast.Attribute) and x.func.attr in NX_SET_NEIGHBOURS), None)
            ctx.ob(
                d,
                c,
                bad is None,
                f"`{unparse(c, 50)}` counts one per edge (operand position)"
                + ("" if bad is None else f" — `{unparse(bad, 40)}` yields each neighbour once however many edges join them: an operation that reads the same array twice is counted as reading one, and the limit that keeps the fused memory model valid lets it through"),
                sel=f"multi:count:{ctx.anon(d, c, 50)}",
                firm=True,
            )
    ctx.need(n_counts >= 2, f"only {n_counts} neighbour counts found in the optimiser")


@rule("CHUNKMEM-1", props=["C03", "C04"], floor=3)
def chunkmem_providers(ctx: Ctx) -> None:
    """chunk_memory(arr) trusts `arr.chunkmem` when the object has one: every provider of that
    attribute returns the memory of a *whole* chunk (array_memory(dtype, chunk shape)), never an
    average (total bytes divided by the number of chunks undercounts every full chunk as soon as
    the last chunk along an axis is short)"""
    repo = ctx.repo
    import ast as _ast

    cm = repo.get(f"{A.UTILS}.chunk_memory")
    trusts = any(isinstance(n, _ast.Attribute) and n.attr == "chunkmem" for n in cm.own_nodes())
    ctx.need(trusts or True, "chunk_memory")
    n_prov = 0
    for cls in repo.classes():
        if cls.module.qual.startswith(("cubed.vendor.", "cubed.tests")):
            continue
        m = cls.children.get("chunkmem")
        if m is None or not m.is_func:
            continue
        n_prov += 1
        fl, cfg = flow_of(repo, m), cfg_of(m)
        rets = [r for r in cfg.returns() if r.stmt.value is not None]
        ctx.need(rets, f"{cls.name}.chunkmem returns nothing")
        for r in rets:
            v = r.stmt.value
            exprs = [v]
            for x in _ast.walk(v):
                if isinstance(x, _ast.Name):
                    exprs += [s.value for s in fl.rdefs(x.id, r.id) if s.value is not None]
            div = next((b for e in exprs for b in _ast.walk(e) if isinstance(b, _ast.BinOp) and isinstance(b.op, (_ast.Div, _ast.FloorDiv))), None)
            total = next((a for e in exprs for a in _ast.walk(e) if isinstance(a, _ast.Attribute) and a.attr in ("nbytes", "nchunks", "npartitions", "size")), None)
            whole = any(isinstance(c, _ast.Call) and any(t.kind == "def" and t.ref.name == "array_memory" for t in repo.resolve_call(c, m, m.module)) for e in exprs for c in _ast.walk(e))
            if div is None and total is None and not whole:
                ctx.need(False, f"{cls.name}.chunkmem: `{unparse(v, 40)}` is neither array_memory(...) nor an average; not decided")
            ok = whole and div is None and total is None
            ctx.ob(
                m,
                r.stmt,
                ok,
                f"{cls.name}.chunkmem is the memory of a whole chunk (array_memory of the chunk shape)"
                + ("" if ok else f" — `{unparse(v, 50)}` divides a total by a count: with a short last chunk every full chunk is larger than this, and the fused operations' projected memory (which retains one such chunk per predecessor) falls below what a task holds"),
                sel="chunkmem:whole",
                firm=True,
            )
    ctx.need(n_prov >= 3, f"only {n_prov} chunkmem providers found")
