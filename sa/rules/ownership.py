"""C10 ownership (OWN-MUT-1, GENSYM-1, CLEANUP-1), C20 identity (GENSYM-XPROC-1),
C12 provenance (META-1)."""

from __future__ import annotations

import ast

from .. import anchors as A
from ..astutil import is_self_attr, kwarg, mentions_name, unparse
from ..cfg import cfg_of
from ..effects import GLOBAL_WRITE, STORE_DELETE, effects_of
from ..flow import flow_of
from ..index import Def, Repo, attr_chain, walk_own
from ..runner import Ctx, rule

GUARDED_CLASSES = [
    f"{A.ARRAY}.CoreArray",
    f"{A.AOBJ}.Array",
    f"{A.PLAN}.Plan",
    f"{A.PTYPES}.PrimitiveOperation",
    f"{A.PBW}.BlockwiseSpec",
    f"{A.PTYPES}.CubedArrayProxy",
    f"{A.RT_TYPES}.CubedPipeline",
]
MUT_METHODS = {"append", "extend", "insert", "pop", "remove", "clear", "update", "setdefault", "popitem", "sort", "reverse", "add", "discard"}


def class_fields(repo: Repo, cq: str) -> set[str]:
    c = repo.get(cq)
    out: set[str] = set()
    for st in c.node.body:
        if isinstance(st, ast.AnnAssign) and isinstance(st.target, ast.Name):
            out.add(st.target.id)
    for m in ("__init__", "__post_init__"):
        init = c.children.get(m)
        if init is not None:
            for n in init.own_nodes():
                if isinstance(n, (ast.Assign, ast.AnnAssign)):
                    for t in n.targets if isinstance(n, ast.Assign) else [n.target]:
                        if is_self_attr(t):
                            out.add(t.attr)
    return out


def _fresh_receiver(fl, base: ast.Name, at: int, repo: Repo) -> bool:
    """The object was constructed in this function (constructor / factory call / literal)."""
    rs = fl.roots(base, at)
    if not rs:
        return False
    for r in rs:
        if r.startswith("new:"):
            continue
        if r.startswith("call:"):
            q = r[5:]
            t = repo.defs.get(q)
            if t is not None and (t.kind == "class" or t.name == "__init__"):
                continue
            if q in ("dataclasses.replace", "copy.copy", "copy.deepcopy", "builtin:dict", "dict", "list"):
                continue
            # factory functions returning a fresh object of a guarded class
            if t is not None and t.is_func and t.name in ("lazy_zarr_array", "fuse", "fuse_multiple", "fuse_blockwise_specs", "general_blockwise", "blockwise", "create_zarr_arrays"):
                continue
        if r.endswith(").copy"):
            continue
        return False
    return True


@rule("OWN-MUT-1", props=["C10", "C11", "C12"], floor=3)
def own_mut(ctx: Ctx) -> None:
    """no field of a plan object (array, plan, primitive operation, blockwise spec, proxies,
    pipeline) is re-assigned or mutated in place after construction on a non-fresh object"""
    repo = ctx.repo
    fields: dict[str, set[str]] = {}
    for cq in GUARDED_CLASSES:
        for fld in class_fields(repo, cq):
            fields.setdefault(fld, set()).add(cq.rsplit(".", 1)[-1])
    ctx.need(len(fields) >= 20, f"only {len(fields)} plan-object fields discovered")
    # common names that are fields of many unrelated classes are only considered when the
    # receiver is evidently a plan object
    n_stores = 0
    guarded_names = {cq.rsplit(".", 1)[-1] for cq in GUARDED_CLASSES}
    for f in repo.functions():
        mq = f.module.qual
        if mq.startswith(("cubed.vendor.", "cubed.diagnostics.")):
            continue
        sites = []
        for n in f.own_nodes():
            if isinstance(n, (ast.Assign, ast.AugAssign, ast.AnnAssign, ast.Delete)):
                tg = n.targets if isinstance(n, (ast.Assign, ast.Delete)) else [n.target]
                for t in tg:
                    for sub in ([t] if not isinstance(t, (ast.Tuple, ast.List)) else t.elts):
                        if isinstance(sub, ast.Attribute) and sub.attr in fields:
                            sites.append((n, sub.value, sub.attr, "attribute store"))
                        elif isinstance(sub, ast.Subscript) and isinstance(sub.value, ast.Attribute) and sub.value.attr in fields:
                            sites.append((n, sub.value.value, sub.value.attr, "item store into field"))
            elif isinstance(n, ast.Call) and isinstance(n.func, ast.Attribute) and n.func.attr in MUT_METHODS and isinstance(n.func.value, ast.Attribute) and n.func.value.attr in fields:
                sites.append((n, n.func.value.value, n.func.value.attr, f".{n.func.attr}() on field"))
        if not sites:
            continue
        fl, cfg = flow_of(repo, f), cfg_of(f)
        for n, recv, attr, how in sites:
            n_stores += 1
            base = recv
            while isinstance(base, (ast.Attribute, ast.Subscript, ast.Call)):
                base = base.func if isinstance(base, ast.Call) else base.value
            # own constructor
            if isinstance(base, ast.Name) and base.id == "self" and recv is base and f.name in ("__init__", "__post_init__"):
                continue
            # `self.x = ...` in a class that is not one of the guarded plan-object classes
            if isinstance(base, ast.Name) and base.id == "self" and recv is base:
                cls = f.enclosing_class
                if cls is None or cls.name not in guarded_names and not any(b.name in guarded_names for b in repo.mro(cls)):
                    continue
            at = cfg.node_of(n)
            fresh = isinstance(base, ast.Name) and recv is base and _fresh_receiver(fl, base, at, repo)
            if fresh:
                ctx.ob(f, n, True, f"{how} `{unparse(recv, 30)}.{attr}` on an object constructed in this function", sel=f"own:{ctx.anon(f, recv, 40)}.{attr}", nontrivial=False)
                continue
            owners = sorted(fields[attr])
            ctx.ob(
                f,
                n,
                False,
                f"{how} `{unparse(recv, 40)}.{attr}` ({'/'.join(owners)} field) on an object that was not created here: "
                "arrays already derived from it share this object, so their value / metadata changes after they were built",
                sel=f"own:{ctx.anon(f, recv, 40)}.{attr}",
                props=_own_props(attr),
            )
    ctx.need(n_stores >= 3, f"only {n_stores} stores to plan-object fields found")


def _own_props(attr: str) -> list[str]:
    if attr in ("_zarray",):
        return ["C10", "C12"]
    return ["C10"]


@rule("GENSYM-1", props=["C10", "C20"], floor=5)
def gensym(ctx: Ctx) -> None:
    """each name generator increments its module counter exactly once on every path, formats
    it into the name, and is the counter's only writer; plan node names come from generators"""
    repo = ctx.repo
    gens = [d for d in repo.functions() if d.name == "gensym" and d.parent is None]
    ctx.need(len(gens) >= 3, "name generators not found")
    eff = effects_of(repo)
    for g in gens:
        globs = [x for n in g.own_nodes() if isinstance(n, ast.Global) for x in n.names]
        cfg = cfg_of(g)
        incs = [n for n in g.own_nodes() if isinstance(n, ast.AugAssign) and isinstance(n.target, ast.Name) and n.target.id in globs]
        ok = len(incs) == 1 and isinstance(incs[0].op, ast.Add) and isinstance(incs[0].value, ast.Constant) and isinstance(incs[0].value.value, int) and incs[0].value.value > 0
        if ok:
            inc = cfg.node_of(incs[0])
            ok = cfg.all_paths_pass(cfg.entry, cfg.exit, {inc}) and not cfg.nodes[inc].loops
        plain = [n for n in g.own_nodes() if isinstance(n, ast.Assign) and any(isinstance(t, ast.Name) and t.id in globs for t in n.targets)]
        ctx.ob(g, incs[0] if incs else g.node, ok and not plain, "the counter grows by a positive constant exactly once per call and is never reset", sel="gensym:increment")
        counter = globs[0] if globs else None
        rets = [n for n in g.own_nodes() if isinstance(n, ast.Return)]
        okf = bool(rets) and all(r.value is not None and counter and mentions_name(r.value, counter) for r in rets)
        ctx.ob(g, rets[0] if rets else g.node, okf, "the generated name contains the counter", sel="gensym:format")
        # single writer of the module counter
        others = []
        for d in repo.functions():
            if d.module is g.module and d is not g:
                for e in eff.own[d.qual]:
                    if e.kind == GLOBAL_WRITE and counter and e.what == f"global {counter}":
                        others.append(d)
        inits = g.module.assigns.get(counter, []) if counter else []
        ctx.ob(g, None, not others and len(inits) == 1, f"`{counter}` of {g.module.qual} has a single writer and one initialisation" + ("" if not others else f" — also written by {others[0].qual}"), sel="gensym:single-writer")
    # the op node name in Plan._new and the array names in core.ops come from generators
    new = repo.get(A.PLAN_NEW)
    fl = flow_of(repo, new)
    cfg = cfg_of(new)
    adds = [c for c in new.own_nodes() if isinstance(c, ast.Call) and isinstance(c.func, ast.Attribute) and c.func.attr == "add_node" and kwarg(c, "type") is not None and isinstance(kwarg(c, "type"), ast.Constant) and kwarg(c, "type").value == "op"]
    for c in adds:
        rs = fl.roots(c.args[0], cfg.node_of(c))
        ok = bool(rs) and all(r == f"call:{A.PLAN}.gensym" for r in rs)
        ctx.ob(new, c, ok, "operation nodes are named by plan.gensym()", sel="gensym:op-node")
    AO = f"{A.AOBJ}.Array"
    n_arr = 0
    for f in repo.functions():
        if f.module.qual not in (A.OPS, A.CREATION):
            continue
        calls = repo.calls_to(f, AO)
        if not calls:
            continue
        fl, cfg = flow_of(repo, f), cfg_of(f)
        for c in calls:
            if not c.args:
                continue
            n_arr += 1
            rs = fl.roots(c.args[0], cfg.node_of(c))
            ok = any(f"call:{A.ARRAY}.gensym" in r for r in rs) and all(f"call:{A.ARRAY}.gensym" in r or "new:comp" in r or "new:seq" in r for r in rs)
            ctx.ob(f, c, ok, f"array name `{unparse(c.args[0], 20)}` comes from array.gensym()" + ("" if ok else f" — origin {sorted(rs)[:2]}"), sel="gensym:array-name")
    ctx.need(n_arr >= 5, "Array constructions not found")


@rule("GENSYM-XPROC-1", props=["C20"], floor=2)
def gensym_xproc(ctx: Ctx) -> None:
    """node identity across processes: generated names carry a per-process token, or the plan
    merge detects two different nodes with one name"""
    repo = ctx.repo
    merge = repo.get(f"{A.PLAN}.arrays_to_dag")
    detects = False
    from .runtime import facts_at

    mcfg = cfg_of(merge)
    for bn in mcfg.stmts(ast.Raise):
        # a refusal in the merge point that depends on the graphs' nodes / names (a spec
        # check, or any other refusal, is not a collision test)
        conds = " ".join(unparse(t, 200) for t, _ in facts_at(mcfg, bn.id))
        conds += " " + " ".join(unparse(mcfg.nodes[lp].stmt.iter, 200) for lp in bn.loops if isinstance(mcfg.nodes[lp].stmt, ast.For))
        if any(w in conds for w in (".nodes", ".name", "dag")):
            detects = True
    for g in [d for d in repo.functions() if d.name == "gensym" and d.parent is None and d.module.qual in (A.ARRAY, A.PLAN)]:
        rets = [n for n in g.own_nodes() if isinstance(n, ast.Return) and n.value is not None]
        token = False
        for r in rets:
            for nm in ast.walk(r.value):
                if isinstance(nm, ast.Name) and nm.id not in g.params:
                    t = repo.resolve_name(nm.id, g, g.module)
                    if t.kind == "global" and nm.id.isupper():
                        token = True  # a module-level constant such as CONTEXT_ID
                if isinstance(nm, ast.Call) and attr_chain(nm.func) in ("os.getpid", "uuid.uuid4"):
                    token = True
        ctx.ob(
            g,
            rets[0] if rets else g.node,
            token or detects,
            f"names from {g.qual} are unique only within one process (`prefix-counter`), and arrays_to_dag merges plans by node name without a collision test: "
            "an array unpickled from another process can be mistaken for a local array with the same name",
            sel="xproc:name",
        )


@rule("CLEANUP-1", props=["C10", "C20", "C19"], floor=3)
def cleanup(ctx: Ctx) -> None:
    """the only deletion in library code removes the per-process context directory
    join_path(work_dir, CONTEXT_ID), registered through delete_on_exit"""
    repo = ctx.repo
    eff = effects_of(repo)
    doe = repo.get(f"{A.PLAN}.delete_on_exit")
    for d in repo.functions():
        if d.module.qual.startswith(("cubed.vendor.", "cubed.diagnostics.")):
            continue
        for e in eff.own[d.qual]:
            if e.kind == STORE_DELETE:
                inside = d is doe or (d.parent is doe)
                ctx.ob(d, None, inside, f"deletion `{e.what}` at {e.site} is allowed only inside delete_on_exit", sel=f"cleanup:site:{e.what}", loc=e.site)
    # the lambda removes exactly delete_on_exit's parameter
    ok = False
    for lam in doe.lambdas:
        for c in ast.walk(lam.node):
            if isinstance(c, ast.Call) and attr_chain(c.func) == "shutil.rmtree" and c.args and isinstance(c.args[0], ast.Name) and c.args[0].id == doe.params[0]:
                ok = True
    ctx.ob(doe, None, ok, "the at-exit hook removes exactly the directory passed to delete_on_exit", sel="cleanup:hook-arg")
    n = 0
    for d, c, ts in repo.all_call_sites():
        if d is None or not any(t.kind == "def" and t.ref is doe for t in ts):
            continue
        n += 1
        fl, cfg = flow_of(repo, d), cfg_of(d)
        arg = c.args[0] if c.args else None
        ok = False
        if isinstance(arg, ast.Name):
            for s in fl.rdefs(arg.id, cfg.node_of(c)):
                v = s.value
                if isinstance(v, ast.Call) and attr_chain(v.func) == "join_path" and any(isinstance(a, ast.Name) and a.id == "CONTEXT_ID" for a in v.args):
                    ok = True
                else:
                    ok = False
                    break
        ctx.ob(d, c, ok, "delete_on_exit is given join_path(<work dir>, CONTEXT_ID) — never the work directory itself", sel="cleanup:arg")
    ctx.need(n >= 1, "delete_on_exit is never called")
    # where intermediate data goes: the user's explicit store, or the per-process context dir
    ist = repo.get(f"{A.PLAN}.intermediate_store")
    ifl, icfg = flow_of(repo, ist), cfg_of(ist)
    for r in icfg.returns():
        v = r.stmt.value
        if v is None:
            continue
        txt = unparse(v, 80)
        explicit = txt.endswith(".intermediate_store")
        ctxdir = False
        if isinstance(v, ast.Name):
            for s_ in ifl.rdefs(v.id, r.id):
                vv = s_.value
                ctxdir = isinstance(vv, ast.Call) and attr_chain(vv.func) == "join_path" and any(isinstance(a, ast.Name) and a.id == "CONTEXT_ID" for a in vv.args)
        elif isinstance(v, ast.Call) and attr_chain(v.func) == "join_path":
            ctxdir = any(isinstance(a, ast.Name) and a.id == "CONTEXT_ID" for a in v.args)
        ctx.ob(
            ist,
            r.stmt,
            explicit or ctxdir,
            f"intermediate_store returns the explicit store or join_path(<work dir>, CONTEXT_ID) (returns `{txt}`)"
            + ("" if explicit or ctxdir else " — a directory shared between processes and sessions: same-named intermediate arrays of different computations collide, and which data a computation reads depends on how the work directory is configured"),
            sel=f"cleanup:intermediate:{txt}",
            props=["C10", "C20", "C19"],
        )
    m = repo.module(A.PLAN)
    vals = m.assigns.get("CONTEXT_ID", [])
    ok = len(vals) == 1 and any(isinstance(x, ast.Call) and attr_chain(x.func) in ("uuid.uuid4", "uuid.uuid1") for x in ast.walk(vals[0]))
    inherited = [x for v in vals for x in ast.walk(v) if (isinstance(x, ast.Call) and (attr_chain(x.func) or "").startswith(("os.environ", "os.getenv"))) or (isinstance(x, ast.Subscript) and (attr_chain(x.value) or "") == "os.environ")]
    ctx.ob(
        A.PLAN,
        vals[0] if vals else None,
        ok and not inherited,
        "CONTEXT_ID is a fresh per-process unique token (uuid)"
        + ("" if not inherited else " — it can be inherited from the environment: child processes share the parent's intermediate directory and delete it at their exit"),
        sel="cleanup:context-id",
        loc=f"{m.relpath}:{getattr(vals[0], 'lineno', 1) if vals else 1}",
    )


@rule("META-1", props=["C12"], floor=5)
def meta(ctx: Ctx) -> None:
    """declared shape/dtype/chunks have one origin with the array that backs them: CoreArray
    reads them from the backing array once; the op constructors wrap the primitive's target
    array, which is created from the triple they computed"""
    repo = ctx.repo
    init = repo.get(f"{A.ARRAY}.CoreArray.__init__")
    fl = flow_of(repo, init)
    zparam = None
    for n in init.own_nodes():
        if isinstance(n, ast.Assign) and is_self_attr(n.targets[0]) and n.targets[0].attr == "_zarray" and isinstance(n.value, ast.Name):
            zparam = n.value.id
    ctx.need(zparam, "CoreArray.__init__ does not store the backing array")
    for attr, src in (("_shape", "shape"), ("_dtype", "dtype"), ("_chunks", "chunks")):
        ok = False
        for n in init.own_nodes():
            if isinstance(n, ast.Assign) and is_self_attr(n.targets[0]) and n.targets[0].attr == attr:
                ok = any(isinstance(a, ast.Attribute) and a.attr == src and isinstance(a.value, ast.Name) and a.value.id == zparam for a in ast.walk(n.value))
        ctx.ob(init, None, ok, f"CoreArray.{attr} is read from the backing array's .{src}", sel=f"meta:init:{attr}")
        # never reassigned elsewhere (OWN-MUT-1 covers other objects; here: own methods)
    cls = init.parent
    for name, m in cls.children.items():
        if m.kind == "func" and name != "__init__":
            bad = [n for n in m.own_nodes() if isinstance(n, ast.Assign) and any(is_self_attr(t, "_shape", "_dtype", "_chunks", "_zarray") for t in n.targets)]
            if bad:
                ctx.ob(m, bad[0], False, "array metadata is assigned only in the constructor", sel="meta:reassign")
    # op constructors: the Array wraps op.target_array; the primitive got (shape, dtype, chunks)
    for q, prim_name, trip in (
        (f"{A.OPS}.blockwise", "blockwise", ("shape", "dtype", "chunks")),
        (f"{A.OPS}._general_blockwise", "general_blockwise", ("shapes", "dtypes", "chunkss")),
    ):
        f = repo.get(q)
        fl, cfg = flow_of(repo, f), cfg_of(f)
        prim = repo.calls_to(f, f"{A.PBW}.{prim_name}")
        ctx.need(len(prim) == 1, f"{q}: primitive call not found")
        p = prim[0]
        opname = None
        for nid, ss in fl.sites.items():
            for s in ss:
                if s.value is p:
                    opname = s.name
        ctx.need(opname, f"{q}: primitive result not bound")
        for c in repo.calls_to(f, f"{A.AOBJ}.Array"):
            z = c.args[1] if len(c.args) > 1 else None
            rs = fl.roots(z, cfg.node_of(c)) if z is not None else set()
            ok = bool(rs) and all(f"call:{A.PBW}.{prim_name}.target_array" in r for r in rs)
            ctx.ob(f, c, ok, "the returned Array wraps the primitive's own target_array" + ("" if ok else f" — origin {sorted(rs)[:2]}"), sel="meta:wraps-target")
        for k in trip:
            ctx.ob(f, p, kwarg(p, k) is not None, f"the primitive receives {k}=", sel=f"meta:passes:{k}")
        if prim_name == "blockwise":
            sh, ch = kwarg(p, "shape"), kwarg(p, "chunks")
            ok = False
            if isinstance(sh, ast.Name) and isinstance(ch, ast.Name):
                for s in fl.rdefs(sh.id, cfg.node_of(p)):
                    v = s.value
                    # shape = tuple(map(sum, <chunks>))
                    ok = v is not None and "sum" in unparse(v) and mentions_name(v, ch.id)
            ctx.ob(f, p, ok, "shape is derived from the same chunks that are passed (`tuple(map(sum, chunks))`)", sel="meta:shape-from-chunks")
    # primitive: the lazily created storage array is built from (shapes[i], dtypes[i], chunks)
    g = repo.get(f"{A.PBW}.general_blockwise")
    lz = repo.calls_to(g, f"{A.ST_ZARR}.lazy_zarr_array")
    ctx.need(lz, "primitive does not create lazy arrays")
    for c in lz:
        a = [unparse(x, 30) for x in c.args]
        ok = len(c.args) >= 2 and "shapes[" in a[1] and kwarg(c, "dtype") is not None and "dtypes[" in unparse(kwarg(c, "dtype")) and kwarg(c, "chunks") is not None
        ctx.ob(g, c, ok, "the storage array is created with shapes[i], dtypes[i] and the chunk size of chunkss[i]", sel="meta:lazy-array")
    # operations that copy whole blocks (identity block function) declare the *actual* block
    # sizes of what they copy (`.chunks`), not the nominal chunk size (a ragged last block is
    # shorter than `.chunksize`)
    n_ident = 0
    for f2 in repo.functions():
        if f2.module.qual.startswith(("cubed.vendor.", "cubed.primitive.", "cubed.runtime.")):
            continue
        for c in f2.own_nodes():
            if not (isinstance(c, ast.Call) and c.args and kwarg(c, "chunkss") is not None):
                continue
            fn = c.args[0]
            is_ident = False
            for t in repo.resolve_value(fn, f2, f2.module):
                if t.kind == "def" and t.ref.kind == "lambda" and isinstance(t.ref.node.body, ast.Name) and t.ref.params == [t.ref.node.body.id]:
                    is_ident = True
            if not is_ident:
                continue
            n_ident += 1
            fl2, cfg2 = flow_of(repo, f2), cfg_of(f2)
            ch = kwarg(c, "chunkss")
            txt = unparse(ch, 200)
            seen_txt = [txt]
            for nm in [x for x in ast.walk(ch) if isinstance(x, ast.Name)]:
                for s_ in fl2.rdefs(nm.id, cfg2.node_of(c)):
                    if s_.value is not None:
                        seen_txt.append(unparse(s_.value, 300))
            alltxt = " ".join(seen_txt)
            ok = ".chunks" in alltxt and ".chunksize" not in alltxt
            ctx.ob(f2, c, ok, f"identity copy in {f2.name}: declared chunks are derived from actual block sizes (`.chunks`)" + ("" if ok else f" — derived from `{alltxt[:80]}`: a shorter last block is declared (and written) at full chunk length"), sel="meta:identity-chunks")
    ctx.need(n_ident >= 1, "no identity-copy operations found")
    # multiple outputs: names, target arrays and Arrays are zipped in construction order
    gb = repo.get(f"{A.OPS}._general_blockwise")
    zs = [n for n in gb.own_nodes() if isinstance(n, ast.Call) and isinstance(n.func, ast.Name) and n.func.id == "zip" and "target_array" in unparse(n)]
    # first zip operand = the variable that names the plan node (first argument of Plan._new)
    news = repo.calls_to(gb, A.PLAN_NEW)
    nvar = news[0].args[0].id if news and news[0].args and isinstance(news[0].args[0], ast.Name) else None
    ok = bool(zs) and nvar is not None and all(len(z.args) == 2 and isinstance(z.args[0], ast.Name) and z.args[0].id == nvar for z in zs)
    ctx.ob(gb, zs[0] if zs else gb.node, ok, "for several outputs, result Arrays pair names with target arrays positionally", sel="meta:multi-zip")


DECL_KW = {"dtype": ("dtype",), "chunks": ("chunks", "chunksize"), "shape": ("shape",)}
# operations after which an array variable still has the same <attribute>
PRESERVES = {
    "rechunk": ("dtype", "shape"),
    "merge_chunks": ("dtype", "shape"),
    "astype": ("shape", "chunks", "chunksize"),
}


@rule("META-STALE-1", props=["C12"], floor=3)
def meta_stale(ctx: Ctx) -> None:
    """metadata declared for an operation (dtype=/chunks=/shape=) that is read from an operand
    of that very operation is read from the operand *as passed*: not from a local alias taken
    before the operand variable was rebound (x = concat([...x...]) promotes, pads, reshapes)"""
    repo = ctx.repo
    n = 0
    for f in repo.functions():
        mq = f.module.qual
        if not mq.startswith(("cubed.array_api.", "cubed.array.", "cubed.core.", "cubed.random", "cubed.pad")) or mq.startswith("cubed.core.plan"):
            continue
        fl = cfg = None
        for c in f.own_nodes():
            if not isinstance(c, ast.Call) or not c.keywords:
                continue
            operands = {a.id for a in c.args if isinstance(a, ast.Name)}
            if not operands:
                continue
            for k in c.keywords:
                if k.arg not in DECL_KW:
                    continue
                # direct form: dtype=x.dtype with x an operand — always current
                v = k.value
                if isinstance(v, ast.Attribute) and isinstance(v.value, ast.Name) and v.value.id in operands and v.attr in DECL_KW[k.arg]:
                    n += 1
                    ctx.ob(f, c, True, f"`{k.arg}={unparse(v)}` is read from the operand as passed", sel=f"stale:{k.arg}:direct", nontrivial=False)
                    continue
                if not isinstance(v, ast.Name):
                    continue
                if fl is None:
                    fl, cfg = flow_of(repo, f), cfg_of(f)
                if not cfg.has(c):
                    continue
                at = cfg.node_of(c)
                for s_ in fl.rdefs(v.id, at):
                    sv = s_.value
                    if not (s_.kind == "assign" and isinstance(sv, ast.Attribute) and isinstance(sv.value, ast.Name) and sv.value.id in operands and sv.attr in DECL_KW[k.arg]):
                        continue
                    X = sv.value.id
                    n += 1
                    at_alias = {d_.node for d_ in fl.rdefs(X, s_.node)}
                    at_call = {d_.node for d_ in fl.rdefs(X, at)}
                    # a rebinding through an operation that keeps this attribute is harmless
                    # (x = x.rechunk(...) keeps dtype and shape, astype keeps the geometry)
                    newdefs = [d_ for d_ in fl.rdefs(X, at) if d_.node in (at_call - at_alias)]

                    def keeps(d_) -> bool:
                        val = d_.value
                        if not isinstance(val, ast.Call):
                            return False
                        fn = val.func.attr if isinstance(val.func, ast.Attribute) else (val.func.id if isinstance(val.func, ast.Name) else "")
                        return sv.attr in PRESERVES.get(fn, ())

                    stale = bool(newdefs) and not all(keeps(d_) for d_ in newdefs)
                    ctx.ob(
                        f,
                        c,
                        not stale,
                        f"`{k.arg}={v.id}` ({v.id} = {unparse(sv)}) describes operand `{X}` of `{unparse(c.func, 30)}`"
                        + ("" if not stale else f" — but `{X}` is rebound between the alias and the call: the operation is declared with the previous {sv.attr} (e.g. before concatenation promoted it) while its blocks have the new one"),
                        sel=f"stale:{k.arg}:{ctx.anon(f, c.func, 30)}",
                    )
    ctx.need(n >= 3, f"only {n} declarations read from an operand found")


def _canon_value(fl, e: ast.AST, at: int, depth: int = 3):
    """a value followed through plain copies (`s = x.shape`) to what it is"""
    if isinstance(e, ast.Name) and depth > 0:
        ds = list(fl.rdefs(e.id, at))
        if len(ds) == 1 and ds[0].kind == "assign" and ds[0].value is not None and isinstance(ds[0].value, (ast.Name, ast.Attribute, ast.Tuple)):
            return _canon_value(fl, ds[0].value, ds[0].node, depth - 1)
        return ("name", e.id, tuple(sorted((s.node, s.kind) for s in ds)))
    return ("expr", unparse(e, 200))


@rule("META-PAIR-1", props=["C12"], floor=8)
def meta_pair(ctx: Ctx) -> None:
    """where an operation is declared with a shape and with chunks that were normalised
    (normalize_chunks(c, shape=S')), S' is the declared shape itself: chunks normalised against
    another shape (the operand's instead of the result's, a stale variable) do not add up to
    the declared shape — the array then reports a grid it does not have"""
    repo = ctx.repo
    n = 0
    for d in repo.functions():
        mq = d.module.qual
        if mq.startswith(("cubed.vendor", "cubed.diagnostics", "cubed.tests")):
            continue
        fl = cfg = None
        for c in d.own_nodes():
            if not isinstance(c, ast.Call):
                continue
            bound: dict[str, ast.AST] = {}
            for t in repo.resolve_call(c, d, d.module):
                if t.kind == "def" and t.ref.is_func:
                    ps = t.ref.params
                    if ps and ps[0] in ("self", "cls"):
                        ps = ps[1:]
                    for i, a in enumerate(c.args):
                        if i < len(ps) and not isinstance(a, ast.Starred):
                            bound[ps[i]] = a
                    break
            for k in c.keywords:
                if k.arg:
                    bound[k.arg] = k.value
            ch = bound.get("chunks") or bound.get("chunkss")
            sh = bound.get("shape") or bound.get("shapes")
            if ch is None or sh is None:
                continue
            if fl is None:
                fl, cfg = flow_of(repo, d), cfg_of(d)
            if not cfg.has(c):
                continue
            at = cfg.node_of(c)
            pairs = list(zip(sh.elts, ch.elts)) if isinstance(sh, ast.List) and isinstance(ch, ast.List) and len(sh.elts) == len(ch.elts) else [(sh, ch)]
            for s_, c_ in pairs:
                if not isinstance(c_, ast.Name):
                    continue
                for ds in fl.rdefs(c_.id, at):
                    v = ds.value
                    if isinstance(v, ast.Call) and isinstance(v.func, ast.Name) and v.func.id == "to_chunksize" and v.args and isinstance(v.args[0], ast.Call):
                        v = v.args[0]
                    if not (isinstance(v, ast.Call) and any(t.kind == "def" and t.ref.name == "normalize_chunks" for t in repo.resolve_call(v, d, d.module))):
                        continue
                    ns = kwarg(v, "shape") or (v.args[1] if len(v.args) > 1 else None)
                    if ns is None:
                        continue
                    n += 1
                    a, b = _canon_value(fl, s_, at), _canon_value(fl, ns, ds.node)
                    ok = a == b
                    ctx.ob(
                        d,
                        c,
                        ok,
                        f"`{unparse(c.func, 30)}(…)`: the declared chunks were normalised against the declared shape `{unparse(s_, 30)}`"
                        + ("" if ok else f" — they were normalised against `{unparse(ns, 30)}`, another value: the chunks need not add up to the shape the array reports"),
                        sel=f"pair:{ctx.anon(d, c.func, 30)}:{ctx.anon(d, ns, 30)}",
                        firm=True,
                    )
    ctx.need(n >= 6, f"only {n} (shape, normalised chunks) declarations found")
