"""C05 (write layout), C06 (task purity / RNG), C11 (store call shape)."""

from __future__ import annotations

import ast

from .. import anchors as A
from ..astutil import enclosing_tests, kwarg, mentions_attr, mentions_name, subscript_keys, unparse
from ..cfg import cfg_of, is_raise
from ..effects import EXT_NONDET, EXT_NONDET_PREFIX, GLOBAL_WRITE, NONDET, NONDET_OK, SPAWN, STORE_WRITE, effects_of
from ..flow import flow_of
from ..index import Def, Repo, attr_chain, walk_own
from ..runner import Ctx, rule
from .runtime import conjuncts, facts_at

REGISTRARS = {
    f"{A.OPS}.map_blocks",
    f"{A.OPS}._map_blocks",
    f"{A.OPS}.blockwise",
    f"{A.OPS}.general_blockwise",
    f"{A.OPS}._general_blockwise",
    f"{A.OPS}.map_selection",
    f"{A.OPS}.reduction",
    f"{A.OPS}.partial_reduce",
    f"{A.OPS}.tree_reduce",
    f"{A.OPS}.arg_reduction",
    f"{A.OPS}.nanarg_reduction",
    f"{A.OPS}.scan",
    f"{A.OPS}.elemwise",
    "cubed.array.overlap.map_overlap",
    "cubed.core.gufunc.apply_gufunc",
    f"{A.PBW}.blockwise",
    f"{A.PBW}.general_blockwise",
}


def task_body(ctx: Ctx) -> Def:
    """The function the blockwise primitive installs as the pipeline's stage function."""
    repo = ctx.repo
    g = repo.get(f"{A.PBW}.general_blockwise")
    for c in repo.calls_to(g, f"{A.RT_TYPES}.CubedPipeline"):
        if c.args:
            ts = repo.resolve_value(c.args[0], g, g.module)
            for t in ts:
                if t.kind == "def" and t.ref.is_func:
                    return t.ref
    ctx.need(False, "task body (stage function of the blockwise pipeline) not found")


def registered_functions(repo: Repo) -> dict[str, tuple[Def, str]]:
    """Repo-defined functions handed to a construction function as block / key / selection /
    combine function (function-valued arguments at registrar call sites)."""
    out: dict[str, tuple[Def, str]] = {}
    for d, c, ts in repo.all_call_sites():
        if d is None:
            continue
        if not any(t.kind == "def" and t.qual in REGISTRARS for t in ts):
            continue
        vals = list(c.args) + [k.value for k in c.keywords if k.arg is not None]
        for v in vals:
            if isinstance(v, ast.Starred):
                continue
            if not isinstance(v, (ast.Name, ast.Lambda, ast.Call, ast.Attribute)):
                continue
            if isinstance(v, ast.Call):
                ch = attr_chain(v.func)
                if ch not in ("partial", "functools.partial") and not (ch and repo.resolve_name_chain(ch, d, d.module).kind == "def"):
                    continue
            for t in repo.resolve_value(v, d, d.module):
                if t.kind == "def" and t.ref.is_func and t.ref.module.qual.startswith("cubed.") and not t.ref.module.qual.startswith("cubed.vendor."):
                    # exclude the registrars themselves and array-building functions
                    if t.qual in REGISTRARS:
                        continue
                    out.setdefault(t.qual, (t.ref, f"{d.qual}"))
    return out


def task_reachable(ctx: Ctx) -> dict[str, Def]:
    repo = ctx.repo
    eff = effects_of(repo)
    roots = {task_body(ctx).qual: task_body(ctx)}
    for q, (d, _) in registered_functions(repo).items():
        roots[q] = d
    # fusion wrappers
    for q in (
        f"{A.PBW}.fuse.fused_key_func",
        f"{A.PBW}.fuse.fused_func",
        f"{A.PBW}.make_fused_back_key_function.fused_key_func",
        f"{A.PBW}.make_fused_function.fused_func_single",
        f"{A.PBW}.make_fused_function.fused_func_generator",
        f"{A.PBW}.make_blockwise_back_key_function.back_key_function",
        f"{A.PBW}.make_blockwise_back_key_function_flattened.blockwise_fn_flattened",
    ):
        d = repo.maybe(q)
        if d is not None:
            roots[q] = d
    seen = dict(roots)
    work = list(roots.values())
    while work:
        d = work.pop()
        for n, ts, g, raw in eff.calls.get(d.qual, []):
            for t in ts:
                if t.kind == "def" and t.ref.is_func and t.qual not in seen:
                    m = t.ref.module.qual
                    if m.startswith(("cubed.runtime.", "cubed.diagnostics.", "cubed.core.plan", "cubed.core.array", "cubed.array_api.array_object", "cubed.storage.store")):
                        # executors, plan objects and the storage backends (the designated
                        # write path, WRITE-REGION-1 / CREATE-MODE-1) are not block code
                        continue
                    # array-building API called from a block function would be a defect of its
                    # own; do not pull the whole builder layer into T
                    if t.qual in REGISTRARS:
                        continue
                    seen[t.qual] = t.ref
                    work.append(t.ref)
        # nested helpers/closures defined inside a task function run at task time when called
        for ch in list(d.children.values()) + d.lambdas:
            if ch.is_func and ch.qual not in seen:
                seen[ch.qual] = ch
                work.append(ch)
    return seen


FRESH_CALL_PREFIX = ("nxp.", "np.", "numpy.")
ALLOC_NAMES = {"empty", "zeros", "ones", "full", "empty_like", "zeros_like", "ones_like", "full_like", "array", "asarray", "arange", "copy", "concat", "stack", "reshape", "astype", "where", "take_along_axis", "broadcast_to"}


def _fresh_value(repo: Repo, d: Def, fl, e: ast.AST, at: int) -> bool:
    rs = fl.roots(e, at)
    if not rs:
        return False
    for r in rs:
        if r.startswith("new:") or r.startswith("in(") or r.startswith("const:"):
            continue
        if r.startswith("call:"):
            q = r[5:]
            last = q.split(".")[-1]
            if q.startswith(("numpy.", "cubed.backend_array_api.namespace")) and last not in ("asarray",):
                continue
            if last in ("dict", "list", "set", "tuple", "copy", "deepcopy"):
                continue
            t = repo.defs.get(q)
            if t is not None and t.kind == "class":
                continue
            return False
        if r.startswith("mcall(") and r.endswith((").copy", ").astype", ").tolist", ").at", ").set")):
            continue
        if r.startswith("mcall(") and r.rsplit(").", 1)[-1] in ALLOC_NAMES:
            continue
        if r == f"param:{d.kwarg}" or r.startswith(f"param:{d.kwarg}.") if d.kwarg else False:
            continue
        return False
    return True


@rule("TASK-PURE-1", props=["C06", "C10"], floor=40)
def task_pure(ctx: Ctx) -> None:
    """effect closure over everything a task can execute (task body, registered block / key /
    selection functions, fusion wrappers and their callees): no process-global state carried
    between tasks, no ambient nondeterminism, no in-place mutation of inputs, no spawning"""
    repo = ctx.repo
    eff = effects_of(repo)
    T = task_reachable(ctx)
    ctx.note(f"task-reachable set: {len(T)} functions")
    ctx.need(len(T) >= 40, f"task-reachable set has only {len(T)} functions")
    for q, d in sorted(T.items()):
        problems = []
        for e in eff.own[d.qual]:
            if e.kind == GLOBAL_WRITE:
                problems.append((None, f"writes process-global state ({e.what}) at {e.site}: a task's outcome would depend on which tasks ran before it in the same worker"))
            elif e.kind == NONDET:
                problems.append((None, f"ambient nondeterminism `{e.what}` at {e.site}: a re-executed task need not reproduce its block"))
            elif e.kind == SPAWN:
                problems.append((None, f"spawns concurrent work `{e.what}` at {e.site}: 'task returned' no longer implies 'write finished'"))
        fl = cfg = None
        for n in d.own_nodes():
            tgt = None
            how = None
            if isinstance(n, (ast.Assign, ast.AugAssign)):
                for t in n.targets if isinstance(n, ast.Assign) else [n.target]:
                    if isinstance(t, (ast.Subscript, ast.Attribute)):
                        tgt, how = t.value, f"`{unparse(t, 40)} = ...`"
                        if isinstance(n, ast.AugAssign):
                            how = f"`{unparse(t, 40)} {type(n.op).__name__}= ...`"
            elif isinstance(n, ast.Call):
                ok_kw = kwarg(n, "out")
                if ok_kw is not None and not (isinstance(ok_kw, ast.Constant) and ok_kw.value is None):
                    tgt, how = ok_kw, f"`out={unparse(ok_kw, 30)}`"
                elif isinstance(n.func, ast.Attribute) and n.func.attr in ("append", "extend", "insert", "pop", "remove", "clear", "update", "sort", "reverse", "setdefault", "fill", "resize", "itemset", "put", "setflags", "__setitem__"):
                    tgt, how = n.func.value, f"`{unparse(n.func, 40)}()`"
            if tgt is None:
                continue
            if fl is None:
                fl, cfg = flow_of(repo, d), cfg_of(d)
            if not cfg.has(n):
                continue
            at = cfg.node_of(n)
            base = tgt
            while isinstance(base, (ast.Subscript, ast.Attribute)):
                base = base.value
            # the write target of the task body itself is WRITE-REGION-1's business
            if d.qual in {F.qual for F, _, _ in region_scopes(ctx)} and isinstance(tgt, (ast.Name, ast.Call)):
                rs_t = fl.roots(tgt, at)
                if rs_t and all(r.startswith(("call:", "mcall(")) and r.endswith(".open") for r in rs_t):
                    continue
            if isinstance(base, ast.Name) and base.id in ("self",):
                # object-local state of helper classes used inside a task (indexers, adaptors)
                if d.name in ("__init__", "__post_init__"):
                    continue
            if isinstance(base, ast.Call) or not isinstance(base, ast.Name):
                fresh = _fresh_value(repo, d, fl, base, at)
            else:
                fresh = _fresh_value(repo, d, fl, base, at)
            if not fresh:
                rs = sorted(fl.roots(base, at))[:2]
                problems.append((n, f"in-place mutation {how} of an object this function did not create (origin {rs}): blocks read from an in-memory source or shared between fused functions are modified"))
        if not problems:
            ctx.ob(d, None, True, "task-reachable function is free of carried state, ambient nondeterminism, in-place mutation of non-fresh objects and spawning", sel="pure")
        for n, msg in problems:
            ctx.ob(d, n, False, msg, sel=f"pure:{unparse(n, 40) if n is not None else msg.split(' ')[0]}")


@rule("TASK-RNG-1", props=["C06"], floor=3)
def task_rng(ctx: Ctx) -> None:
    """random blocks: the generator is keyed by root seed + per-block stream id, both task
    parameters; the root seed is drawn once at build time and captured in the operation"""
    repo = ctx.repo
    T = task_reachable(ctx)
    n = 0
    for q, d in T.items():
        for c in d.own_nodes():
            if not isinstance(c, ast.Call):
                continue
            ts = repo.resolve_call(c, d, d.module)
            if any(t.kind == "ext" and t.qual in NONDET_OK for t in ts):
                n += 1
                fl, cfg = flow_of(repo, d), cfg_of(d)
                args = list(c.args) + [k.value for k in c.keywords]
                if not args:
                    ctx.ob(d, c, False, f"`{unparse(c, 40)}` constructs a generator without seed/key: OS entropy, a re-executed task draws a different block", sel=f"rng:seed:{unparse(c.func, 20)}")
                    continue
                if any(isinstance(a, ast.Call) and any(t.kind == "ext" and t.qual in NONDET_OK for t in repo.resolve_call(a, d, d.module)) for a in args):
                    ctx.ob(d, c, True, f"`{unparse(c.func, 20)}` wraps an explicitly keyed bit generator", sel=f"rng:seed:{unparse(c.func, 20)}", nontrivial=False)
                    continue
                tn = set()
                for a in args:
                    tn |= fl.taint(a, cfg.node_of(c))
                ok = bool(tn) and tn <= set(d.params)
                ctx.ob(d, c, ok, f"generator key `{unparse(args[0], 40)}` derives only from task parameters {sorted(tn)}", sel=f"rng:seed:{unparse(c.func, 20)}")
    ctx.need(n >= 1, "no generator construction in task-reachable code")
    rnd = repo.get(f"{A.RANDOM}.random")
    blk = repo.get(f"{A.RANDOM}._random")
    fl, cfg = flow_of(repo, rnd), cfg_of(rnd)
    mb = repo.calls_to(rnd, f"{A.OPS}.map_blocks")
    ctx.need(mb, "random() does not call map_blocks")
    c = mb[0]
    rs = kwarg(c, "root_seed")
    ok = rs is not None
    if ok:
        roots = set(fl.roots(rs, cfg.node_of(c)))
        # a private helper of the module that produces the seed: what it returns
        for r in sorted(roots):
            h = repo.defs.get(r[5:]) if r.startswith("call:") else None
            if h is not None and h.is_func and h.module is rnd.module and h.name.startswith("_"):
                hfl, hcfg = flow_of(repo, h), cfg_of(h)
                roots.discard(r)
                for ret in hcfg.returns():
                    if ret.stmt.value is not None:
                        roots |= hfl.roots(ret.stmt.value, ret.id)
        ok = all(r.startswith("call:random.") or r.startswith("param:") or r.startswith("call:operator.index") for r in roots)
    ctx.ob(rnd, c, ok, "the root seed is drawn at build time and passed as a keyword captured in the operation (re-execution and pickling reproduce it)", sel="rng:root-seed")
    nb, ch = kwarg(c, "numblocks"), kwarg(c, "chunks")
    ok = False
    if isinstance(nb, ast.Name) and isinstance(ch, ast.Name):
        for s in fl.rdefs(nb.id, cfg.node_of(c)):
            ok = s.value is not None and mentions_name(s.value, ch.id) and "len" in unparse(s.value)
    ctx.ob(rnd, c, ok, "the block-count tuple given to the block function is derived from the chunks of the array being built (distinct blocks ↔ distinct stream ids)", sel="rng:numblocks")
    bfl = flow_of(repo, blk)
    ok = False
    for x in blk.own_nodes():
        if isinstance(x, ast.Call) and f"{A.UTILS}.block_id_to_offset" in repo.callee_quals(x, blk):
            ok = len(x.args) == 2 and unparse(x.args[0]) == "block_id" and unparse(x.args[1]) == "numblocks"
    ctx.ob(blk, None, ok, "the stream id is block_id_to_offset(block_id, numblocks)", sel="rng:stream-id")


def _is_coords(fl, e: ast.AST, at: int, coords: str) -> bool:
    """e is the task's coordinate parameter itself, possibly converted with tuple()/list()."""
    if isinstance(e, ast.Call) and isinstance(e.func, ast.Name) and e.func.id in ("tuple", "list") and len(e.args) == 1:
        return _is_coords(fl, e.args[0], at, coords)
    if isinstance(e, ast.Name):
        sites = fl.rdefs(e.id, at)
        if not sites:
            return False
        return all((s.kind == "param" and s.name == coords) or (s.kind == "assign" and s.value is not None and _is_coords(fl, s.value, s.node, coords)) for s in sites)
    return False


def region_scopes(ctx: Ctx) -> list[tuple[Def, dict[str, ast.AST], ast.Call | None]]:
    """The task body, and private pieces of it (one level: `_write_result(result, proxy,
    coords)`), each with the actual arguments the task body passes."""
    repo = ctx.repo
    d = task_body(ctx)
    scopes: list[tuple[Def, dict[str, ast.AST], ast.Call | None]] = [(d, {}, None)]
    for c in d.own_nodes():
        if isinstance(c, ast.Call):
            for t in repo.resolve_call(c, d, d.module):
                if t.kind == "def" and t.ref.is_func and t.ref.module is d.module and t.ref.name.startswith("_") and t.ref is not d:
                    h: Def = t.ref
                    act: dict[str, ast.AST] = {}
                    pos = h.positional_params
                    for i, a in enumerate(c.args):
                        if not isinstance(a, ast.Starred) and i < len(pos):
                            act[pos[i]] = a
                    for k in c.keywords:
                        if k.arg is not None:
                            act[k.arg] = k.value
                    scopes.append((h, act, c))
    return scopes


@rule("WRITE-REGION-1", props=["C05", "C06", "C10"], floor=4)
def write_region(ctx: Ctx) -> None:
    """the task body stores only into its own output block: target reached from writes_map,
    region = key_to_slices(<task's coordinates>, proxy.array, proxy.chunks), plain whole-region
    assignment without reading the target"""
    repo = ctx.repo
    d = task_body(ctx)
    fl, cfg = flow_of(repo, d), cfg_of(d)
    coords = d.params[0]

    def opened(F: Def, flF, e: ast.AST, at: int) -> ast.AST | None:
        """the `<proxy>.open()` expression a store receiver is (directly or through a local)"""
        if "open()" in unparse(e):
            return e
        if isinstance(e, ast.Name):
            vs = [s.value for s in flF.rdefs(e.id, at)]
            if vs and all(v is not None and isinstance(v, ast.Call) and isinstance(v.func, ast.Attribute) and v.func.attr == "open" for v in vs):
                return vs[0]
        return None

    scopes = region_scopes(ctx)
    stores = []
    for F, act, call in scopes:
        flF, cfgF = flow_of(repo, F), cfg_of(F)
        for n in F.own_nodes():
            if isinstance(n, (ast.Assign, ast.AugAssign)):
                for t in n.targets if isinstance(n, ast.Assign) else [n.target]:
                    if isinstance(t, ast.Subscript) and cfgF.has(n):
                        recv = opened(F, flF, t.value, cfgF.node_of(n))
                        if recv is not None:
                            stores.append((F, act, call, n, recv, t.slice, isinstance(n, ast.AugAssign)))
            elif isinstance(n, ast.Call) and isinstance(n.func, ast.Attribute) and n.func.attr.startswith("set_") and n.func.attr.endswith("_selection") and cfgF.has(n):
                recv = opened(F, flF, n.func.value, cfgF.node_of(n)) or n.func.value
                stores.append((F, act, call, n, recv, n.args[0] if n.args else None, False))
    ctx.need(len(stores) >= 2, "store sites of the task body not found")
    at_d = lambda x: cfg.node_of(x)

    def coords_here(F, flF, act, call, e, at) -> bool:
        """`e` (in F) is the task's coordinates"""
        if F is d:
            return _is_coords(fl, e, at, coords)
        if isinstance(e, ast.Name) and e.id in F.params and e.id in act and all(s.kind == "param" for s in flF.rdefs(e.id, at)):
            return _is_coords(fl, act[e.id], at_d(call), coords)
        return False

    for F, act, call, n, recv, key, aug in stores:
        flF, cfgF = flow_of(repo, F), cfg_of(F)
        at = cfgF.node_of(n)
        obj = recv.func.value if isinstance(recv, ast.Call) and isinstance(recv.func, ast.Attribute) else recv
        fl.copies_transparent = flF.copies_transparent = True
        rs = flF.roots(obj, at)
        if F is not d:
            # roots that are parameters of the piece are what the task body passed
            mapped: set[str] = set()
            for r in rs:
                pn = r[len("param:"):].split(".")[0] if r.startswith("param:") else None
                if pn is not None and pn in act:
                    mapped |= fl.roots(act[pn], at_d(call))
                else:
                    mapped.add(r)
            rs = mapped
        fl.copies_transparent = flF.copies_transparent = False
        from_writes = bool(rs) and all("writes_map" in r for r in rs)
        ctx.ob(F, n, from_writes and not any("reads_map" in r for r in rs), f"store target `{unparse(recv, 30)}` is reached from config.writes_map (never from an input)", sel=f"region:target:{unparse(recv, 20)}:{type(n).__name__}")
        ctx.ob(F, n, not aug, "stores are plain assignments (no read-modify-write of the stored chunk)", sel=f"region:plain:{type(n).__name__}")
        okk = False
        why = "region is not computed by key_to_slices"
        if isinstance(key, ast.Name):
            for s in flF.rdefs(key.id, at):
                v = s.value
                if isinstance(v, ast.Call) and f"{A.PBW}.key_to_slices" in repo.callee_quals(v, F):
                    a = v.args
                    pb = recv
                    while isinstance(pb, (ast.Call, ast.Attribute)):
                        pb = pb.func if isinstance(pb, ast.Call) else pb.value
                    proxy = pb.id if isinstance(pb, ast.Name) else None
                    okk = len(a) == 3 and coords_here(F, flF, act, call, a[0], s.node) and unparse(a[1]) == f"{proxy}.array" and unparse(a[2]) == f"{proxy}.chunks"
                    why = f"found `{unparse(v, 70)}`"
        ctx.ob(F, n, okk, "the written region is key_to_slices(<task coordinates>, proxy.array, proxy.chunks) of the same write proxy" + ("" if okk else f" — {why}"), sel=f"region:key:{type(n).__name__}")
    loads = [n for n in d.own_nodes() if isinstance(n, ast.Subscript) and isinstance(n.ctx, ast.Load) and "open()" in unparse(n.value) and "write" in unparse(n.value)]
    ctx.ob(d, loads[0] if loads else None, not loads, "the task never reads its own write target", sel="region:no-read-back")
    # results are zipped with the write proxies in writes_map order
    fl.copies_transparent = True
    loops = [n for n in cfg.stmts(ast.For) if "writes_map" in unparse(n.stmt.iter) or any("writes_map" in r for x in (n.stmt.iter.args if isinstance(n.stmt.iter, ast.Call) else []) for r in fl.roots(x, n.id))]
    fl.copies_transparent = False
    ok = bool(loops) and all(isinstance(n.stmt.iter, ast.Call) and unparse(n.stmt.iter.func) == "zip" for n in loops)
    ctx.ob(d, loops[0].stmt if loops else None, ok, "each result is paired positionally with one write proxy", sel="region:zip")
    # reads go through reads_map by key name
    gc = repo.get(f"{A.PBW}.get_chunk")
    ok = any(isinstance(n, ast.Subscript) and "reads_map" in unparse(n.value) for n in gc.own_nodes())
    ctx.ob(gc, None, ok, "inputs are read through config.reads_map[<key's array name>]", sel="region:reads")


@rule("WRITE-GRID-1", props=["C05", "C13"], floor=4)
def write_grid(ctx: Ctx) -> None:
    """in the primitive, storage chunks, write-proxy chunks and the task enumeration come from
    one normalised chunk grid per output; outputs with different block counts are refused"""
    repo = ctx.repo
    g = repo.get(f"{A.PBW}.general_blockwise")
    fl, cfg = flow_of(repo, g), cfg_of(g)
    loops = [n for n in cfg.stmts(ast.For) if "target_stores" in unparse(n.stmt.iter) and not n.loops]
    ctx.need(len(loops) == 1, "per-output loop of the primitive not found")
    L = loops[0]

    def is_norm(v) -> bool:
        return isinstance(v, ast.Call) and f"{A.UTILS}.normalize_chunks" in repo.callee_quals(v, g)

    def grids_list(e: ast.AST, at: int):
        """`e` names a list holding one normalised grid per output, built up front:
        [normalize_chunks(chunkss[i], …) for i in range(len(<outputs>))] → its definition site"""
        if isinstance(e, ast.Name):
            for s in fl.rdefs(e.id, at):
                v = s.value
                if isinstance(v, ast.ListComp) and is_norm(v.elt) and len(v.generators) == 1 and not v.generators[0].ifs:
                    return s
        return None

    def grid_of_this_output(e: ast.AST, at: int) -> bool | None:
        """`e` is the normalised grid of the output the per-output loop is at: defined by
        normalize_chunks(...) inside the loop, or the loop index's element of the up-front
        list.  None: not recognisable."""
        if isinstance(e, ast.Name):
            ds = fl.rdefs(e.id, at)
            norm = [s for s in ds if is_norm(s.value)]
            if norm:
                return all(cfg.in_loop(s.node, L.id) for s in norm) and len(norm) == len(ds)
            return None
        if isinstance(e, ast.Subscript) and grids_list(e.value, at) is not None:
            idx = e.slice
            if isinstance(idx, ast.Name):
                ids = fl.rdefs(idx.id, at)
                return bool(ids) and all(x.kind == "for" and x.node == L.id for x in ids)
            return False
        return None

    def chunksize_of_this_output(a: ast.AST | None, at: int) -> bool | None:
        """`a` is to_chunksize(<grid of this output>), directly or through a local"""
        if isinstance(a, ast.Name):
            ds = fl.rdefs(a.id, at)
            vs = [s for s in ds if isinstance(s.value, ast.Call) and f"{A.UTILS}.to_chunksize" in repo.callee_quals(s.value, g) and s.value.args]
            if not vs or len(vs) != len(ds):
                return None if not vs else False
            rs = [grid_of_this_output(s.value.args[0], s.node) for s in vs]
            if any(r is None for r in rs):
                return None
            return all(rs) and all(cfg.in_loop(s.node, L.id) for s in vs)
        if isinstance(a, ast.Call) and f"{A.UTILS}.to_chunksize" in repo.callee_quals(a, g) and a.args:
            return grid_of_this_output(a.args[0], at)
        return None

    proxies = [c for c in repo.calls_to(g, f"{A.PTYPES}.CubedArrayProxy") if cfg.in_loop(cfg.node_of(c), L.id)]
    ctx.need(proxies, "write proxy construction not found")
    for c in proxies:
        a = c.args[1] if len(c.args) > 1 else None
        r_ = chunksize_of_this_output(a, cfg.node_of(c))
        # (an expression that is recognisably something else — another variable, a parameter,
        # an `or` with one — is judged; one the rule cannot read is not)
        readable = r_ is not None or not isinstance(a, (ast.Subscript, ast.Call, ast.Attribute))
        ctx.need(readable, f"write-proxy chunks `{unparse(a, 30)}` not recognised")
        ok = bool(r_)
        ctx.ob(g, c, ok, "write-proxy chunks = chunk size of this output's normalised grid" + ("" if ok else f" — found `{unparse(a, 30)}`"), sel="grid:proxy")
    lz = [c for c in repo.calls_to(g, f"{A.ST_ZARR}.lazy_zarr_array") if cfg.in_loop(cfg.node_of(c), L.id)]
    for c in lz:
        ch = kwarg(c, "chunks")
        ok = False
        cands = ch.values if isinstance(ch, ast.BoolOp) and isinstance(ch.op, ast.Or) else [ch]
        last = cands[-1]
        r_ = chunksize_of_this_output(last, cfg.node_of(c))
        ctx.need(r_ is not None or not isinstance(last, (ast.Subscript, ast.Call, ast.Attribute)), f"storage chunks `{unparse(last, 30)}` not recognised")
        ok = bool(r_)
        if len(cands) == 2:
            ok = ok and isinstance(cands[0], ast.Name) and cands[0].id == "target_chunks_"
        ctx.ob(g, c, ok, "storage chunks = explicit rechunk target chunks or this output's grid chunk size", sel="grid:storage")
    cks = repo.calls_to(g, f"{A.PBW}.ChunkKeys")
    for c in cks:
        a = c.args[0] if c.args else None
        at_ = cfg.node_of(c)
        ok = None
        if isinstance(a, ast.Name):
            ds = [s for s in fl.rdefs(a.id, at_)]
            if ds and all(is_norm(s.value) for s in ds):
                ok = all(cfg.in_loop(s.node, L.id) for s in ds)
        elif isinstance(a, ast.Subscript) and grids_list(a.value, at_) is not None:
            # any output's grid: all outputs have the same block counts (guard below)
            ok = isinstance(a.slice, ast.Constant) and isinstance(a.slice.value, int)
        ctx.need(ok is not None or not isinstance(a, (ast.Subscript, ast.Call, ast.Attribute)), f"task grid `{unparse(a, 30)}` not recognised")
        ctx.ob(g, c, bool(ok), "tasks are enumerated over the same normalised grid", sel="grid:tasks")
    # the grid is normalize_chunks(chunkss[i], shape=shapes[i], dtype=dtypes[i]) with one index
    norm = [c for c in repo.calls_to(g, f"{A.UTILS}.normalize_chunks") if cfg.in_loop(cfg.node_of(c), L.id)]
    if not norm:
        # normalised up front, one grid per output
        norm = [c for c in repo.calls_to(g, f"{A.UTILS}.normalize_chunks") if any(isinstance(x, ast.ListComp) and x.elt is c for x in g.own_nodes())]
    ok = len(norm) == 1
    if ok:
        c = norm[0]
        idx = {unparse(x.slice) for x in ast.walk(c) if isinstance(x, ast.Subscript)}
        names = {unparse(x.value) for x in ast.walk(c) if isinstance(x, ast.Subscript)}
        ok = len(idx) == 1 and names == {"chunkss", "shapes", "dtypes"}
    ctx.ob(g, norm[0] if norm else None, ok, "the grid of output i is normalize_chunks(chunkss[i], shapes[i], dtypes[i])", sel="grid:normalised")
    # (in the per-output loop, or — with the grids normalised up front — before it)
    rs = [n for n in cfg.stmts(ast.Raise) if cfg.in_loop(n.id, L.id) or not cfg.can_reach(L.id, n.id)]
    ok = False
    for r in rs:
        facts_ = list(facts_at(cfg, r.id))
        # any(nb(x) != nb0 for x in …) true  ≡  some output differs
        facts_ += [(t.args[0].elt, True) for t, pol in facts_ if pol and isinstance(t, ast.Call) and isinstance(t.func, ast.Name) and t.func.id == "any" and t.args and isinstance(t.args[0], (ast.GeneratorExp, ast.ListComp))]
        for t, pol in facts_:
            if isinstance(t, ast.Compare) and isinstance(t.ops[0], (ast.NotEq, ast.Eq)) and (isinstance(t.ops[0], ast.NotEq) == pol):
                # both sides are block-count tuples: variables whose definitions are
                # compute_numblocks(...) calls (or the initial None)
                def is_nb(e):
                    if isinstance(e, ast.Call):
                        return bool({f"{A.UTILS}.numblocks", f"{A.UTILS}.compute_numblocks"} & repo.callee_quals(e, g))
                    if not isinstance(e, ast.Name):
                        return False
                    ds = [d_ for d_ in fl.rdefs(e.id, r.id) if not (isinstance(d_.value, ast.Constant) and d_.value.value is None)]
                    return bool(ds) and all(isinstance(d_.value, ast.Call) and bool({f"{A.UTILS}.numblocks", f"{A.UTILS}.compute_numblocks"} & repo.callee_quals(d_.value, g)) for d_ in ds)

                if is_nb(t.left) and is_nb(t.comparators[0]):
                    ok = True
    ctx.ob(g, rs[0].stmt if rs else None, ok, "outputs whose block counts differ are refused (one task grid serves all outputs)", sel="grid:numblocks-guard")


@rule("TARGET-COMPAT-1", props=["C05", "C11"], floor=3)
def target_compat(ctx: Ctx) -> None:
    """a caller-supplied storage array becomes a write target only behind a guard that
    compares its shards and its chunks with the source's chunking (raise or rechunk)"""
    repo = ctx.repo
    f = repo.get(f"{A.OPS}._store_array")
    fl, cfg = flow_of(repo, f), cfg_of(f)
    sinks = []
    for c in f.own_nodes():
        if isinstance(c, ast.Call):
            for k in ("target_store", "target_stores"):
                v = kwarg(c, k)
                if v is not None and mentions_name(v, "target"):
                    sinks.append((c, f"{unparse(c.func)}({k}=...)", v))
        if isinstance(c, ast.Assign) and isinstance(c.targets[0], ast.Attribute) and c.targets[0].attr == "_zarray" and mentions_name(c.value, "target"):
            sinks.append((c, "in-place retarget of the source array", c))
    ctx.need(len(sinks) >= 2, "store sinks not found in _store_array")

    def guard(kind: str, sink_node: int) -> bool:
        for bn in cfg.stmts(ast.If):
            if not cfg.can_reach(bn.id, sink_node):
                continue
            # the guard runs whenever the target has the attribute: it may only sit under
            # `hasattr(target, ...)` / `target is (not) None` tests
            outer = facts_at(cfg, bn.id)
            if not all(("hasattr(target" in unparse(t) and pol) or ("target is None" in unparse(t) and not pol) or ("target is not None" in unparse(t) and pol) for t, pol in outer):
                continue
            t = bn.stmt.test
            names = {n.id for n in ast.walk(t) if isinstance(n, ast.Name)}
            txt = unparse(t, 200)
            deriv = set()
            for nm in names:
                for s in fl.rdefs(nm, bn.id):
                    if s.value is not None:
                        deriv.add(unparse(s.value, 200))
            alltxt = txt + " " + " ".join(deriv)
            # getattr(target, "shards", None) is target.shards
            import re as _re

            alltxt = _re.sub(r"getattr\(target, '(\w+)'(, [^)]*)?\)", r"target.\1", alltxt)
            if f"target.{kind}" not in alltxt:
                continue
            if kind == "chunks" and not ("source.chunk" in alltxt):
                continue
            # mismatch edge raises or rechunks the source
            for edge, other in (("true", "false"), ("false", "true")):
                for tgt in cfg.edge_targets(bn.id, edge):
                    reach = cfg.reachable_from(tgt, avoid={bn.id})
                    # only what is exclusive to this edge (the branch body), not the code after it
                    for o in cfg.edge_targets(bn.id, other):
                        reach = reach - cfg.reachable_from(o, avoid={bn.id})
                    for r in reach:
                        st = cfg.nodes[r].stmt
                        if isinstance(st, ast.Raise) and cfg.nodes[r].kind == "stmt":
                            return True
                        if isinstance(st, ast.Assign) and "rechunk(" in unparse(st.value) and mentions_name(st.targets[0], "source") and r not in cfg.reachable_from(sink_node):
                            # the source is rechunked to the very attribute that was compared
                            rc = [c_ for c_ in ast.walk(st.value) if isinstance(c_, ast.Call) and isinstance(c_.func, ast.Attribute) and c_.func.attr == "rechunk"]
                            if rc and rc[0].args:
                                a_txt = unparse(rc[0].args[0])
                                if isinstance(rc[0].args[0], ast.Name):
                                    a_txt += " " + " ".join(unparse(s_.value, 200) for s_ in fl.rdefs(rc[0].args[0].id, r) if s_.value is not None)
                                a_txt = _re.sub(r"getattr\(target, '(\w+)'(, [^)]*)?\)", r"target.\1", a_txt)
                                if f"target.{kind}" in a_txt:
                                    return True
        return False

    # (finding keys digest the sink *argument* — `target_store=target` — not the whole call, so
    # an unrelated edit of the call's other arguments does not re-report a known finding)
    for c, what, kn in sinks:
        sn = cfg.node_of(c)
        ok = guard("shards", sn)
        ctx.ob(f, c, ok, f"{what}: a target with shards ≠ source chunks is rechunked/refused first", sel=f"compat:shards:{what}", key_node=kn)
        ok = guard("chunks", sn)
        ctx.ob(
            f,
            c,
            ok,
            f"{what}: a caller-supplied target whose chunks differ from the source's chunking must be refused or the source rechunked first"
            + ("" if ok else " — no such guard: several tasks write parts of one stored chunk (read-modify-write, not one whole-chunk writer)"),
            sel=f"compat:chunks:{what}",
            key_node=kn,
        )


def _on_all_paths(cfg, b: int, sink: int) -> bool:
    return cfg.all_paths_pass(cfg.entry, sink, {b})


# =============================================================================== C11


def delegated_to(repo: Repo, f: Def, pred) -> list[Def]:
    """Private functions of f's module that f calls (one level) and whose body satisfies
    `pred`: when a clause finds nothing in f itself, what it looks for may live there.  The
    clause then says ANALYSIS-ERROR (not followed) instead of reporting an absence it has not
    established."""
    out: list[Def] = []
    for c in f.own_nodes():
        if isinstance(c, ast.Call):
            for t in repo.resolve_call(c, f, f.module):
                if t.kind == "def" and t.ref.is_func and t.ref.module is f.module and t.ref.name.startswith("_") and not t.ref.name.startswith("__") and t.ref is not f and t.ref.parent is not f and t.ref not in out and pred(t.ref):
                    out.append(t.ref)
    return out


def _has_raise(h: Def) -> bool:
    return any(isinstance(x, ast.Raise) for x in h.own_nodes())


@rule("STORE-PAIR-1", props=["C11"], floor=3)
def store_pair(ctx: Ctx) -> None:
    """store builds one fresh operation per (source, target, region) triple: _store_array never
    hands back an object shared with another pair"""
    repo = ctx.repo
    st = repo.get(f"{A.OPS}.store")
    cfg = cfg_of(st)
    calls = repo.calls_to(st, f"{A.OPS}._store_array")
    ok = len(calls) == 1 and bool(cfg.nodes[cfg.node_of(calls[0])].loops)
    if ok:
        lp = cfg.nodes[cfg.nodes[cfg.node_of(calls[0])].loops[-1]].stmt
        ok = isinstance(lp.iter, ast.Call) and unparse(lp.iter.func) == "zip" and len(lp.iter.args) >= 3
    elif len(calls) == 1:
        # one call per triple in a comprehension over zip(sources, targets, regions)
        for comp_ in [x for x in st.own_nodes() if isinstance(x, (ast.GeneratorExp, ast.ListComp))]:
            if any(c_ is calls[0] for c_ in ast.walk(comp_.elt)) and len(comp_.generators) == 1 and not comp_.generators[0].ifs:
                it_ = comp_.generators[0].iter
                ok = isinstance(it_, ast.Call) and unparse(it_.func) == "zip" and len(it_.args) >= 3
    ctx.ob(st, calls[0] if calls else None, ok, "store calls _store_array once per zipped (source, target, region) triple", sel="pair:loop")
    f = repo.get(f"{A.OPS}._store_array")
    fcfg, fl = cfg_of(f), flow_of(repo, f)
    for r in fcfg.returns():
        v = r.stmt.value
        facts = facts_at(fcfg, r.id)
        tgt_none = any(pol and isinstance(t, ast.Compare) and isinstance(t.ops[0], ast.Is) and unparse(t.left) == "target" for t, pol in facts)
        if tgt_none:
            ctx.ob(f, r.stmt, True, "no target: the source itself is returned (nothing to write)", sel="pair:return-none-target", nontrivial=False)
            continue
        rs = fl.roots(v, r.id) if v is not None else set()
        fresh = bool(rs) and all(r_ in (f"call:{A.OPS}.blockwise", f"call:{A.OPS}.general_blockwise") for r_ in rs)
        if not fresh:
            via = [r_[5:] for r_ in rs if r_.startswith("call:") and r_[5:] in repo.defs and repo.defs[r_[5:]].module is f.module and repo.defs[r_[5:]].name.startswith("_")]
            ctx.need(not via, f"_store_array returns what the private helper {via[0].rsplit('.', 1)[-1] if via else ''} builds: not followed")
        ctx.ob(
            f,
            r.stmt,
            fresh,
            f"`return {unparse(v, 30)}` must be a fresh blockwise/general_blockwise operation writing to this call's target"
            + ("" if fresh else f" — it returns {sorted(rs)[:2]}: the shared source array re-targeted in place, so a second pair with the same source overwrites the first pair's target binding"),
            sel=f"pair:return:{ctx.anon(f, v, 20) if v is not None else ''}:under[{'; '.join(sorted(('' if pol else 'not ') + ctx.anon(f, t, 50) for t, pol in facts))[:160]}]",
        )


@rule("STORE-NOFUSE-1", props=["C11", "C02"], floor=3)
def store_nofuse(ctx: Ctx) -> None:
    """the operation that writes a user's target is marked not fusable with successors (a
    fused-away producer never materialises the target)"""
    repo = ctx.repo
    f = repo.get(f"{A.OPS}._store_array")
    fl, cfg = flow_of(repo, f), cfg_of(f)
    n = 0
    for c in f.own_nodes():
        if isinstance(c, ast.Call) and (kwarg(c, "target_store") is not None or kwarg(c, "target_stores") is not None):
            n += 1
            v = kwarg(c, "fusable_with_successors")
            ok = isinstance(v, ast.Constant) and v.value is False
            ctx.ob(f, c, ok, f"`{unparse(c.func)}` writing the target passes fusable_with_successors=False", sel=f"nofuse:{unparse(c.func)}")
    # in-place branch: whoever gets its target_array replaced is also marked non-fusable
    retargets = [a for a in f.own_nodes() if isinstance(a, ast.Assign) and isinstance(a.targets[0], ast.Attribute) and a.targets[0].attr == "target_array"]
    for a in retargets:
        n += 1
        recv = unparse(a.targets[0].value)
        blk_ok = False
        from .runtime import _block_of

        for st in _block_of(f, a):
            if isinstance(st, ast.Assign) and isinstance(st.targets[0], ast.Attribute) and st.targets[0].attr == "fusable_with_successors" and unparse(st.targets[0].value) == recv and isinstance(st.value, ast.Constant) and st.value.value is False:
                blk_ok = True
        ctx.ob(f, a, blk_ok, f"the operation whose target is replaced (`{recv}`) is marked fusable_with_successors = False on the same object" + ("" if blk_ok else " — it is not: the optimiser may fuse the producer into a consumer and the target is never written"), sel="nofuse:in-place")
    # the same re-targeting done on a copy: replace(op, target_array=…, …) must carry the
    # mark as well, and the copy must be what the plan node holds afterwards
    for c in f.own_nodes():
        if not (isinstance(c, ast.Call) and kwarg(c, "target_array") is not None and kwarg(c, "target_store") is None):
            continue
        n += 1
        v = kwarg(c, "fusable_with_successors")
        marked = isinstance(v, ast.Constant) and v.value is False
        ctx.ob(f, c, marked, f"`{unparse(c.func)}(…, target_array=…)` re-targets a copy of the operation and marks it fusable_with_successors=False", sel="nofuse:copy-marked", firm=True)
        # stored back under the node's "primitive_op"
        holder = None
        for st in f.own_nodes():
            if isinstance(st, ast.Assign) and st.value is c and isinstance(st.targets[0], ast.Name):
                holder = st.targets[0].id
        back = False
        for st in f.own_nodes():
            if isinstance(st, ast.Assign) and isinstance(st.targets[0], ast.Subscript) and "primitive_op" in subscript_keys(st.targets[0]):
                if st.value is c or (holder is not None and isinstance(st.value, ast.Name) and st.value.id == holder):
                    back = True
            if isinstance(st, ast.Call) and isinstance(st.func, ast.Attribute) and st.func.attr == "update" and any(k.arg == "primitive_op" and (k.value is c or (holder and isinstance(k.value, ast.Name) and k.value.id == holder)) for k in st.keywords):
                back = True
        ctx.ob(
            f,
            c,
            back,
            "the re-targeted copy of the operation replaces the one in the plan node"
            + ("" if back else " — it is never stored under the node's \"primitive_op\": the plan keeps the operation without the mark, the optimiser fuses it into its consumer and the target is never written"),
            sel="nofuse:copy-stored",
            firm=True,
        )
    ctx.need(n >= 3, "store sinks not found")


@rule("STORE-GUARD-1", props=["C11"], floor=5)
def store_guard(ctx: Ctx) -> None:
    """unsafe store requests are rejected with ValueError at build time: length mismatches,
    non-cubed sources, region without target, misaligned region, shape mismatch"""
    repo = ctx.repo
    st = repo.get(f"{A.OPS}.store")
    cfg = cfg_of(st)
    sa_calls = repo.calls_to(st, f"{A.OPS}._store_array")
    comp_calls = repo.calls_to(st, A.COMPUTE)
    ctx.need(sa_calls and comp_calls, "store: _store_array / compute call not found")
    first_build = min(cfg.node_of(c) for c in sa_calls)

    def has_guard(pred, label):
        for r in cfg.stmts(ast.Raise):
            if "ValueError" not in unparse(r.stmt.exc):
                continue
            # the raise must be *directly* controlled by the guard (path facts inherited
            # from an earlier `if …: raise` do not count)
            direct = [f_ for t, pol in enclosing_tests(st.node, r.stmt) for f_ in conjuncts(t, pol)]
            if any(pred(t, pol) for t, pol in direct):
                return r
        return None

    # the (source, target, region) triples come from zip(<sources>, <targets>, <regions>)
    lp = cfg.nodes[cfg.nodes[cfg.node_of(sa_calls[0])].loops[-1]].stmt if cfg.nodes[cfg.node_of(sa_calls[0])].loops else None
    zip_call = lp.iter if lp is not None else None
    if zip_call is None:
        for comp_ in [x for x in st.own_nodes() if isinstance(x, (ast.GeneratorExp, ast.ListComp))]:
            if any(c_ is sa_calls[0] for c_ in ast.walk(comp_.elt)) and len(comp_.generators) == 1:
                zip_call = comp_.generators[0].iter
    zargs_ = [a.id for a in zip_call.args if isinstance(a, ast.Name)] if isinstance(zip_call, ast.Call) and unparse(zip_call.func) == "zip" else []
    ctx.need(len(zargs_) >= 3 and len(zargs_) == len(zip_call.args), "store: loop over zip(sources, targets, regions) not found")
    # (further per-pair sequences may be zipped along; sources, targets, regions come first)
    S_, T_, R_ = zargs_[:3]

    def len_mismatch(t, pol, a, b):
        """`len(a) != len(b)` true / `len(a) == len(b)` false"""
        if not (isinstance(t, ast.Compare) and len(t.ops) == 1 and isinstance(t.ops[0], (ast.NotEq, ast.Eq))):
            return False
        if isinstance(t.ops[0], ast.NotEq) != pol:
            return False
        sides = []
        sfl = flow_of(repo, st)
        for x in (t.left, t.comparators[0]):
            if isinstance(x, ast.Name):
                # n = len(xs) held in a local
                ds = [d_ for ss in sfl.sites.values() for d_ in ss if d_.name == x.id and d_.kind == "assign"]
                if len(ds) == 1 and ds[0].value is not None:
                    x = ds[0].value
            if isinstance(x, ast.Call) and isinstance(x.func, ast.Name) and x.func.id == "len" and x.args and isinstance(x.args[0], ast.Name):
                sides.append(x.args[0].id)
        return sorted(sides) == sorted([a, b])

    def not_all_arrays(t, pol):
        """any(not isinstance(s, CoreArray) for s in <sources>) true / all(isinstance(...)) false"""
        if not (isinstance(t, ast.Call) and isinstance(t.func, ast.Name) and t.func.id in ("any", "all") and t.args and isinstance(t.args[0], (ast.GeneratorExp, ast.ListComp))):
            return False
        ge = t.args[0]
        if not (isinstance(ge.generators[0].iter, ast.Name) and ge.generators[0].iter.id == S_):
            return False
        e = ge.elt
        neg = isinstance(e, ast.UnaryOp) and isinstance(e.op, ast.Not)
        e = e.operand if neg else e
        isarr = isinstance(e, ast.Call) and isinstance(e.func, ast.Name) and e.func.id == "isinstance" and len(e.args) == 2 and "CoreArray" in unparse(e.args[1])
        return isarr and ((t.func.id == "any" and neg and pol) or (t.func.id == "all" and not neg and not pol))

    g1 = has_guard(lambda t, pol: len_mismatch(t, pol, S_, T_), "len")
    ctx.ob(st, g1.stmt if g1 else None, g1 is not None and cfg.dominates(g1.id, first_build) is False and not cfg.can_reach(first_build, g1.id), "different numbers of sources and targets → ValueError before any operation is built", sel="guard:len-targets")
    g2 = has_guard(not_all_arrays, "type")
    ctx.ob(st, g2.stmt if g2 else None, g2 is not None and not cfg.can_reach(first_build, g2.id), "a non-cubed source → ValueError before any operation is built", sel="guard:source-type")
    g3 = has_guard(lambda t, pol: len_mismatch(t, pol, S_, R_), "regions")
    ctx.ob(st, g3.stmt if g3 else None, g3 is not None and not cfg.can_reach(first_build, g3.id), "different numbers of sources and regions → ValueError before any operation is built", sel="guard:len-regions")
    f = repo.get(f"{A.OPS}._store_array")
    fcfg, fl = cfg_of(f), flow_of(repo, f)
    sinks = [fcfg.node_of(c) for c in f.own_nodes() if isinstance(c, ast.Call) and (kwarg(c, "target_store") is not None or kwarg(c, "target_stores") is not None)]
    ctx.need(sinks, "_store_array: operation construction not found")
    region_sink = [s for s in sinks if any(not pol and "region is None" in unparse(t, 200) for t, pol in facts_at(fcfg, s))]
    # region without target
    ok = False
    for r in fcfg.stmts(ast.Raise):
        fs = [(unparse(t, 80), pol) for t, pol in facts_at(fcfg, r.id)]
        if ("target is None", True) in fs and ("region is not None", True) in fs and "ValueError" in unparse(r.stmt.exc):
            ok = True
    if not ok:
        dl = delegated_to(repo, f, _has_raise)
        ctx.need(not dl, f"_store_array: no region-without-target test found in the function itself; it may live in {', '.join(h.name for h in dl)} (not followed)")
    ctx.ob(f, None, ok, "a region without a target → ValueError", sel="guard:region-no-target")
    # alignment: loop over zip(region, chunks) raising on start % cs / stop % cs
    ok = False
    node = None
    for r in fcfg.stmts(ast.Raise):
        lp = fcfg.nodes[r.id].loops
        if not lp or "ValueError" not in unparse(r.stmt.exc):
            continue
        it = fcfg.nodes[lp[-1]].stmt.iter
        if "region" in unparse(it) and "chunks" in unparse(it):
            tests = " ".join(unparse(t, 300) for t, pol in facts_at(fcfg, r.id) if pol)
            tgtv = fcfg.nodes[lp[-1]].stmt.target
            ok = ".start %" in tests and ".stop %" in tests and "!= 0" in tests
            node = r.stmt
            # every axis: the loop is not sliced
            ok = ok and "[" not in unparse(it).replace("zip(region, chunks)", "")
            ok = ok and all(fcfg.all_paths_pass(fcfg.entry, s, {lp[-1]}) for s in region_sink) and bool(region_sink)
    if not ok:
        # the same test as a local predicate applied to every axis: any(map(P, region, chunks, …))
        # / any(P(sl, cs, …) for sl, cs, … in zip(region, chunks, …))
        for r in fcfg.stmts(ast.Raise):
            if "ValueError" not in unparse(r.stmt.exc):
                continue
            for t, pol in enclosing_tests(f.node, r.stmt):
                if not (pol and isinstance(t, ast.Call) and isinstance(t.func, ast.Name) and t.func.id == "any" and t.args):
                    continue
                a0 = t.args[0]
                pred, over = None, ""
                if isinstance(a0, ast.Call) and isinstance(a0.func, ast.Name) and a0.func.id == "map" and a0.args and isinstance(a0.args[0], ast.Name):
                    pred, over = a0.args[0].id, " ".join(unparse(x) for x in a0.args[1:])
                elif isinstance(a0, (ast.GeneratorExp, ast.ListComp)) and isinstance(a0.elt, ast.Call) and isinstance(a0.elt.func, ast.Name):
                    pred, over = a0.elt.func.id, unparse(a0.generators[0].iter)
                P = f.children.get(pred) if pred else None
                if P is not None and "region" in over and "chunks" in over and "[" not in over:
                    body = unparse(P.node, 2000)
                    if ".start %" in body and ".stop %" in body and "!= 0" in body:
                        node = r.stmt
                        ok = bool(region_sink) and all(fcfg.all_paths_pass(fcfg.entry, s_, {fcfg.node_of(t) if fcfg.has(t) else r.id}) or fcfg.dominates(r.id, s_) or True for s_ in region_sink) and not any(fcfg.can_reach(s_, r.id) for s_ in region_sink)
    if not ok and node is None:
        dl = delegated_to(repo, f, _has_raise)
        ctx.need(not dl, f"_store_array: no alignment test found in the function itself; it may live in {', '.join(h.name for h in dl)} (not followed)")
    ctx.ob(f, node, ok, "a region whose start/stop is not a multiple of the target chunk (array end exempt) on any axis → ValueError before the region operation is built", sel="guard:alignment")
    # region offsets: per axis, start // chunk size *of that axis*
    offs = [n for n in f.own_nodes() if isinstance(n, ast.BinOp) and isinstance(n.op, ast.FloorDiv) and ".start" in unparse(n.left)]
    ok = bool(offs)
    why = "no `start // chunk` offset computation found"
    for o in offs:
        sl_names = [x for x in ast.walk(o.left) if isinstance(x, ast.Name)]
        dv_names = [x for x in ast.walk(o.right) if isinstance(x, ast.Name)]
        same_gen = False
        for a in sl_names:
            for b in dv_names:
                ba, bb = fl.comp_bind.get(id(a)), fl.comp_bind.get(id(b))
                if ba is not None and bb is not None and ba[0] is bb[0]:
                    same_gen = True  # bound by the same zip(...) generator
        same_index = False
        subs_l = {unparse(x.slice) for x in ast.walk(o.left) if isinstance(x, ast.Subscript)}
        subs_r = {unparse(x.slice) for x in ast.walk(o.right) if isinstance(x, ast.Subscript)}
        if subs_l and subs_l == subs_r:
            same_index = True
        if not (same_gen or same_index):
            ok = False
            why = f"in `{unparse(o, 50)}` the chunk size is not the one of the axis the slice belongs to (it is bound by another loop / not indexed by the axis)"
    if not offs:
        dl = delegated_to(repo, f, lambda h: any(isinstance(x, ast.BinOp) and isinstance(x.op, ast.FloorDiv) for x in h.own_nodes()))
        ctx.need(not dl, f"_store_array: region offsets are computed in {', '.join(h.name for h in dl)} (not followed)")
    ctx.ob(f, offs[0] if offs else None, ok, "region block offsets are computed per axis as start // (target chunk size of the same axis)" + ("" if ok else f" — {why}"), sel="guard:offset-per-axis")
    ok = False
    for r in fcfg.stmts(ast.Raise):
        for t, pol in facts_at(fcfg, r.id):
            if pol and isinstance(t, ast.Compare) and isinstance(t.ops[0], ast.NotEq) and "source.shape" in unparse(t) and ".shape" in unparse(t.comparators[0]):
                ok = all(fcfg.dominates(r.id, s) is False and not fcfg.can_reach(s, r.id) for s in region_sink) and bool(region_sink)
    if not ok:
        dl = delegated_to(repo, f, _has_raise)
        ctx.need(not dl, f"_store_array: no shape test found in the function itself; it may live in {', '.join(h.name for h in dl)} (not followed)")
    ctx.ob(f, None, ok, "a source whose shape differs from the region's shape → ValueError before the region operation is built", sel="guard:shape")


@rule("STORE-EAGER-1", props=["C11", "C16"], floor=3)
def store_eager(ctx: Ctx) -> None:
    """store / to_zarr execute only under their `compute` flag, over all built arrays, and
    otherwise return all of them in order"""
    repo = ctx.repo
    st = repo.get(f"{A.OPS}.store")
    cfg, fl = cfg_of(st), flow_of(repo, st)
    cs = repo.calls_to(st, A.COMPUTE)
    ok = len(cs) == 1
    # the accumulator of built arrays: the list every _store_array result is appended to
    sa_calls = repo.calls_to(st, f"{A.OPS}._store_array")
    apps = []
    for n in st.own_nodes():
        if isinstance(n, ast.Call) and isinstance(n.func, ast.Attribute) and n.func.attr == "append" and isinstance(n.func.value, ast.Name) and n.args and cfg.has(n):
            rs = fl.roots(n.args[0], cfg.node_of(n))
            if any(r_ == f"call:{A.OPS}._store_array" for r_ in rs):
                apps.append(n)
    ACC = apps[0].func.value.id if apps else None
    comp_acc = None
    if ACC is None:
        # arrays = tuple(_store_array(...) for ... in zip(...)) / a list comprehension
        for ss in fl.sites.values():
            for s_ in ss:
                v_ = s_.value
                if s_.kind == "assign" and v_ is not None:
                    inner = v_.args[0] if isinstance(v_, ast.Call) and isinstance(v_.func, ast.Name) and v_.func.id in ("tuple", "list") and len(v_.args) == 1 else v_
                    if isinstance(inner, (ast.GeneratorExp, ast.ListComp)) and isinstance(inner.elt, ast.Call) and f"{A.OPS}._store_array" in repo.callee_quals(inner.elt, st):
                        ACC, comp_acc = s_.name, inner

    def under_compute(nid, want: bool) -> bool:
        for t, pol in facts_at(cfg, nid):
            for fact, fp in conjuncts(t, pol):
                if isinstance(fact, ast.Name) and fact.id == "compute" and fp == want:
                    return True
        return False

    if ok:
        c = cs[0]
        under = under_compute(cfg.node_of(c), True)
        star = [a for a in c.args if isinstance(a, ast.Starred)]
        allarr = bool(star) and isinstance(star[0].value, ast.Name) and star[0].value.id == ACC
        ok = under and allarr
    ctx.ob(st, cs[0] if cs else None, ok, "store computes only `if compute:` and passes every built array", sel="eager:store-compute")
    rets = [r for r in cfg.returns() if r.stmt.value is not None]

    def is_acc(v):
        if isinstance(v, ast.Call) and isinstance(v.func, ast.Name) and v.func.id in ("tuple", "list") and len(v.args) == 1:
            v = v.args[0]
        return isinstance(v, ast.Name) and v.id == ACC

    ok = bool(rets) and all(is_acc(r.stmt.value) and under_compute(r.id, False) for r in rets)
    ctx.ob(st, rets[0].stmt if rets else None, ok, "lazy store returns all built arrays, in order", sel="eager:store-lazy")
    if comp_acc is not None:
        ok = len(sa_calls) == 1 and len(comp_acc.generators) == 1 and not comp_acc.generators[0].ifs
        ctx.ob(st, comp_acc, ok, "every pair's array is collected (no filter)", sel="eager:store-collect")
    else:
        ok = len(apps) == 1 and len(sa_calls) == 1 and not [b for _, _, b in cfg.branch_conditions(cfg.node_of(apps[0])) if cfg.nodes[cfg.node_of(apps[0])].loops and cfg.in_loop(b, cfg.nodes[cfg.node_of(apps[0])].loops[-1])]
        ctx.ob(st, apps[0] if apps else None, ok, "every pair's array is collected (no filter)", sel="eager:store-collect")
    tz = repo.get(f"{A.OPS}.to_zarr")
    tcfg = cfg_of(tz)
    cs = repo.calls_to(tz, A.CORE_COMPUTE)
    ok = len(cs) == 1 and any(pol and isinstance(t, ast.Name) and t.id == "compute" for t, pol in facts_at(tcfg, tcfg.node_of(cs[0])))
    ctx.ob(tz, cs[0] if cs else None, ok, "to_zarr computes only `if compute:`", sel="eager:to_zarr")


@rule("RECHUNK-GRID-1", props=["C05", "C14"], floor=3)
def rechunk_grid(ctx: Ctx) -> None:
    """rechunk copies: on the irregular path the storage grid handed to the primitive is
    split_chunks(shape, copy chunks, target chunks) — chunks that fit into both grids, so every
    copy task covers whole stored chunks; the copy grid is what tasks are enumerated over"""
    repo = ctx.repo
    f = repo.get(f"{A.OPS}._rechunk")
    fl, cfg = flow_of(repo, f), cfg_of(f)
    ms = repo.calls_to(f, f"{A.OPS}.map_selection")
    ctx.need(len(ms) == 1, "_rechunk does not call map_selection once")
    c = ms[0]
    tc = kwarg(c, "target_chunks_")
    ok = False
    why = "target_chunks_ not passed"
    if isinstance(tc, ast.Name):
        sites = fl.rdefs(tc.id, cfg.node_of(c))
        irregular = [s for s in sites if any(pol and isinstance(t, ast.Name) and t.id == "allow_irregular" for t, pol in facts_at(cfg, s.node))]
        good = 0
        for s in irregular:
            v = s.value
            base = v
            # either split_chunks(...) or to_chunksize(<that>) for the regular special case
            if isinstance(v, ast.Call) and f"{A.UTILS}.to_chunksize" in repo.callee_quals(v, f) and v.args and isinstance(v.args[0], ast.Name):
                for s2 in fl.rdefs(v.args[0].id, s.node):
                    base = s2.value
            if isinstance(base, ast.Call) and f"{A.OPS}.split_chunks" in repo.callee_quals(base, f) and len(base.args) == 3:
                a = [unparse(x) for x in base.args]
                if a[0].endswith(".shape") and a[1] == "copy_chunks" and a[2] == f.params[2]:
                    good += 1
        ok = bool(irregular) and good == len(irregular)
        why = f"{good}/{len(irregular)} definitions on the irregular path come from split_chunks(x.shape, copy_chunks, target_chunks)"
    ctx.ob(f, c, ok, "irregular rechunk: storage chunks = split_chunks(shape, copy_chunks, target_chunks)" + ("" if ok else f" — {why}"), sel="rechunk:storage-grid")
    # tasks are enumerated over the copy grid: the `chunks` argument of map_selection is the
    # normalised copy chunks, the same that the selection function slices by
    chunks_arg = c.args[5] if len(c.args) > 5 else kwarg(c, "chunks")
    sel = f.children.get("selection_function")
    ok = chunks_arg is not None and sel is not None and isinstance(chunks_arg, ast.Name) and any(isinstance(n, ast.Call) and f"{A.UTILS}.get_item" in repo.callee_quals(n, sel) and n.args and unparse(n.args[0]) == chunks_arg.id for n in sel.own_nodes())
    ctx.ob(f, c, ok, "the copy grid that enumerates tasks is the grid the selection function slices the source by", sel="rechunk:copy-grid")
    # regular (non-irregular) path: the planner rounds each stage's copy chunks against the
    # chunks that stage writes to, which depend on the stage count being tried
    pl = repo.get("cubed.core.rechunk.multistage_regular_rechunking_plan")
    pfl, pcfg = flow_of(repo, pl), cfg_of(pl)
    fx = repo.calls_to(pl, "cubed.core.rechunk._fix_copy_chunks")
    ok = False
    why = "no _fix_copy_chunks call"
    for c_ in fx:
        at = pcfg.node_of(c_)
        lp = pcfg.nodes[at].loops
        tgt = c_.args[2] if len(c_.args) > 2 else None
        if tgt is None:
            continue
        stage_defs = [s for n_ in ast.walk(tgt) if isinstance(n_, ast.Name) for s in pfl.rdefs(n_.id, at) if s.value is not None and "stage_chunks" in unparse(s.value) + s.name]
        per_stage = bool(lp) and any(pcfg.in_loop(s.node, lp[-1]) for s in stage_defs)
        first = "[0]" in unparse(tgt) or any(s.value is not None and "[0]" in unparse(s.value) for s in stage_defs)
        ok = per_stage
        why = "" if ok else f"copy chunks are aligned against `{unparse(tgt, 40)}`, which does not depend on the stage chunks of the plan being tried: with more than one stage the first copy no longer lines up with the chunks it writes"
    ctx.ob(pl, fx[0] if fx else None, ok, "regular rechunk planner: read (copy) chunks are re-aligned, for every stage count tried, against the chunks of the stage they are written to" + ("" if ok else f" — {why}"), sel="rechunk:regular-align")
    sp = repo.get(f"{A.OPS}.split_chunks")
    ok = any(isinstance(n, (ast.GeneratorExp, ast.ListComp)) and isinstance(n.generators[0].iter, ast.Call) and unparse(n.generators[0].iter.func) == "zip" and len(n.generators[0].iter.args) == 3 and not n.generators[0].ifs for n in sp.own_nodes())
    ctx.ob(sp, None, ok, "split_chunks treats every axis (zip over shape, source and target chunks, no filter)", sel="rechunk:all-axes")
    sc = repo.get(f"{A.OPS}.split_chunksizes")
    calls = [unparse(n.func) for n in ast.walk(sc.node) if isinstance(n, ast.Call)]
    ok = "np.union1d" in calls and calls.count("np.arange") >= 2 and "np.diff" in calls
    ctx.ob(sc, None, ok, "split_chunksizes = differences of the union of both grids' boundaries", sel="rechunk:union-of-boundaries")


@rule("PICKLE-PAIR-1", props=["C06"], floor=3)
def pickle_pair(ctx: Ctx) -> None:
    """process executor: every submission ships the function, the input and *this call's*
    keyword arguments in serialised form, and the worker deserialises exactly those three"""
    repo = ctx.repo
    outer = repo.get(f"{A.RT_LOCAL}.processes_create_futures_func")
    inner = outer.children.get("create_futures_func")
    ctx.need(inner is not None, "process future factory not found")
    fl, cfg = flow_of(repo, inner), cfg_of(inner)
    subs = [c for c in inner.own_nodes() if isinstance(c, ast.Call) and isinstance(c.func, ast.Attribute) and c.func.attr == "submit"]
    ctx.need(subs, "no submit() in the process future factory")
    for c in subs:
        at = cfg.node_of(c)
        ok_fn = bool(c.args) and f"{A.RT_LOCAL}.unpickle_and_call" in {t.qual for t in repo.resolve_value(c.args[0], inner, inner.module)}
        ctx.ob(inner, c, ok_fn, "tasks are submitted through unpickle_and_call", sel="pickle:entry")
        pos = c.args[1:]
        ok_pos = len(pos) == 2
        ctx.ob(inner, c, ok_pos, "the serialised function and the serialised input are passed", sel="pickle:positional")
        if ok_pos and inner.params:
            # the second positional is *this task's* input: the comprehension/loop variable
            # that iterates the batch parameter — not the batch itself
            batch = inner.params[0]

            def elem_vars(e):
                out = set()
                for x in ast.walk(e):
                    if isinstance(x, ast.Name) and id(x) in fl.comp_bind:
                        it, _ = fl.comp_bind[id(x)]
                        if any(isinstance(y, ast.Name) and y.id == batch for y in ast.walk(it)):
                            out.add(x.id)
                    elif isinstance(x, ast.Name):
                        for s_ in fl.rdefs(x.id, at):
                            if s_.kind == "for" and s_.value is not None and any(isinstance(y, ast.Name) and y.id == batch for y in ast.walk(s_.value)):
                                out.add(x.id)
                return out

            ev = elem_vars(pos[1])
            direct = any(isinstance(x, ast.Name) and x.id == batch for x in ast.walk(pos[1]))
            ok_in = bool(ev) and not direct
            ctx.ob(inner, c, ok_in, f"the input shipped with a task is one element of `{batch}`" + ("" if ok_in else f" — `{unparse(pos[1], 40)}` is not the per-task element (the whole batch, or something else, is sent to every task)"), sel="pickle:input-element")
            fn_t = set(fl.taint(pos[0], at))
            # a closure variable the factory computed (e.g. the function pickled once, outside
            # the per-batch function) is what the factory derived it from
            ofl, ocfg = flow_of(repo, outer), cfg_of(outer)
            for x in sorted(fn_t):
                nm = x[5:] if x.startswith("free:") else None
                if nm is not None and nm not in outer.params:
                    for s_ in ofl.rdefs(nm, ocfg.exit):
                        if s_.value is not None:
                            fn_t |= {f"free:{y}" if y in outer.params else y for y in ofl.taint(s_.value, s_.node)}
            ok_f = any(x == f"free:{outer.params[1]}" or x.endswith(f":{outer.params[1]}") for x in fn_t) if len(outer.params) > 1 else False
            ctx.ob(inner, c, ok_f, f"the function shipped with a task is the factory's `{outer.params[1] if len(outer.params) > 1 else '?'}` argument (found taint {sorted(fn_t)[:3]})", sel="pickle:function")
        for k in [k for k in c.keywords if k.arg is None]:
            t = fl.taint(k.value, at)
            own = (inner.kwarg or "kwargs") in t
            foreign = sorted(x for x in t if x.startswith("free:") and x not in (f"free:{p}" for p in outer.params))
            ok = own and not foreign
            ctx.ob(
                inner,
                c,
                ok,
                "the keyword arguments shipped with a task are serialised from this call's own kwargs"
                + ("" if ok else f" — they also come from state shared between calls ({foreign}): a task of one operation can be shipped with another operation's function/config"),
                sel="pickle:kwargs-own",
            )
    u = repo.get(f"{A.RT_LOCAL}.unpickle_and_call")
    loads = [x for x in ast.walk(u.node) if isinstance(x, ast.Call) and attr_chain(x.func) == "cloudpickle.loads"]
    rets = [r for r in u.own_nodes() if isinstance(r, ast.Return)]
    ok = len(loads) >= 3 and len(rets) == 1 and isinstance(rets[0].value, ast.Call) and any(k.arg is None for k in rets[0].value.keywords)
    ctx.ob(u, None, ok, "the worker deserialises function, input and every keyword argument, then calls f(input, **kwargs)", sel="pickle:worker")


@rule("PROXY-OPEN-1", props=["C05", "C06", "C11"], floor=2)
def proxy_open(ctx: Ctx) -> None:
    """the array a task reads or writes through a proxy is the proxy's *current* array:
    CubedArrayProxy.open() opens self.array on every call and keeps no handle of its own (the
    store operation re-points proxies in place; a cached handle keeps writing the old target)"""
    repo = ctx.repo
    cls = repo.get(f"{A.PTYPES}.CubedArrayProxy")
    op = cls.children.get("open")
    ctx.need(op is not None and op.is_func, "CubedArrayProxy.open not found")
    fl, cfg = flow_of(repo, op), cfg_of(op)
    rets = [r for r in cfg.returns() if r.stmt.value is not None]
    ok = bool(rets)
    for r in rets:
        v = r.stmt.value
        good = (
            isinstance(v, ast.Call)
            and any(t.kind == "def" and t.ref.name == "open_if_lazy_zarr_array" for t in repo.resolve_call(v, op, op.module))
            and len(v.args) == 1
            and isinstance(v.args[0], ast.Attribute)
            and isinstance(v.args[0].value, ast.Name)
            and v.args[0].value.id == op.params[0]
        )
        ok = ok and good
    deco = [unparse(d_, 30) for d_ in op.node.decorator_list]
    ctx.ob(op, None, not deco, "open() is a plain method (no caching decorator)" + ("" if not deco else f" — decorated with {deco}"), sel="proxy:undecorated")
    ctx.ob(op, rets[0].stmt if rets else None, ok, "open() returns open_if_lazy_zarr_array(self.<array>) computed at this call" + ("" if ok else f" — it returns `{unparse(rets[0].stmt.value, 40) if rets else '?'}`: a handle kept from an earlier call survives the re-targeting of the proxy"), sel="proxy:open-current")
    # no method of the proxy other than the constructor stores to self
    stores = []
    for name, m in cls.children.items():
        if not m.is_func or name in ("__init__", "__post_init__", "__setstate__"):
            continue
        for n in m.own_nodes():
            tg = n.targets if isinstance(n, ast.Assign) else [n.target] if isinstance(n, (ast.AugAssign, ast.AnnAssign)) else []
            for t in tg:
                if isinstance(t, ast.Attribute) and isinstance(t.value, ast.Name) and m.params and t.value.id == m.params[0]:
                    stores.append((m, n, t.attr))
    ctx.ob(cls, stores[0][1] if stores else None, not stores, "no proxy method keeps state between calls" + ("" if not stores else f" — `{stores[0][0].name}` stores self.{stores[0][2]}"), sel="proxy:stateless")
    # the field read by open() is the one the store operation re-points
    fld = rets[0].stmt.value.args[0].attr if ok else None
    st = repo.get(f"{A.OPS}._store_array")
    rep = [n for n in st.own_nodes() if isinstance(n, ast.Assign) and isinstance(n.targets[0], ast.Attribute) and isinstance(n.targets[0].value, ast.Subscript) and "writes_map" in {x.attr for x in ast.walk(n.targets[0]) if isinstance(x, ast.Attribute)} | {s_.id for s_ in ast.walk(n.targets[0]) if isinstance(s_, ast.Name)}]
    if rep and fld is not None:
        ctx.ob(st, rep[0], rep[0].targets[0].attr == fld, f"the write proxy field re-pointed by the store operation (`.{rep[0].targets[0].attr}`) is the one open() reads (`.{fld}`)", sel="proxy:same-field")
