"""C08 (parallel-map bookkeeping), C07 (barriers), C13 (events) — runtime rules."""

from __future__ import annotations

import ast

from .. import anchors as A
from ..astutil import kwarg_via, kwarg, mentions_name, unparse
from ..cfg import CFG, cfg_of
from ..effects import effects_of
from ..flow import flow_of
from ..index import Def, Repo, attr_chain, walk_own
from ..linform import linear_of
from ..runner import Ctx, rule

MUTATORS_GROW = {"add", "update", "append", "extend", "setdefault"}
MUTATORS_SHRINK = {"remove", "discard", "pop", "clear", "popitem"}


def conjuncts(test: ast.AST, pol: bool) -> list[tuple[ast.AST, bool]]:
    """Flatten (test, polarity) into atomic facts known to hold."""
    if isinstance(test, ast.UnaryOp) and isinstance(test.op, ast.Not):
        return conjuncts(test.operand, not pol)
    if isinstance(test, ast.BoolOp):
        if (isinstance(test.op, ast.And) and pol) or (isinstance(test.op, ast.Or) and not pol):
            out = []
            for v in test.values:
                out += conjuncts(v, pol)
            return out
    return [(test, pol)]


def facts_at(cfg: CFG, nid: int) -> list[tuple[ast.AST, bool]]:
    out = []
    for t, pol, _ in cfg.branch_conditions(nid):
        out += conjuncts(t, pol)
    return out


class MapShape:
    """Role discovery inside the parallel map (async generator awaiting asyncio.wait)."""

    def __init__(self, ctx: Ctx, d: Def):
        self.ctx = ctx
        self.repo: Repo = ctx.repo
        self.d = d
        self.cfg = cfg_of(d)
        self.fl = flow_of(self.repo, d)
        need = ctx.need
        # main loop: `while P:` whose body re-partitions P with a wait call
        self.main = None
        for n in self.cfg.stmts(ast.While):
            if isinstance(n.stmt.test, ast.Name):
                self.main = n
                break
        need(self.main is not None, f"no `while <pending>` main loop in {d.qual}")
        self.pending = self.main.stmt.test.id
        # partition statement: finished, pending = await wait(pending, ...)
        self.partition = None
        self.finished = None
        for n in self.cfg.stmts(ast.Assign):
            st = n.stmt
            if (
                self.cfg.in_loop(n.id, self.main.id)
                and isinstance(st.targets[0], ast.Tuple)
                and len(st.targets[0].elts) == 2
                and all(isinstance(e, ast.Name) for e in st.targets[0].elts)
                and st.targets[0].elts[1].id == self.pending
                and mentions_name(st.value, self.pending)
            ):
                self.partition = n
                self.finished = st.targets[0].elts[0].id
        need(self.partition is not None, "no `finished, pending = wait(pending)` partition")
        # loop over the finished batch
        self.fin_loop = None
        for n in self.cfg.stmts((ast.For, ast.AsyncFor)):
            if self.cfg.in_loop(n.id, self.main.id) and mentions_name(n.stmt.iter, self.finished) and isinstance(n.stmt.target, ast.Name):
                self.fin_loop = n
        need(self.fin_loop is not None, "no loop over the finished batch")
        self.task = self.fin_loop.stmt.target.id
        self.task_names = {self.task}
        changed = True
        while changed:
            changed = False
            for nid, sites in self.fl.sites.items():
                for s in sites:
                    if s.kind == "assign" and isinstance(s.value, ast.Name) and s.value.id in self.task_names and s.name not in self.task_names and self.cfg.in_loop(nid, self.fin_loop.id):
                        self.task_names.add(s.name)
                        changed = True
        # containers initialised before the main loop
        self.containers: dict[str, ast.AST] = {}
        for nid, sites in self.fl.sites.items():
            for s in sites:
                if s.kind != "assign" or self.cfg.nodes[nid].loops:
                    continue
                if not self.cfg.dominates(nid, self.main.id):
                    continue
                v = s.value
                if isinstance(v, (ast.Dict, ast.DictComp, ast.Set, ast.SetComp)) or (
                    isinstance(v, ast.Call) and isinstance(v.func, ast.Name) and v.func.id in ("set", "dict")
                ):
                    self.containers[s.name] = v
        # start/end time maps: arguments bound to should_launch_backup's parameters
        self.start_map = self.end_map = None
        slb = self.repo.get(f"{A.RT_BACKUP}.should_launch_backup")
        eff = effects_of(self.repo)
        self.slb_calls = self.repo.calls_to(d, slb.qual)
        for c in self.slb_calls:
            b = eff.bind(c, slb, d)
            for p, attr in (("start_times", "start_map"), ("end_times", "end_map")):
                v = b.get(p)
                if v and v[0] == "expr" and isinstance(v[1], ast.Name):
                    setattr(self, attr, v[1].id)
        # input map: dict built from the future factory's result — initialised by a dict
        # comprehension over a call of a function-valued parameter, or updated with one
        # (possibly inside a nested helper that closes over the container)
        self.input_map = None

        def from_factory(expr: ast.AST, scope: Def) -> bool:
            for x in ast.walk(expr):
                if isinstance(x, ast.DictComp):
                    it = x.generators[0].iter
                    if isinstance(it, ast.Call) and any(t.kind == "param" for t in self.repo.resolve_call(it, scope, scope.module)):
                        return True
            return False

        self.helpers: dict[str, Def] = {k: v for k, v in d.children.items() if v.is_func}
        for name, v in self.containers.items():
            if from_factory(v, d):
                self.input_map = name
        if self.input_map is None:
            for scope in [d] + list(self.helpers.values()):
                sfl = flow_of(self.repo, scope)
                for n in scope.own_nodes():
                    if isinstance(n, ast.Call) and isinstance(n.func, ast.Attribute) and n.func.attr == "update" and isinstance(n.func.value, ast.Name) and n.func.value.id in self.containers and n.args:
                        a = n.args[0]
                        srcs = [a]
                        if isinstance(a, ast.Name):
                            srcs = [s_.value for ss in sfl.sites.values() for s_ in ss if s_.name == a.id and s_.value is not None]
                        if any(from_factory(x, scope) for x in srcs):
                            self.input_map = n.func.value.id
        need(self.input_map, "input map (future → input) not found")
        # twin map: another container that receives `X[<future>] = <future>` stores inside
        # the main loop (pairing of an original with its backup)
        self.twin = None
        for name in self.containers:
            if name == self.input_map:
                continue
            for n in d.own_nodes():
                if (
                    isinstance(n, ast.Assign)
                    and isinstance(n.targets[0], ast.Subscript)
                    and isinstance(n.targets[0].value, ast.Name)
                    and n.targets[0].value.id == name
                    and isinstance(n.targets[0].slice, ast.Name)
                    and isinstance(n.value, ast.Name)
                    and self.cfg.has(n)
                    and self.cfg.in_loop(self.cfg.node_of(n), self.main.id)
                ):
                    self.twin = name
        self.yields = [n for n in d.own_nodes() if isinstance(n, (ast.Yield, ast.YieldFrom))]
        need(self.yields, "parallel map yields nothing")

    def bookkeeping(self) -> set[str]:
        bk = {self.input_map}
        for x in (self.start_map, self.end_map, self.twin):
            if x:
                bk.add(x)
        return bk


def _map_def(ctx: Ctx) -> Def:
    return ctx.repo.get(f"{A.RT_ASYNC}.async_map_unordered")


@rule("MAP-MONO-1", props=["C08", "C07"], floor=3)
def map_mono(ctx: Ctx) -> None:
    """bookkeeping containers read by key for in-flight tasks are never rebound inside the
    main loop (they only grow, or shrink by the processed task and its twin)"""
    d = _map_def(ctx)
    m = MapShape(ctx, d)
    bk = m.bookkeeping() | {m.pending}
    seen = 0
    for name in sorted(bk):
        rebinds = []
        for nid, sites in m.fl.sites.items():
            for s in sites:
                if s.name != name or nid == m.partition.id:
                    continue
                if not m.cfg.in_loop(nid, m.main.id):
                    continue
                if s.kind in ("assign", "unpack", "for", "with", "walrus"):
                    # a rebinding whose right-hand side merges the old container is a superset
                    rhs = s.value
                    merges = False
                    if s.kind == "assign" and rhs is not None:
                        for sub in ast.walk(rhs):
                            if isinstance(sub, ast.Dict):
                                for k, v in zip(sub.keys, sub.values):
                                    if k is None and isinstance(v, ast.Name) and v.id == name:
                                        merges = True
                            if isinstance(sub, ast.BinOp) and isinstance(sub.op, ast.BitOr):
                                if any(isinstance(x, ast.Name) and x.id == name for x in (sub.left, sub.right)):
                                    merges = True
                            if isinstance(sub, ast.Call) and isinstance(sub.func, ast.Name) and sub.func.id in ("dict", "set") and sub.args:
                                if isinstance(sub.args[0], ast.Name) and sub.args[0].id == name:
                                    merges = True
                            if isinstance(sub, ast.Call) and isinstance(sub.func, ast.Attribute) and sub.func.attr in ("union", "copy"):
                                if isinstance(sub.func.value, ast.Name) and sub.func.value.id == name:
                                    merges = True
                    if not merges:
                        rebinds.append((nid, s))
        seen += 1
        # the set of in-flight futures also carries C07's barrier: a stream that forgets
        # futures is "drained" while their tasks are still writing
        pr = ["C08", "C07"] if name == m.pending else ["C08"]
        if not rebinds:
            ctx.ob(d, None, True, f"container `{name}` is never rebound inside the main loop", sel=f"mono:{name}", props=pr)
        for nid, s in rebinds:
            st = m.cfg.nodes[nid].stmt
            ctx.ob(
                d,
                st,
                False,
                f"`{name}` is rebound inside the main loop (`{unparse(st, 70)}`): entries of tasks still "
                "in flight are dropped" + (" — the map ends while those tasks are still running, so the next operation starts before its producers have finished" if name == m.pending else ", later lookups by those tasks fail"),
                sel=f"mono:{name}",
                props=pr,
            )
    ctx.need(seen >= 3, "fewer than 3 bookkeeping containers discovered")


@rule("MAP-PAIR-1", props=["C08", "C07"], floor=2)
def map_pair(ctx: Ctx) -> None:
    """every statement that adds futures to `pending` is paired, in the same block, with
    registering them in the input map and the start-time map"""
    d = _map_def(ctx)
    m = MapShape(ctx, d)
    n_sites = 0
    for n in d.own_nodes():
        if not (isinstance(n, ast.Call) and isinstance(n.func, ast.Attribute) and n.func.attr in ("add", "update") and isinstance(n.func.value, ast.Name) and n.func.value.id == m.pending):
            continue
        nid = m.cfg.node_of(n)
        if not m.cfg.in_loop(nid, m.main.id):
            continue
        n_sites += 1
        # futures produced by a nested helper: the pairing obligation moves into the helper
        hcall = [a for a in n.args if isinstance(a, ast.Call) and isinstance(a.func, ast.Name) and a.func.id in m.helpers]
        if hcall:
            h = m.helpers[hcall[0].func.id]
            for cont, label in ((m.input_map, "input map"), (m.start_map, "start-time map")):
                if cont is None:
                    continue
                ok = _helper_registers(h, cont)
                ctx.ob(d, n, ok, f"futures returned by helper `{h.name}` and added to `{m.pending}` are registered in the {label} `{cont}` inside the helper", sel=f"pair:{label}:helper:{h.name}")
            continue
        new = {x.id for a in n.args for x in ast.walk(a) if isinstance(x, ast.Name)} - {m.pending}
        block = _block_of(d, m.cfg.nodes[nid].stmt)
        for cont, label in ((m.input_map, "input map"), (m.start_map, "start-time map")):
            if cont is None:
                continue
            ok = False
            for st in block:
                for sub in walk_own(st, include_root=True):
                    # cont[new] = ... | cont.update(... new ...) | cont = {... new ...}
                    if isinstance(sub, ast.Assign):
                        for t in sub.targets:
                            if isinstance(t, ast.Subscript) and isinstance(t.value, ast.Name) and t.value.id == cont and (mentions_name(t.slice, *new)):
                                ok = True
                            if isinstance(t, ast.Name) and t.id == cont and mentions_name(sub.value, *new):
                                ok = True
                    if isinstance(sub, ast.AugAssign) and isinstance(sub.target, ast.Name) and sub.target.id == cont and mentions_name(sub.value, *new):
                        ok = True
                    if isinstance(sub, ast.Call) and isinstance(sub.func, ast.Attribute) and sub.func.attr in ("update", "setdefault") and isinstance(sub.func.value, ast.Name) and sub.func.value.id == cont and any(mentions_name(a, *new) for a in sub.args):
                        ok = True
            ctx.ob(
                d,
                n,
                ok,
                f"futures added to `{m.pending}` by `{unparse(n, 60)}` must be registered in the {label} `{cont}` in the same block"
                + ("" if ok else " — they are not: a later lookup by such a future fails / its input is unknown"),
                sel=f"pair:{label}:{unparse(n.args[0], 30) if n.args else ''}",
            )
    # initial population: pending and start map are derived from the input map
    init_ok = False
    for nid, sites in m.fl.sites.items():
        for s in sites:
            if s.name == m.pending and s.kind == "assign" and not m.cfg.nodes[nid].loops:
                if mentions_name(s.value, m.input_map):
                    init_ok = True
                if isinstance(s.value, ast.Call) and isinstance(s.value.func, ast.Name) and s.value.func.id in m.helpers and _helper_registers(m.helpers[s.value.func.id], m.input_map):
                    init_ok = True
    ctx.ob(d, None, init_ok, f"initial `{m.pending}` is derived from the input map `{m.input_map}`", sel="pair:init")
    ctx.need(n_sites >= 1, "no pending.add/update site in the main loop")


def _helper_registers(h: Def, cont: str) -> bool:
    """the nested helper stores what it returns into container `cont` (update / item store)"""
    rets = [r for r in h.own_nodes() if isinstance(r, ast.Return) and r.value is not None]
    if not rets:
        return False
    names = {x.id for r in rets for x in ast.walk(r.value) if isinstance(x, ast.Name)}
    for n in h.own_nodes():
        if isinstance(n, ast.Call) and isinstance(n.func, ast.Attribute) and n.func.attr in ("update", "setdefault") and isinstance(n.func.value, ast.Name) and n.func.value.id == cont and any(mentions_name(a, *names) for a in n.args):
            return True
        if isinstance(n, ast.Assign) and isinstance(n.targets[0], ast.Subscript) and isinstance(n.targets[0].value, ast.Name) and n.targets[0].value.id == cont and mentions_name(n.targets[0].slice, *names):
            return True
    return False


def _block_of(d: Def, stmt: ast.AST) -> list[ast.stmt]:
    """The statement list (same basic block level) that contains ``stmt``."""
    for n in ast.walk(d.node):
        for f in ("body", "orelse", "finalbody"):
            v = getattr(n, f, None)
            if isinstance(v, list) and any(x is stmt for x in v):
                return v
    return [stmt]


def _is_exc_call(x: ast.AST, m: "MapShape") -> bool:
    return (
        isinstance(x, ast.Call)
        and isinstance(x.func, ast.Attribute)
        and x.func.attr == "exception"
        and isinstance(x.func.value, ast.Name)
        and x.func.value.id in m.task_names
    )


@rule("MAP-RAISE-1", props=["C08"], floor=2)
def map_raise(ctx: Ctx) -> None:
    """a failed task's exception is re-raised unless a live or successful twin exists; results
    are yielded only for tasks without exception"""
    d = _map_def(ctx)
    m = MapShape(ctx, d)
    cfg = m.cfg
    # the exception branch
    exc_br = None
    for n in cfg.stmts(ast.If):
        if cfg.in_loop(n.id, m.fin_loop.id):
            if any(_is_exc_call(x, m) for x in ast.walk(n.stmt.test)):
                exc_br = n
                break
    ctx.need(exc_br is not None, "no branch testing `task.exception()` in the finished loop")
    ynodes = {cfg.node_of(y) for y in m.yields}
    # (a) at every yield it is known that the task has no exception
    true_t = cfg.edge_targets(exc_br.id, "true")
    reach_true = set()
    for t in true_t:
        reach_true |= cfg.reachable_from(t, avoid={m.fin_loop.id})
    for y in ynodes:
        ok = any(_is_exc_call(f, m) and pol is False for f, pol in facts_at(cfg, y))
        ctx.ob(
            d,
            cfg.nodes[y].stmt,
            ok,
            "a result is yielded only where `task.exception()` is known to be falsy"
            + ("" if ok else " — this yield is reachable for a task that failed"),
            sel="raise:yield-clean",
        )
    # (b) every way out of the exception branch that is not a raise is guarded by the twin map
    exits = []
    for nid in reach_true:
        nd = cfg.nodes[nid]
        if isinstance(nd.stmt, ast.Continue) and nd.kind == "stmt":
            exits.append(nd)
        for s, lab in nd.succ:
            if s == m.fin_loop.id and not isinstance(nd.stmt, ast.Continue):
                exits.append(nd)  # falls through to next iteration
    raises = [cfg.nodes[n] for n in reach_true if isinstance(cfg.nodes[n].stmt, ast.Raise) and cfg.nodes[n].kind == "stmt"]
    ctx.ob(d, exc_br.stmt, bool(raises), "the exception branch re-raises the task's exception", sel="raise:has-raise")
    for r in raises:
        to_raise_exit = any(s == cfg.raise_ for s, _ in r.succ)
        ctx.ob(d, r.stmt, to_raise_exit, "the re-raise propagates out of the generator (no enclosing handler swallows it)", sel="raise:propagates")
    if m.twin:
        ctx.ob(d, exc_br.stmt, bool(exits), f"with backups (`{m.twin}`) a failed task whose twin may still succeed is set aside, not raised" + ("" if exits else " — every path through the exception branch raises: one failed attempt ends the map although its twin is still running or succeeded"), sel="raise:suppress-exists")
    for e in exits:
        facts = facts_at(cfg, e.id)
        guarded = False
        for t, pol in facts:
            for nm in ast.walk(t):
                if isinstance(nm, ast.Name):
                    for s in m.fl.rdefs(nm.id, e.id):
                        if s.value is not None and m.twin and mentions_name(s.value, m.twin):
                            guarded = True
        # exactness: with T = the twin looked up in the twin map, the failure may be set aside
        # exactly when T exists and (T is not done, or T is done without exception).  Evaluate
        # the path condition over the atoms {T, T.done(), T.exception()}.
        if guarded:
            twin_vars = set()
            for t, pol in facts:
                for nm in ast.walk(t):
                    if isinstance(nm, ast.Name) and any(s.value is not None and mentions_name(s.value, m.twin) for s in m.fl.rdefs(nm.id, e.id)):
                        twin_vars.add(nm.id)

            def ev(x, env):
                if isinstance(x, ast.BoolOp):
                    vals = [ev(v, env) for v in x.values]
                    if any(v is None for v in vals):
                        return None
                    return all(vals) if isinstance(x.op, ast.And) else any(vals)
                if isinstance(x, ast.UnaryOp) and isinstance(x.op, ast.Not):
                    v = ev(x.operand, env)
                    return None if v is None else not v
                if isinstance(x, ast.Name) and x.id in twin_vars:
                    return env["T"]
                if isinstance(x, ast.Compare) and len(x.ops) == 1 and isinstance(x.left, ast.Name) and x.left.id in twin_vars and isinstance(x.comparators[0], ast.Constant) and x.comparators[0].value is None:
                    return env["T"] if isinstance(x.ops[0], ast.IsNot) else (not env["T"]) if isinstance(x.ops[0], ast.Is) else None
                if isinstance(x, ast.Call) and isinstance(x.func, ast.Attribute) and isinstance(x.func.value, ast.Name) and x.func.value.id in twin_vars and not x.args:
                    if x.func.attr == "done":
                        return env["D"]
                    if x.func.attr in ("exception", "cancelled"):
                        return env["E"] if x.func.attr == "exception" else False
                return None

            rel = [(t, pol) for t, pol in facts if any(isinstance(nm, ast.Name) and nm.id in twin_vars for nm in ast.walk(t))]
            exact = True
            undecided = False
            for T in (False, True):
                for D in (False, True):
                    for E in (False, True):
                        if not T and (D or E):
                            continue
                        if E and not D:
                            continue  # an unfinished future has no exception yet
                        env = {"T": T, "D": D, "E": E}
                        vals = [ev(t, env) for t, _ in rel]
                        if any(v is None for v in vals):
                            undecided = True
                            continue
                        taken = all(v == pol for v, (_, pol) in zip(vals, rel))
                        want = T and not (D and E)
                        if taken != want:
                            exact = False
            if not undecided:
                ctx.ob(
                    d,
                    e.stmt,
                    exact,
                    "the failure is set aside exactly when a twin exists that is still running or finished without exception"
                    + ("" if exact else " — the condition differs from that: either a failure is dropped although the twin failed too (the input never succeeds, yet the map finishes), or it is raised although the twin may still succeed"),
                    sel="raise:suppress-exact",
                )
        ctx.ob(
            d,
            e.stmt,
            guarded,
            f"leaving the exception branch without raising (`{unparse(e.stmt, 40)}`) is allowed only when the twin map `{m.twin}` says a twin may still succeed"
            + ("" if guarded else " — this path drops the failure unconditionally"),
            sel="raise:suppress-guarded",
        )


@rule("MAP-ONCE-1", props=["C08", "C13"], floor=1)
def map_once(ctx: Ctx) -> None:
    """at most one result per input: emission is dominated by a check of a container that the
    emitting iteration mutates (check-and-set), since a twin can finish in the same wait round"""
    d = _map_def(ctx)
    m = MapShape(ctx, d)
    cfg = m.cfg
    if not m.twin:
        ctx.ob(d, None, True, "no backup twins are ever launched: every future is a distinct input", sel="once")
        return
    # containers mutated inside the finished loop
    mutated: dict[str, list[int]] = {}
    for n in d.own_nodes():
        nm = None
        if isinstance(n, ast.Call) and isinstance(n.func, ast.Attribute) and isinstance(n.func.value, ast.Name) and n.func.attr in MUTATORS_GROW | MUTATORS_SHRINK:
            nm = n.func.value.id
        elif isinstance(n, ast.Delete):
            for t in n.targets:
                if isinstance(t, ast.Subscript) and isinstance(t.value, ast.Name):
                    nm = t.value.id
        elif isinstance(n, ast.Assign) and isinstance(n.targets[0], ast.Subscript) and isinstance(n.targets[0].value, ast.Name):
            nm = n.targets[0].value.id
        if nm and cfg.has(n) and cfg.in_loop(cfg.node_of(n), m.fin_loop.id):
            mutated.setdefault(nm, []).append(cfg.node_of(n))
    guards: set[str] = set()
    for y in m.yields:
        yn = cfg.node_of(y)
        ok = False
        why = ""
        for t, pol, b in cfg.branch_conditions(yn):
            if not cfg.in_loop(b, m.fin_loop.id):
                continue
            for fact, fp in conjuncts(t, pol):
                # membership / lookup of the loop's task in a container mutated by this loop
                for cont, sites in mutated.items():
                    if cont == m.end_map:
                        continue
                    reads = False
                    if isinstance(fact, ast.Compare) and isinstance(fact.ops[0], (ast.In, ast.NotIn)):
                        if isinstance(fact.left, ast.Name) and fact.left.id in m.task_names and isinstance(fact.comparators[0], ast.Name) and fact.comparators[0].id == cont:
                            reads = True
                    for nm in ast.walk(fact):
                        if isinstance(nm, ast.Name):
                            for s in m.fl.rdefs(nm.id, b):
                                if s.value is not None and s.kind == "assign" and mentions_name(s.value, cont) and mentions_name(s.value, *m.task_names):
                                    reads = True
                    if reads and any(cfg.can_reach(yn, s) or cfg.dominates(s, yn) for s in sites):
                        ok = True
                        why = cont
        ctx.ob(
            d,
            y,
            ok,
            "emission must be guarded by a delivered/superseded check on a container updated when a result is emitted"
            + (f" (uses `{why}`)" if ok else f" — the only guard is the exception test; when an original and its backup finish in the same wait round both are yielded (and `{m.twin}` is already cleared when the twin is visited)"),
            sel="once:yield",
        )
        if ok:
            guards.add(why)
    # the delivered-state update itself is unconditional once a twin exists: marking the twin
    # only when it is still pending leaves a twin that finished in the same round unmarked
    for cont in sorted(guards):
        adds = [
            n
            for n in d.own_nodes()
            if isinstance(n, ast.Call) and isinstance(n.func, ast.Attribute) and n.func.attr in MUTATORS_GROW and isinstance(n.func.value, ast.Name) and n.func.value.id == cont and cfg.has(n) and cfg.in_loop(cfg.node_of(n), m.fin_loop.id)
        ]
        for a_ in adds:
            extra = []
            for t, pol, b in cfg.branch_conditions(cfg.node_of(a_)):
                if not cfg.in_loop(b, m.fin_loop.id):
                    continue
                for fact, fp in conjuncts(t, pol):
                    if isinstance(fact, ast.Compare) and isinstance(fact.ops[0], (ast.In, ast.NotIn)) and isinstance(fact.comparators[0], ast.Name) and fact.comparators[0].id == m.pending:
                        extra.append(("" if fp else "not ") + unparse(fact, 40))
                    # twins exist only when the backup option is on: a mark under the
                    # *negated* option (or a negated twin lookup) never runs when it matters
                    if isinstance(fact, ast.Name) and not fp and (fact.id in d.params or fact.id in m.task_names or any(s_.value is not None and m.twin and mentions_name(s_.value, m.twin) for s_ in m.fl.rdefs(fact.id, b))):
                        extra.append("not " + fact.id)
            ctx.ob(
                d,
                a_,
                not extra,
                f"`{unparse(a_, 40)}` marks the twin as delivered whenever a twin exists"
                + ("" if not extra else f" — only under `{extra[0]}`: a twin that finished in the same wait round is no longer in `{m.pending}`, stays unmarked and is delivered again"),
                sel="once:mark-unconditional",
            )
    # a superseded twin is not *handled* at all: its (stale) failure must not be raised either —
    # the same membership check guards every raise of the finished loop
    for r in cfg.stmts(ast.Raise):
        if not cfg.in_loop(r.id, m.fin_loop.id) or not guards:
            continue
        ok = False
        for t, pol, b in cfg.branch_conditions(r.id):
            if not cfg.in_loop(b, m.fin_loop.id):
                continue
            for fact, fp in conjuncts(t, pol):
                if isinstance(fact, ast.Compare) and isinstance(fact.ops[0], (ast.In, ast.NotIn)) and isinstance(fact.left, ast.Name) and fact.left.id in m.task_names and isinstance(fact.comparators[0], ast.Name) and fact.comparators[0].id in guards:
                    if isinstance(fact.ops[0], ast.NotIn) == fp:
                        ok = True
        ctx.ob(
            d,
            r.stmt,
            ok,
            f"a failure is raised only for a task that was not superseded (`task not in {sorted(guards)[0]}` holds at the raise)"
            + ("" if ok else " — the superseded check comes after the exception test: when a task succeeds and its twin fails in the same wait round, the twin's failure is raised although the input has been delivered"),
            sel="once:raise",
        )


@rule("MAP-SUBMIT-1", props=["C08", "C13"], floor=2)
def map_submit(ctx: Ctx) -> None:
    """every future that is created and registered in the input map inside the main loop is
    also put into `pending` in the same block (a submitted task that is never awaited is an
    input whose result is silently dropped)"""
    d = _map_def(ctx)
    m = MapShape(ctx, d)
    n = 0
    if m.input_map is None:
        ctx.need(False, "input map of the parallel map not identified")
    for st in d.own_nodes():
        regs = []
        # input_map[f] = i  /  input_map.update(new)
        if isinstance(st, ast.Assign) and isinstance(st.targets[0], ast.Subscript) and isinstance(st.targets[0].value, ast.Name) and st.targets[0].value.id == m.input_map:
            regs = [x.id for x in ast.walk(st.targets[0].slice) if isinstance(x, ast.Name)]
        elif isinstance(st, ast.Expr) and isinstance(st.value, ast.Call) and isinstance(st.value.func, ast.Attribute) and st.value.func.attr == "update" and isinstance(st.value.func.value, ast.Name) and st.value.func.value.id == m.input_map:
            regs = [x.id for a in st.value.args for x in ast.walk(a) if isinstance(x, ast.Name)]
        if not regs or not m.cfg.has(st):
            continue
        nid = m.cfg.node_of(st)
        if not m.cfg.in_loop(nid, m.main.id):
            continue
        n += 1
        block = _block_of(d, st)
        ok = False
        for b in block:
            for sub in walk_own(b, include_root=True):
                if isinstance(sub, ast.Call) and isinstance(sub.func, ast.Attribute) and sub.func.attr in ("add", "update") and isinstance(sub.func.value, ast.Name) and sub.func.value.id == m.pending and any(mentions_name(a, *regs) for a in sub.args):
                    ok = True
                if isinstance(sub, (ast.Assign, ast.AugAssign)) and mentions_name(getattr(sub, "value", sub), *regs) and any(isinstance(t, ast.Name) and t.id == m.pending for t in (sub.targets if isinstance(sub, ast.Assign) else [sub.target])):
                    ok = True
        ctx.ob(
            d,
            st,
            ok,
            f"futures registered in `{m.input_map}` by `{unparse(st, 50)}` are added to `{m.pending}` in the same block"
            + ("" if ok else " — they are not: the tasks run but nobody waits for them; the map finishes without their results"),
            sel=f"submit:{ctx.anon(d, st, 40)}",
        )
    ctx.need(n >= 2, f"only {n} registrations of new futures inside the main loop found")
    # batch refill: what is submitted inside the loop is the *next* batch — a value taken
    # from the batch iterator inside the loop — and it is submitted exactly when there is one
    for c in d.own_nodes():
        if not (isinstance(c, ast.Call) and m.cfg.has(c) and m.cfg.in_loop(m.cfg.node_of(c), m.main.id) and c.args and isinstance(c.args[0], ast.Name)):
            continue
        if not (isinstance(c.func, ast.Name) and c.func.id in d.params and not c.func.id.startswith("create_backup")):
            continue
        if any(isinstance(a, (ast.List, ast.Tuple)) for a in c.args):
            continue
        # c = create_futures_func(<batch var>, …) in the main loop
        bv = c.args[0].id
        at = m.cfg.node_of(c)
        defs = m.fl.rdefs(bv, at)
        if not defs or not any(isinstance(d_.value, ast.Call) and isinstance(d_.value.func, ast.Name) and d_.value.func.id == "next" for d_ in defs):
            continue
        fresh = all(m.cfg.in_loop(d_.node, m.main.id) and isinstance(d_.value, ast.Call) and isinstance(d_.value.func, ast.Name) and d_.value.func.id == "next" for d_ in defs)
        ctx.ob(d, c, fresh, f"the batch submitted inside the loop (`{bv}`) is taken from the batch iterator inside the loop" + ("" if fresh else " — a definition from before the loop reaches the submission: the first batch is submitted again"), sel="submit:next-batch")
        has_default = all(len(d_.value.args) >= 2 for d_ in defs if isinstance(d_.value, ast.Call))
        avail = None
        for t, pol, b in m.cfg.branch_conditions(at):
            if not m.cfg.in_loop(b, m.main.id):
                continue
            for fact, fp in conjuncts(t, pol):
                if isinstance(fact, ast.Compare) and isinstance(fact.left, ast.Name) and fact.left.id == bv and isinstance(fact.comparators[0], ast.Constant) and fact.comparators[0].value is None:
                    avail = fp if isinstance(fact.ops[0], ast.IsNot) else (not fp) if isinstance(fact.ops[0], ast.Is) else avail
                elif isinstance(fact, ast.Name) and fact.id == bv:
                    avail = fp
        ok = avail is True or (avail is None and not has_default)
        ctx.ob(d, c, ok, f"the next batch is submitted exactly when the iterator yielded one (`{bv} is not None`)" + ("" if ok else " — the test is missing or inverted: remaining inputs are never submitted (the map ends without their results), or `None` is submitted"), sel="submit:when-available")


@rule("MAP-BACKUP-1", props=["C08"], floor=2)
def map_backup(ctx: Ctx) -> None:
    """a backup is launched only for a task without a twin, for exactly one input, and is
    registered as twin in both directions"""
    d = _map_def(ctx)
    m = MapShape(ctx, d)
    cfg = m.cfg
    ctx.need(m.twin, "no twin map discovered")
    # backup launch = a call of a function-valued parameter inside the main loop, outside the
    # finished loop, under a should_launch_backup test
    launches = []
    for n in d.own_nodes():
        if isinstance(n, ast.Call) and any(t.kind == "param" for t in ctx.repo.resolve_call(n, d, d.module)):
            if not cfg.has(n):
                continue
            nid = cfg.node_of(n)
            if not cfg.in_loop(nid, m.main.id) or cfg.in_loop(nid, m.fin_loop.id):
                continue
            facts = facts_at(cfg, nid)
            if any(isinstance(f, ast.Call) and c is f for c in m.slb_calls for f, _ in facts):
                launches.append((n, nid, facts))
    ctx.need(launches, "no backup launch site found")
    for n, nid, facts in launches:
        # loop variable of the enclosing `for task in copy(pending)` loop
        loop = cfg.nodes[nid].loops[-1]
        lv = cfg.nodes[loop].stmt.target.id if isinstance(cfg.nodes[loop].stmt.target, ast.Name) else None
        has_not_in = any(
            isinstance(f, ast.Compare)
            and isinstance(f.ops[0], ast.NotIn) == pol
            and isinstance(f.ops[0], (ast.In, ast.NotIn))
            and isinstance(f.left, ast.Name)
            and f.left.id == lv
            and isinstance(f.comparators[0], ast.Name)
            and f.comparators[0].id == m.twin
            for f, pol in facts
        )
        ctx.ob(d, n, has_not_in, f"backup launch must be guarded by `{lv} not in {m.twin}` (at most one backup per input, no backup of a backup)", sel="backup:not-in-twin")
        one = bool(n.args) and isinstance(n.args[0], ast.List) and len(n.args[0].elts) == 1
        ctx.ob(d, n, one, "a backup is created for exactly one input", sel="backup:one-input")
        block = _block_of(d, cfg.nodes[nid].stmt)
        pairs = set()
        for st in block:
            if isinstance(st, ast.Assign) and isinstance(st.targets[0], ast.Subscript) and isinstance(st.targets[0].value, ast.Name) and st.targets[0].value.id == m.twin:
                if isinstance(st.targets[0].slice, ast.Name) and isinstance(st.value, ast.Name):
                    pairs.add((st.targets[0].slice.id, st.value.id))
        both = any((b, a) in pairs and a == lv for a, b in pairs)
        ctx.ob(d, n, both, f"original and backup are registered in `{m.twin}` in both directions", sel="backup:bidirectional")


@rule("MAP-TWIN-SYM-1", props=["C08"], floor=1)
def map_twin_sym(ctx: Ctx) -> None:
    """the original↔backup pairing is symmetric: entries are removed from the twin map only in
    pairs (both directions in the same block), never one direction alone"""
    d = _map_def(ctx)
    m = MapShape(ctx, d)
    if not m.twin:
        ctx.ob(d, None, True, "no twin map: nothing to keep symmetric", sel="twin:sym")
        return
    cfg = m.cfg
    removals = []
    for n in d.own_nodes():
        if isinstance(n, ast.Delete):
            for t in n.targets:
                if isinstance(t, ast.Subscript) and isinstance(t.value, ast.Name) and t.value.id == m.twin:
                    removals.append((n, t.slice))
        elif isinstance(n, ast.Call) and isinstance(n.func, ast.Attribute) and isinstance(n.func.value, ast.Name) and n.func.value.id == m.twin and n.func.attr in ("pop", "popitem", "clear"):
            removals.append((n, n.args[0] if n.args else None))
    if not removals:
        ctx.ob(d, None, True, f"`{m.twin}` entries are never removed", sel="twin:sym")
        return
    for n, key in removals:
        if isinstance(n, ast.Call) and n.func.attr == "clear":
            ctx.ob(d, n, True, "clearing the whole twin map keeps it symmetric", sel="twin:sym:clear", nontrivial=False)
            continue
        st = cfg.nodes[cfg.node_of(n)].stmt
        block = _block_of(d, st)
        keys = set()
        for st2 in block:
            for x in walk_own(st2, include_root=True):
                if isinstance(x, ast.Delete):
                    for t in x.targets:
                        if isinstance(t, ast.Subscript) and isinstance(t.value, ast.Name) and t.value.id == m.twin:
                            keys.add(unparse(t.slice))
                elif isinstance(x, ast.Call) and isinstance(x.func, ast.Attribute) and isinstance(x.func.value, ast.Name) and x.func.value.id == m.twin and x.func.attr == "pop" and x.args:
                    keys.add(unparse(x.args[0]))
        # the two keys of one pair: k and the name bound to twin.get(k) / twin[k] / twin.pop(k)
        kname = unparse(key) if key is not None else None
        partner_ok = False
        at = cfg.node_of(n)
        for other in keys - {kname}:
            # `other` was looked up from kname, or kname from other
            for a, b in ((kname, other), (other, kname)):
                for s_ in m.fl.rdefs(b, at) if b and b.isidentifier() else []:
                    if s_.value is not None and m.twin in unparse(s_.value) and a and a in unparse(s_.value):
                        partner_ok = True
                # the removal itself may bind the partner: b = twin.pop(a)
                if isinstance(st, ast.Assign) and isinstance(st.targets[0], ast.Name) and st.targets[0].id == b and a and a in unparse(st.value):
                    partner_ok = True
        # the key of this removal was itself obtained by removing the partner: b = twin.pop(a) … del twin[b]
        if not partner_ok and kname and kname.isidentifier():
            for s_ in m.fl.rdefs(kname, at):
                if s_.value is not None and any(isinstance(c_, ast.Call) and isinstance(c_.func, ast.Attribute) and c_.func.attr == "pop" and isinstance(c_.func.value, ast.Name) and c_.func.value.id == m.twin and c_.args for c_ in ast.walk(s_.value)):
                    partner_ok = True
        ctx.ob(
            d,
            n,
            partner_ok,
            f"`{unparse(n, 40)}` removes one direction of an original↔backup pair; the other direction must be removed in the same block"
            + ("" if partner_ok else " — it is not: when the twin finishes later, `del` of the missing entry raises KeyError (the map crashes for a reason other than a task failure)"),
            sel=f"twin:sym:{unparse(n, 30)}",
        )


@rule("RETRY-1", props=["C08"], floor=2)
def retry(ctx: Ctx) -> None:
    """thread executor: the task function is wrapped in a retrier with reraise=True and
    retries+1 attempts; the process executor adds no retry loop"""
    repo = ctx.repo
    f = repo.get(f"{A.RT_LOCAL}.threads_create_futures_func")
    cfg = cfg_of(f)
    fl = flow_of(repo, f)
    def _retryings(d):
        return [c for c in d.own_nodes() if isinstance(c, ast.Call) and any(t.qual == "tenacity.Retrying" for t in repo.resolve_call(c, d, d.module))]

    rets = _retryings(f)
    W, wcfg, rname, helper_call = f, cfg, "retries", None
    if not rets:
        # the wrapping may live in a private helper: function = _helper(function, retries)
        for c in f.own_nodes():
            if isinstance(c, ast.Call):
                for t in repo.resolve_call(c, f, f.module):
                    if t.kind == "def" and t.ref.is_func and t.ref.module is f.module and t.ref is not f and _retryings(t.ref):
                        pos = [i for i, a in enumerate(c.args) if isinstance(a, ast.Name) and a.id == "retries"]
                        kw_ = [k.arg for k in c.keywords if isinstance(k.value, ast.Name) and k.value.id == "retries"]
                        if pos and pos[0] < len(t.ref.positional_params):
                            W, rname, helper_call = t.ref, t.ref.positional_params[pos[0]], c
                        elif kw_:
                            W, rname, helper_call = t.ref, kw_[0], c
        if W is not f:
            wcfg = cfg_of(W)
            rets = _retryings(W)
    ctx.ob(f, f.node, bool(rets), "the thread future factory builds a tenacity Retrying wrapper", sel="retry:present")
    f_outer, f, cfg = f, W, wcfg
    for c in rets:
        wfl_ = flow_of(repo, f)
        rr = kwarg_via(wfl_, c, "reraise", cfg.node_of(c))
        ok = isinstance(rr, ast.Constant) and rr.value is True
        ctx.ob(f, c, ok, "Retrying(reraise=True): the task's own error surfaces after the last attempt", sel="retry:reraise")
        stop = kwarg_via(wfl_, c, "stop", cfg.node_of(c))
        ok = False
        got = unparse(stop)
        if isinstance(stop, ast.Call) and any(t.qual == "tenacity.stop_after_attempt" for t in repo.resolve_call(stop, f, f.module)) and stop.args:
            lf = linear_of(stop.args[0])
            ok = lf is not None and lf.coeffs == {(rname,): 1} and lf.const == 1
        ctx.ob(f, c, ok, f"attempt bound must be retries + 1 (found `{got}`)", sel="retry:bound")
        # guard: wrapper installed whenever retries != 0
        nid = cfg.node_of(c)
        conds = facts_at(cfg, nid)
        okg = all(
            isinstance(t, ast.Compare) and isinstance(t.left, ast.Name) and t.left.id == rname and isinstance(t.comparators[0], ast.Constant) and t.comparators[0].value == 0 and (isinstance(t.ops[0], ast.NotEq) == pol and isinstance(t.ops[0], (ast.Eq, ast.NotEq)) or (isinstance(t.ops[0], ast.Gt) and pol))
            for t, pol in conds
        )
        ctx.ob(f, c, okg, "the retrier is installed whenever retries != 0", sel="retry:guard")
    # the submitted callable is the wrapped function
    f, cfg = f_outer, cfg_of(f_outer)
    inner = [ch for ch in f.children.values()]
    wrapped_used = False
    for ch in inner:
        for c in ch.own_nodes():
            if isinstance(c, ast.Call) and isinstance(c.func, ast.Attribute) and c.func.attr == "submit" and c.args and isinstance(c.args[0], ast.Name) and c.args[0].id == "function":
                wrapped_used = True
    # and `function` is rebound to the wrapper
    rebound = any(
        s.name == "function" and s.kind == "assign" and rets and any(mentions_name(s.value, x.id) for x in [t for nid2, ss in fl.sites.items() for s2 in ss if s2.kind == "assign" and s2.value in rets for t in [ast.Name(id=s2.name)]])
        for nid, ss in fl.sites.items()
        for s in ss
    )
    if helper_call is not None:
        # function = helper(function, retries), and the helper returns partial(<retrier>, fn)
        rebound = any(s.name == "function" and s.kind == "assign" and s.value is helper_call for ss in fl.sites.values() for s in ss)
        wfl = flow_of(repo, W)
        rvars = {s2.name for ss in wfl.sites.values() for s2 in ss if s2.kind == "assign" and s2.value in rets}
        rebound = rebound and any(r.value is not None and (any(isinstance(x, ast.Name) and x.id in rvars for x in ast.walk(r.value)) or any(x in rets for x in ast.walk(r.value))) for r in W.own_nodes() if isinstance(r, ast.Return))
    ctx.ob(f, f.node, wrapped_used and rebound, "the submitted callable is the retry-wrapped function", sel="retry:wrapped-submitted")
    # the executor hands the user's `retries` option to the factory unmodified (0 = no retries)
    ex = repo.get(f"{A.RT_LOCAL}.ThreadsExecutor._async_execute_dag")
    efl, ecfg = flow_of(repo, ex), cfg_of(ex)
    for c in repo.calls_to(ex, f.qual):
        arg = c.args[2] if len(c.args) > 2 else kwarg_via(efl, c, "retries", ecfg.node_of(c))
        ok = False
        why = "retries not passed"
        if arg is not None:
            e = arg
            if isinstance(arg, ast.Name):
                ss = efl.rdefs(arg.id, ecfg.node_of(c))
                e = ss[0].value if len(ss) == 1 and ss[0].value is not None else arg
            ok = isinstance(e, ast.Call) and isinstance(e.func, ast.Attribute) and e.func.attr in ("pop", "get") and e.args and isinstance(e.args[0], ast.Constant) and e.args[0].value == "retries"
            why = f"found `{unparse(e, 50)}`"
        ctx.ob(ex, c, ok, "the `retries` option reaches the future factory unmodified (an explicit 0 means no retries)" + ("" if ok else f" — {why}: a falsy value is replaced, so a submission can make more than retries+1 attempts"), sel="retry:option-forwarded")
    p = repo.get(f"{A.RT_LOCAL}.processes_create_futures_func")
    loops = [n for n in ast.walk(p.node) if isinstance(n, (ast.While,))]
    rr = [c for c in ast.walk(p.node) if isinstance(c, ast.Call) and attr_chain(c.func) in ("Retrying", "tenacity.Retrying")]
    ctx.ob(p, p.node, not loops and not rr, "the process future factory adds no retry loop of its own (one attempt per submission)", sel="retry:processes")


@rule("MAP-DRAIN-1", props=["C07", "C08", "C19"], floor=2)
def map_drain(ctx: Ctx) -> None:
    """the parallel map ends normally only when `pending` is empty: no break/return inside
    the main loop, results yielded only from the finished batch"""
    d = _map_def(ctx)
    m = MapShape(ctx, d)
    cfg = m.cfg
    bad = []
    for n in cfg.nodes:
        if n.kind == "stmt" and isinstance(n.stmt, (ast.Break, ast.Return)) and cfg.in_loop(n.id, m.main.id):
            # a break of an inner loop is fine if that loop is not the main loop
            if isinstance(n.stmt, ast.Break) and n.loops and n.loops[-1] != m.main.id:
                continue
            bad.append(n)
    ctx.ob(d, bad[0].stmt if bad else None, not bad, "the main loop is left only when `pending` is empty (no break/return inside it)", sel="drain:no-early-exit")
    ok = cfg.all_paths_pass(cfg.entry, cfg.exit, {m.main.id})
    ctx.ob(d, m.main.stmt, ok, "every normal path to the end passes the `while pending` test", sel="drain:through-loop")
    for y in m.yields:
        yn = cfg.node_of(y)
        ctx.ob(d, y, cfg.in_loop(yn, m.fin_loop.id), "results are yielded only while iterating the finished batch", sel="drain:yield-in-finished")
    # batching: after the partition may have emptied `pending`, a refill is attempted before the
    # loop test is evaluated again — otherwise the map ends with batches left unsubmitted
    refills = []
    for n in d.own_nodes():
        if isinstance(n, ast.Call) and isinstance(n.func, ast.Name) and n.func.id == "next" and cfg.has(n) and cfg.in_loop(cfg.node_of(n), m.main.id):
            refills.append(n)
    for n in refills:
        rn = cfg.node_of(n)
        # the outermost branch inside the main loop that guards the refill
        guards = [b for _, _, b in cfg.branch_conditions(rn) if cfg.in_loop(b, m.main.id)]
        g = guards[0] if guards else rn
        for b in guards:
            if cfg.dominates(b, g):
                g = b
        ok = cfg.all_paths_pass(m.partition.id, m.main.id, {g}) and cfg.can_reach(m.partition.id, g, avoid={m.main.id})
        ctx.ob(
            d,
            n,
            ok,
            "the batch refill is attempted between the wait (which may empty `pending`) and the next evaluation of `while pending`"
            + ("" if ok else " — it is not: when the last in-flight tasks of a batch finish together the loop ends with input batches never submitted"),
            sel="drain:refill-after-wait",
        )
        # what gates the refill is the batch state alone: the one option a guard may read is
        # the batch size (the parameter compared with len(pending)); a guard on any other
        # option switches batching's second and later batches off with that option
        tests = [(t, b) for t, _, b in cfg.branch_conditions(rn) if cfg.in_loop(b, m.main.id)]
        batch_params = set()
        for t, _ in tests:
            for cmp_ in [x for x in ast.walk(t) if isinstance(x, ast.Compare)]:
                if any(isinstance(y, ast.Call) and isinstance(y.func, ast.Name) and y.func.id == "len" and y.args and mentions_name(y.args[0], m.pending) for y in ast.walk(cmp_)):
                    batch_params |= {y.id for y in ast.walk(cmp_) if isinstance(y, ast.Name) and y.id in d.params}
        if batch_params:
            foreign = []
            for t, b in tests:
                tt = {x.id for x in ast.walk(t) if isinstance(x, ast.Name) and x.id in d.params}
                if tt - batch_params:
                    foreign.append((t, sorted(tt - batch_params)))
            ctx.ob(
                d,
                foreign[0][0] if foreign else n,
                not foreign,
                f"the batch refill is gated by the batch state only (option read: {sorted(batch_params)})"
                + ("" if not foreign else f" — it also sits under `{unparse(foreign[0][0], 40)}`, which reads {foreign[0][1]}: with that option off only the first batch is ever submitted and the map ends as if complete"),
                sel="drain:refill-gate",
                firm=True,
            )
    # pending shrinks only by the partition and by removing a delivered task's twin
    for n in d.own_nodes():
        if isinstance(n, ast.Call) and isinstance(n.func, ast.Attribute) and isinstance(n.func.value, ast.Name) and n.func.value.id == m.pending and n.func.attr in MUTATORS_SHRINK:
            nid = cfg.node_of(n)
            arg = n.args[0] if n.args else None
            ok = False
            if arg is not None and isinstance(arg, ast.Name) and m.twin:
                ok = any(s.value is not None and mentions_name(s.value, m.twin) for s in m.fl.rdefs(arg.id, nid))
                ok = ok and cfg.in_loop(nid, m.fin_loop.id)
            ctx.ob(d, n, ok, f"`{unparse(n, 50)}`: a future leaves `{m.pending}` unfinished only as the twin of a delivered task", sel="drain:shrink")


@rule("SCHED-DIV-1", props=["C08"], floor=1)
def sched_div(ctx: Ctx) -> None:
    """the scheduling code never divides by an elapsed time: a difference of two clock
    readings is 0.0 on a coarse clock, and a ZeroDivisionError there ends the map with an
    error that is no task's error although every task succeeded"""
    repo = ctx.repo
    n_div = 0
    bad = []
    for d in repo.functions():
        if d.module.qual not in (A.RT_BACKUP, A.RT_ASYNC):
            continue
        fl, cfg = flow_of(repo, d), cfg_of(d)
        for b in d.own_nodes():
            if not (isinstance(b, (ast.BinOp, ast.AugAssign)) and isinstance(b.op, (ast.Div, ast.FloorDiv, ast.Mod))):
                continue
            r = b.right if isinstance(b, ast.BinOp) else b.value
            if isinstance(getattr(b, "left", None), ast.Constant) and isinstance(b.left.value, str):
                continue
            if not cfg.has(b):
                continue
            n_div += 1
            at = cfg.node_of(b)
            # expand the divisor through local definitions
            seen, work, elapsed = set(), [(r, at)], None
            while work and len(seen) < 40:
                e, at_ = work.pop()
                for x in ast.walk(e):
                    if isinstance(x, ast.BinOp) and isinstance(x.op, ast.Sub):
                        elapsed = x
                    if isinstance(x, ast.Name) and isinstance(x.ctx, ast.Load) and id(x) not in fl.comp_bind:
                        for s_ in fl.rdefs(x.id, at_):
                            if s_.value is not None and id(s_.value) not in seen:
                                seen.add(id(s_.value))
                                work.append((s_.value, s_.node))
            if elapsed is None:
                continue
            guarded = False
            for t, pol in facts_at(cfg, at):
                if isinstance(t, ast.Compare) and any(isinstance(c_, ast.Constant) and c_.value == 0 for c_ in t.comparators) and any(isinstance(x, ast.Name) and x.id in {y.id for y in ast.walk(r) if isinstance(y, ast.Name)} for x in ast.walk(t.left)):
                    guarded = True
            if not guarded:
                bad.append((d, b, elapsed))
    for d, b, el in bad:
        ctx.ob(d, b, False, f"`{unparse(b, 50)}` divides by a value computed from an elapsed time (`{unparse(el, 40)}`): 0.0 on a coarse clock → ZeroDivisionError ends the map although every task succeeded", sel=f"div-elapsed:{ctx.anon(d, b, 40)}")
    ctx.ob(repo.get(f"{A.RT_BACKUP}.should_launch_backup"), None, not bad, f"{n_div} division(s) in the scheduling code, none by an elapsed time", sel="div-elapsed:scan", nontrivial=False)


@rule("BATCH-COVER-1", props=["C08", "C13", "C07"], floor=2)
def batch_cover(ctx: Ctx) -> None:
    """the batching helper the parallel map draws its inputs from hands out *every* input: it
    slices one iterator until a slice comes back empty (or is itertools.batched); a grouper
    built on zip() stops at the first short group and silently drops the trailing inputs — the
    map then ends normally with fewer results than inputs"""
    repo = ctx.repo
    d = _map_def(ctx)
    calls = [c for c in d.own_nodes() if isinstance(c, ast.Call) and any(t.kind == "def" and t.ref.name == "batched" for t in repo.resolve_call(c, d, d.module))]
    ext = [c for c in d.own_nodes() if isinstance(c, ast.Call) and (attr_chain(c.func) or "") in ("itertools.batched", "batched") and not calls]
    if ext:
        ctx.ob(d, ext[0], True, "input batches come from itertools.batched", sel="batch:source")
        ctx.ob(d, ext[0], True, "itertools.batched yields the last, shorter batch", sel="batch:cover")
        return
    h = None
    if not calls:
        # the helper under another name: whatever defines the iterator the refill draws from
        fl_, cfg_ = flow_of(repo, d), cfg_of(d)
        for nx_ in [c for c in d.own_nodes() if isinstance(c, ast.Call) and isinstance(c.func, ast.Name) and c.func.id == "next" and c.args and isinstance(c.args[0], ast.Name) and cfg_.has(c)]:
            for s_ in fl_.rdefs(nx_.args[0].id, cfg_.node_of(nx_)):
                if isinstance(s_.value, ast.Call):
                    for t in repo.resolve_call(s_.value, d, d.module):
                        if t.kind == "def" and t.ref.is_func and len(t.ref.params) >= 2:
                            calls, h = [s_.value], t.ref
    ctx.need(calls, "the parallel map does not draw its batches from a batching helper")
    if h is None:
        h = next(t.ref for t in repo.resolve_call(calls[0], d, d.module) if t.kind == "def" and t.ref.name == "batched")
    # the map passes its whole input and the user's batch size
    c = calls[0]
    ok = len(c.args) >= 2 and isinstance(c.args[0], ast.Name) and c.args[0].id in d.params
    ctx.ob(d, c, ok, "the whole input iterable is handed to the batching helper", sel="batch:source")
    zips = [n for n in h.own_nodes() if isinstance(n, ast.Call) and isinstance(n.func, ast.Name) and n.func.id == "zip"]
    slices = [n for n in h.own_nodes() if isinstance(n, ast.Call) and (attr_chain(n.func) or "").split(".")[-1] in ("islice", "batched")]
    sub = [n for n in h.own_nodes() if isinstance(n, ast.Subscript) and isinstance(n.slice, ast.Slice)]
    if zips:
        ctx.ob(
            h,
            zips[0],
            False,
            f"`{unparse(zips[0], 40)}` groups by zip(): zip stops at the first exhausted iterator, so a last group shorter than n is dropped (and an input shorter than n yields nothing at all)",
            sel="batch:cover",
            firm=True,
        )
        return
    ok = bool(slices or sub)
    if not ok:
        ok = ctx.present(h, False, "batched(): islice / slicing loop")
    ctx.ob(h, slices[0] if slices else None, ok, "batches are consecutive slices of one iterator, taken until a slice is empty", sel="batch:cover")
