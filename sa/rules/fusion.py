"""C02 — graph optimisation never changes computed values (eligibility, rewiring, provenance);
NEST-* dispatcher agreement (C15, C03, C02)."""

from __future__ import annotations

import ast

from .. import anchors as A
from ..astutil import compare_norm, kwarg, mentions_attr, mentions_name, nonempty_polarity, subscript_keys, unparse
from ..cfg import cfg_of, is_falsy_return
from ..effects import effects_of
from ..flow import flow_of
from ..index import Def, Repo, attr_chain, walk_own
from ..runner import Ctx, rule
from .runtime import conjuncts, facts_at

CFP = f"{A.OPT}.can_fuse_predecessors"
FP_ = f"{A.OPT}.fuse_predecessors"
POA = f"{A.OPT}.predecessor_ops_and_arrays"
SOD = f"{A.OPT}.simple_optimize_dag"


def _falsy_only(cfg, bn_id: int, edge: str) -> bool:
    tg = cfg.edge_targets(bn_id, edge)
    return bool(tg) and all(cfg.exits_only_to(t, {bn_id}, lambda n: n is not None and is_falsy_return(n)) for t in tg)


def _is_multi_test(e: ast.AST) -> bool:
    """`len(X) > 1` / `>= 2` / `!= 1` (more than one)"""
    if not isinstance(e, ast.Compare):
        return False
    nm = compare_norm(e)
    if nm is None:
        return False
    op, l, r = nm

    def is_len(x):
        return isinstance(x, ast.Call) and ((isinstance(x.func, ast.Name) and x.func.id == "len") or (isinstance(x.func, ast.Attribute) and x.func.attr in ("out_degree", "in_degree")) or (isinstance(x.func, ast.Name) and x.func.id in ("out_degree_unique",)))

    def c(x):
        return x.value if isinstance(x, ast.Constant) and isinstance(x.value, int) else None

    if is_len(l) and c(r) is not None:
        return (op == ">" and c(r) == 1) or (op == ">=" and c(r) == 2) or (op == "!=" and c(r) == 1)
    if is_len(r) and c(l) is not None:
        # const > len  is "fewer than": not a multi test
        return op == "!=" and c(l) == 1
    return False


@rule("FUSE-GUARD-1", props=["C02", "C10"], floor=5)
def fuse_guard_1(ctx: Ctx) -> None:
    """default optimiser: every truthy return of can_fuse_predecessors passes the guards
    "predecessor array is requested → no" and "predecessor op has several outputs → no";
    the per-predecessor flag implies primitive op and a single consumer"""
    repo = ctx.repo
    f = repo.get(CFP)
    cfg = cfg_of(f)
    fl = flow_of(repo, f)
    g2 = []  # requested arrays stay materialised
    g3 = []  # multi-output producers are not fused
    g3_loops = []  # … the same guard written as a loop (loop header, test)
    for bn in cfg.stmts(ast.If):
        t = bn.stmt.test
        tt = fl.taint(t, bn.id)
        if "array_names" in tt:
            pol = nonempty_polarity(t, lambda e: isinstance(e, ast.Name) and "array_names" in fl.taint(e, bn.id))
            if pol is None and isinstance(t, ast.Compare) and isinstance(t.ops[0], (ast.In, ast.NotIn)):
                pol = isinstance(t.ops[0], ast.In)
            if pol is not None and _falsy_only(cfg, bn.id, "true" if pol else "false"):
                # the intersected set must come from *all* predecessor arrays
                ok_all = False
                for nm in ast.walk(t):
                    if isinstance(nm, ast.Name):
                        for s in fl.rdefs(nm.id, bn.id):
                            if s.value is not None and mentions_name(s.value, "array_names"):
                                for other in ast.walk(s.value):
                                    if isinstance(other, ast.Name) and other.id != "array_names":
                                        for s2 in fl.rdefs(other.id, s.node):
                                            if s2.value is not None and any(isinstance(c, ast.Call) and POA in repo.callee_quals(c, f) for c in ast.walk(s2.value)):
                                                gens = [g for x in ast.walk(s2.value) if isinstance(x, (ast.GeneratorExp, ast.ListComp, ast.SetComp)) for g in x.generators]
                                                ok_all = all(not g.ifs for g in gens)
                if ok_all:
                    g2.append((bn, pol))
        succ_q = {f"{A.OPT}.successors_unordered", "method:successors"}

        def calls_succ_(e):
            return any(isinstance(c, ast.Call) and (repo.callee_quals(c, f) & succ_q or (isinstance(c.func, ast.Attribute) and c.func.attr in ("successors", "out_degree"))) for c in ast.walk(e))

        def over_preds_(it, at):
            """the iterated collection is every predecessor op: predecessor_ops(...) /
            predecessor_ops_and_arrays(...), directly or held in a local (`list(...)` of it)"""
            exprs = [it]
            if isinstance(it, ast.Name):
                exprs = [s_.value for s_ in fl.rdefs(it.id, at) if s_.value is not None]
                if not exprs:
                    return False
            for e_ in exprs:
                if any(isinstance(x, (ast.GeneratorExp, ast.ListComp, ast.SetComp)) and any(g_.ifs for g_ in x.generators) for x in ast.walk(e_)):
                    return False
                if any(isinstance(x, ast.Subscript) and isinstance(x.slice, ast.Slice) for x in ast.walk(e_)):
                    return False
                if not any(isinstance(c, ast.Call) and repo.callee_quals(c, f) & {f"{A.OPT}.predecessor_ops", POA} for c in ast.walk(e_)):
                    return False
            return True

        if isinstance(t, ast.Call) and isinstance(t.func, ast.Name) and t.func.id == "any" and t.args and isinstance(t.args[0], (ast.GeneratorExp, ast.ListComp)):
            ge = t.args[0]
            over_preds = over_preds_(ge.generators[0].iter, bn.id) and not ge.generators[0].ifs
            if calls_succ_(ge.elt) and over_preds and _is_multi_test(ge.elt) and _falsy_only(cfg, bn.id, "true"):
                g3.append((bn, True))
        # the same test as a loop: for pre… in <all predecessors>: if len(successors(pre)) > 1: return False
        lps = cfg.nodes[bn.id].loops
        if lps and isinstance(cfg.nodes[lps[-1]].stmt, ast.For) and _is_multi_test(t) and calls_succ_(t) and _falsy_only(cfg, bn.id, "true"):
            L_ = cfg.nodes[lps[-1]]
            # the test is the first thing the loop body does (no `continue`/filter before it)
            direct = not [1 for t2, pol2, b2 in cfg.branch_conditions(bn.id) if cfg.in_loop(b2, L_.id) and b2 != bn.id]
            if direct and over_preds_(L_.stmt.iter, L_.id):
                g3_loops.append((L_.id, bn.id))
    truthy = [r for r in cfg.returns() if not is_falsy_return(r)]
    ctx.need(truthy, "can_fuse_predecessors has no truthy return")
    for r in truthy:
        for label, gs, what in (
            ("requested", g2, "`a predecessor's array is one of the arrays being computed → False` (requested arrays stay materialised)"),
            ("multi-output", g3, "`a predecessor op has more than one output → False` (a multi-output function returns all outputs)"),
        ):
            ok = any(cfg.dominates(bn.id, r.id) and not cfg.can_reach(t, r.id, avoid={bn.id}) for bn, pol in gs for t in cfg.edge_targets(bn.id, "true" if pol else "false"))
            if not ok and label == "multi-output":
                ok = any(cfg.dominates(lid, r.id) and not cfg.in_loop(r.id, lid) for lid, _ in g3_loops)
            ctx.ob(
                f,
                r.stmt,
                ok,
                f"truthy return `{unparse(r.stmt.value, 40)}` must pass the guard {what}" + ("" if ok else " — a path reaches it without that guard"),
                sel=f"guard:{label}:{unparse(r.stmt.value, 30)}",
                # a requested array that is fused away is not materialised: computing it together
                # with its consumer gives a different answer than computing it alone (C10)
                props=["C02", "C10"] if label == "requested" else ["C02"],
            )
    # the flag
    poa = repo.get(POA)
    pfl, pcfg = flow_of(repo, poa), cfg_of(poa)
    ys = [n for n in poa.own_nodes() if isinstance(n, ast.Yield)]
    ctx.need(ys, "predecessor_ops_and_arrays yields nothing")
    for y in ys:
        flag = y.value.elts[2] if isinstance(y.value, ast.Tuple) and len(y.value.elts) == 3 else None
        expr = None
        if isinstance(flag, ast.Name):
            for s in pfl.rdefs(flag.id, pcfg.node_of(y)):
                expr = s.value
        elif flag is not None:
            expr = flag
        conj = conjuncts(expr, True) if expr is not None else []
        is_and = isinstance(expr, ast.BoolOp) and isinstance(expr.op, ast.And) or (expr is not None and not isinstance(expr, ast.BoolOp))
        has_prim = any(pol and ((isinstance(t, ast.Call) and f"{A.OPT}.is_primitive_op" in repo.callee_quals(t, poa)) or (isinstance(t, ast.Compare) and isinstance(t.left, ast.Constant) and t.left.value == "primitive_op")) for t, pol in conj)
        single = False
        for t, pol in conj:
            if pol and isinstance(t, ast.Compare):
                nm = compare_norm(t)
                if nm and nm[0] == "==" and isinstance(nm[2], ast.Constant) and nm[2].value == 1 and isinstance(nm[1], ast.Call) and (f"{A.OPT}.out_degree_unique" in repo.callee_quals(nm[1], poa) or (isinstance(nm[1].func, ast.Attribute) and nm[1].func.attr == "out_degree")):
                    # degree of the *array* node between the two ops
                    arg = nm[1].args[-1] if nm[1].args else None
                    single = isinstance(arg, ast.Name) and isinstance(y.value.elts[1], ast.Name) and arg.id == y.value.elts[1].id
        ctx.ob(poa, y, bool(is_and and has_prim), "the fuse flag implies `predecessor is a primitive op`" + ("" if is_and else " — the flag is not a conjunction"), sel="flag:primitive", props=["C02"])
        ctx.ob(poa, y, bool(is_and and single), "the fuse flag implies `the intermediate array has exactly one consumer` (an array with a second consumer is never removed)", sel="flag:single-consumer", props=["C02"])
    # consumers of the flag select None for unflagged predecessors
    for q in (CFP, FP_):
        d = repo.get(q)
        dfl, dcfg = flow_of(repo, d), cfg_of(d)

        def from_poa(F: Def, e: ast.AST, at: int, depth: int = 2) -> bool:
            """`e` is predecessor_ops_and_arrays(...), or a local / a parameter of a private
            piece of `d` that holds (a list of) it"""
            if any(isinstance(c, ast.Call) and POA in repo.callee_quals(c, F) for c in ast.walk(e)):
                return True
            if isinstance(e, ast.Name) and depth > 0:
                Ffl = flow_of(repo, F)
                for s_ in Ffl.rdefs(e.id, at):
                    if s_.kind == "param" and F is not d:
                        # what d passes for it
                        for c in d.own_nodes():
                            if isinstance(c, ast.Call) and dcfg.has(c) and any(t_.kind == "def" and t_.ref is F for t_ in repo.resolve_call(c, d, d.module)):
                                pos = F.positional_params
                                act = {pos[i]: a for i, a in enumerate(c.args) if i < len(pos) and not isinstance(a, ast.Starred)}
                                act.update({k.arg: k.value for k in c.keywords if k.arg})
                                if e.id in act and from_poa(d, act[e.id], dcfg.node_of(c), depth - 1):
                                    return True
                    elif s_.value is not None and not any(isinstance(x, ast.Subscript) and isinstance(x.slice, ast.Slice) for x in ast.walk(s_.value)) and from_poa(F, s_.value, s_.node, depth - 1):
                        return True
            return False

        pieces = [d] + [t_.ref for c in d.own_nodes() if isinstance(c, ast.Call) for t_ in repo.resolve_call(c, d, d.module) if t_.kind == "def" and t_.ref.is_func and t_.ref.module is d.module and t_.ref.name.startswith("_") and t_.ref is not d]
        comps = []
        for F in dict.fromkeys(pieces):
            Fcfg = cfg_of(F)
            for n in F.own_nodes():
                if isinstance(n, ast.ListComp) and "primitive_op" in subscript_keys(n.elt):
                    holder = n
                    st_node = None
                    for sx in F.own_nodes():
                        if isinstance(sx, ast.stmt) and Fcfg.has(sx) and any(y is n for y in ast.walk(sx)):
                            st_node = Fcfg.node_of(sx)
                    if st_node is not None and from_poa(F, n.generators[0].iter, st_node):
                        comps.append(holder)
        ok = bool(comps)
        for c in comps:
            tgt = c.generators[0].target
            flagvar = tgt.elts[2].id if isinstance(tgt, ast.Tuple) and len(tgt.elts) == 3 and isinstance(tgt.elts[2], ast.Name) else None
            e = c.elt
            ok = ok and isinstance(e, ast.IfExp) and isinstance(e.test, ast.Name) and e.test.id == flagvar and isinstance(e.orelse, ast.Constant) and e.orelse.value is None and not c.generators[0].ifs
        ctx.ob(d, comps[0] if comps else d.node, ok, f"{d.name}: unflagged predecessors are passed as None (not fused), in operand order", sel="flag:none-for-unflagged", props=["C02"])


@rule("FUSE-GUARD-2", props=["C02"], floor=4)
def fuse_guard_2(ctx: Ctx) -> None:
    """legacy optimiser: can_fuse requires in/out degree 1, the input not requested, a single
    consumer and a single-output producer"""
    repo = ctx.repo
    f = repo.get(f"{SOD}.can_fuse")
    cfg = cfg_of(f)
    fl = flow_of(repo, f)
    truthy = [r for r in cfg.returns() if not is_falsy_return(r)]
    ctx.need(truthy, "can_fuse has no truthy return")
    for r in truthy:
        facts = facts_at(cfg, r.id)
        requested = any(isinstance(t, ast.Compare) and isinstance(t.ops[0], (ast.In, ast.NotIn)) and (isinstance(t.ops[0], ast.In) != pol) and isinstance(t.comparators[0], ast.Name) and t.comparators[0].id == "array_names" for t, pol in facts)
        ctx.ob(f, r.stmt, requested, "fusing requires `input not in array_names` (requested arrays stay materialised)", sel="legacy:requested")
        deg = {}
        for t, pol in facts:
            if isinstance(t, ast.Compare):
                nm = compare_norm(t)
                if nm and isinstance(nm[1], ast.Call) and isinstance(nm[1].func, ast.Attribute) and nm[1].func.attr in ("out_degree", "in_degree") and isinstance(nm[2], ast.Constant) and nm[2].value == 1:
                    eq = (nm[0] == "==" and pol) or (nm[0] == "!=" and not pol)
                    if eq and nm[1].args:
                        deg[(nm[1].func.attr, unparse(nm[1].args[0]))] = True
        outs = [k for k in deg if k[0] == "out_degree"]
        ins = [k for k in deg if k[0] == "in_degree"]
        ctx.ob(f, r.stmt, len(outs) >= 3, f"fusing requires out-degree 1 of the op, of its input array (single consumer) and of the producing op (single output); found {sorted(k[1] for k in outs)}", sel="legacy:out-degrees")
        ctx.ob(f, r.stmt, len(ins) >= 1, "fusing requires in-degree 1 of the op", sel="legacy:in-degree")
        prim = sum(1 for t, pol in facts if not pol and isinstance(t, ast.Compare) and isinstance(t.ops[0], ast.NotIn) and isinstance(t.left, ast.Constant) and t.left.value == "primitive_op")
        ctx.ob(f, r.stmt, prim >= 2, "both ops must carry a primitive_op", sel="legacy:primitive")


@rule("FUSE-REWIRE-1", props=["C02", "C07", "C09"], floor=4)
def fuse_rewire(ctx: Ctx) -> None:
    """every removed predecessor hands its own predecessors' edges to the fused node; removal
    happens only under the fuse flag"""
    repo = ctx.repo
    f = repo.get(FP_)
    cfg = cfg_of(f)
    fl = flow_of(repo, f)
    def poa_call(e: ast.AST, at: int) -> ast.Call | None:
        """the predecessor_ops_and_arrays(...) call a loop iterates: directly, or through a
        local that holds it (`predecessors = list(predecessor_ops_and_arrays(dag, name))`)"""
        if isinstance(e, ast.Call) and POA in repo.callee_quals(e, f):
            return e
        if isinstance(e, ast.Call) and isinstance(e.func, ast.Name) and e.func.id in ("list", "tuple") and len(e.args) == 1:
            return poa_call(e.args[0], at)
        if isinstance(e, ast.Name):
            vs = [s_.value for s_ in fl.rdefs(e.id, at)]
            if len(vs) == 1 and vs[0] is not None:
                return poa_call(vs[0], at)
        return None

    loops = [n for n in cfg.stmts(ast.For) if poa_call(n.stmt.iter, n.id) is not None and isinstance(n.stmt.target, ast.Tuple)]
    ctx.need(len(loops) == 1, "re-wiring loop over predecessor_ops_and_arrays not found")
    L = loops[0]
    tgt = L.stmt.target
    ctx.need(isinstance(tgt, ast.Tuple) and len(tgt.elts) == 3, "unexpected loop target")
    pre, inp, flag = (e.id for e in tgt.elts)
    # the loop iterates the *original* dag (the copy is being mutated)
    it = poa_call(L.stmt.iter, L.id)
    ok = bool(it.args) and isinstance(it.args[0], ast.Name) and all(s.kind == "param" for s in fl.rdefs(it.args[0].id, L.id))
    ctx.ob(f, L.stmt, ok, "the re-wiring loop reads predecessors from the unmodified input dag", sel="rewire:reads-original")
    rem = [c for c in f.own_nodes() if isinstance(c, ast.Call) and isinstance(c.func, ast.Attribute) and c.func.attr in ("remove_node", "remove_nodes_from")]
    ctx.ob(f, rem[0] if rem else f.node, len(rem) >= 2, "fused predecessor op and its array are removed", sel="rewire:removes")
    for c in rem:
        nid = cfg.node_of(c)
        under = any(pol and isinstance(t, ast.Name) and t.id == flag for t, pol in facts_at(cfg, nid)) and cfg.in_loop(nid, L.id)
        ctx.ob(f, c, under, f"`{unparse(c, 40)}` happens only for predecessors whose fuse flag is set", sel=f"rewire:remove-under-flag:{unparse(c.args[0], 12) if c.args else ''}")
    adds = [c for c in f.own_nodes() if isinstance(c, ast.Call) and isinstance(c.func, ast.Attribute) and c.func.attr == "add_edge"]
    good = False
    for c in adds:
        nid = cfg.node_of(c)
        lp = cfg.nodes[nid].loops
        if len(lp) >= 2 and lp[-2] == L.id:
            inner = cfg.nodes[lp[-1]].stmt
            iit = inner.iter
            over_pre = isinstance(iit, ast.Call) and (f"{A.OPT}.predecessors_unordered" in repo.callee_quals(iit, f) or (isinstance(iit.func, ast.Attribute) and iit.func.attr == "predecessors")) and iit.args and isinstance(iit.args[-1], ast.Name) and iit.args[-1].id == pre
            orig = over_pre and isinstance(iit.args[0], ast.Name) and all(s.kind == "param" for s in fl.rdefs(iit.args[0].id, lp[-1]))
            to_name = len(c.args) == 2 and isinstance(c.args[0], ast.Name) and isinstance(inner.target, ast.Name) and c.args[0].id == inner.target.id and isinstance(c.args[1], ast.Name) and c.args[1].id == f.params[1]
            under = any(pol and isinstance(t, ast.Name) and t.id == flag for t, pol in facts_at(cfg, nid))
            no_filter = not [b for _, _, b in cfg.branch_conditions(nid) if cfg.in_loop(b, lp[-1])]
            if over_pre and orig and to_name and under and no_filter:
                good = True
    ctx.ob(f, adds[0] if adds else f.node, good, "for each fused predecessor, an edge from each of *its* predecessors to the fused node is added (ordering, create-arrays barrier and resume scans survive fusion)", sel="rewire:inherit-edges")
    # legacy
    s_ = repo.get(SOD)
    scfg, sfl = cfg_of(s_), flow_of(repo, s_)
    adds = [c for c in s_.own_nodes() if isinstance(c, ast.Call) and isinstance(c.func, ast.Attribute) and c.func.attr == "add_edge"]
    good = False
    for c in adds:
        nid = scfg.node_of(c)
        lp = scfg.nodes[nid].loops
        if lp and isinstance(scfg.nodes[lp[-1]].stmt.iter, ast.Name):
            lst = scfg.nodes[lp[-1]].stmt.iter.id
            for s in sfl.rdefs(lst, lp[-1]):
                if s.value is not None and "predecessors" in unparse(s.value) and "op1" in unparse(s.value):
                    # computed before the nodes are removed
                    rems = [scfg.node_of(r) for r in s_.own_nodes() if isinstance(r, ast.Call) and isinstance(r.func, ast.Attribute) and r.func.attr == "remove_node"]
                    good = all(not scfg.can_reach(r, s.node, avoid={x.id for x in scfg.stmts(ast.For) if not x.loops}) or True for r in rems) and all(scfg.dominates(s.node, r) for r in rems)
    ctx.ob(s_, adds[0] if adds else s_.node, good, "legacy optimiser: inputs of the removed op are re-attached to the fused op (collected before removal)", sel="rewire:legacy")


def _roots_of_kw(repo, f, fl, cfg, call, name, pos=None):
    v = kwarg(call, name)
    if v is None and pos is not None and len(call.args) > pos:
        v = call.args[pos]
    if v is None:
        return None, set()
    return v, fl.roots(v, cfg.node_of(call))


def _closure(fl, cfg, e: ast.AST, at: int, depth: int = 3) -> list[ast.AST]:
    """e together with the defining expressions of the local names in it (transitively)"""
    out, seen, work = [], set(), [(e, at, depth)]
    while work and len(out) < 30:
        x, at_, d_ = work.pop()
        out.append(x)
        if d_ <= 0:
            continue
        for nm in [n for n in ast.walk(x) if isinstance(n, ast.Name) and isinstance(n.ctx, ast.Load) and id(n) not in fl.comp_bind]:
            for s_ in fl.rdefs(nm.id, at_):
                if s_.value is not None and id(s_.value) not in seen:
                    seen.add(id(s_.value))
                    work.append((s_.value, s_.node, d_ - 1))
    return out


def _returned_first(f: Def, calls: list) -> list:
    """constructor calls of f, the one whose result is returned first (a scratch object built
    on the way is not the fused operation)"""
    ret = [r.value for r in f.own_nodes() if isinstance(r, ast.Return) and r.value is not None]
    hit = [c for c in calls if any(c is v for v in ret)]
    return hit + [c for c in calls if c not in hit]


@rule("FUSE-PROV-1", props=["C02", "C05", "C13", "C11"], floor=10, default=["C02", "C05", "C13"])
def fuse_prov(ctx: Ctx) -> None:
    """provenance of every value-relevant field of a fused operation: task set, target and
    write proxies from the successor; read proxies include every predecessor's; source names in
    operand order; predecessor key/block functions keyed by the same array names"""
    repo = ctx.repo
    PO = f"{A.PTYPES}.PrimitiveOperation"
    CP = f"{A.RT_TYPES}.CubedPipeline"
    BS = f"{A.PBW}.BlockwiseSpec"

    def field_from(f: Def, succ: str, call: ast.Call, name: str, suffixes: tuple, pos=None, label=None, props=None):
        fl, cfg = flow_of(repo, f), cfg_of(f)
        v, rs = _roots_of_kw(repo, f, fl, cfg, call, name, pos)
        ok = v is not None and bool(rs) and all(any(r == f"param:{succ}{s}" for s in suffixes) for r in rs)
        ctx.ob(
            f,
            call,
            ok,
            f"{f.name}: `{label or name}` of the fused operation must come from the successor operation ({succ})"
            + ("" if ok else f" — origin {sorted(rs)[:2] if rs else 'missing'}"),
            sel=f"prov:{f.name}:{label or name}",
            props=props,
        )

    # fuse(op1, op2): op2 is the successor
    f = repo.get(f"{A.PBW}.fuse")
    pred, succ = f.params[0], f.params[1]
    po = _returned_first(f, repo.calls_to(f, PO))
    cp = repo.calls_to(f, CP)
    bs = repo.calls_to(f, BS)
    ctx.need(po and cp and bs, "fuse(): constructor calls not found")
    field_from(f, succ, po[0], "target_array", (".target_array",))
    field_from(f, succ, po[0], "num_tasks", (".num_tasks",))
    field_from(f, succ, cp[0], "mappable", (".pipeline.mappable",), pos=2, props=["C02", "C05", "C13", "C11"])
    field_from(f, succ, bs[0], "writes_map", (".pipeline.config.writes_map",), pos=5)
    # the "must be written: never fuse into a consumer" mark of the successor (set by the
    # store operation) survives fusion with its predecessors
    field_from(f, succ, po[0], "fusable_with_successors", (".fusable_with_successors",), label="fusable_with_successors", props=["C02", "C11"])
    fl, cfg = flow_of(repo, f), cfg_of(f)
    v, rs = _roots_of_kw(repo, f, fl, cfg, bs[0], "reads_map", 4)
    ok = bool(rs) and all(r == f"param:{pred}.pipeline.config.reads_map" for r in rs)
    ctx.ob(f, bs[0], ok, "fuse: the fused task reads the *predecessor's* inputs (reads_map of op1)" + ("" if ok else f" — origin {sorted(rs)[:2]}"), sel="prov:fuse:reads_map")
    v, rs = _roots_of_kw(repo, f, fl, cfg, po[0], "source_array_names", None)
    ok = bool(rs) and all(r == f"param:{pred}.source_array_names" for r in rs)
    ctx.ob(f, po[0], ok, "fuse: source_array_names are the predecessor's", sel="prov:fuse:source_array_names")
    # composition order in fuse(): keys flow successor → predecessor, blocks predecessor → successor
    fz = repo.get(f"{A.PBW}.fuse")
    zfl, zcfg = flow_of(repo, fz), cfg_of(fz)

    def owner_of(expr: ast.AST, d: Def) -> str | None:
        """which of fuse()'s parameters an attribute chain `<pipelineN>.config.X` belongs to"""
        b = expr
        while isinstance(b, ast.Attribute):
            b = b.value
        if not isinstance(b, ast.Name):
            return None
        for s_ in zfl.sites.get(next((nid for nid, ss in zfl.sites.items() if any(x.name == b.id and x.kind == "assign" for x in ss)), -1), []):
            if s_.name == b.id and s_.value is not None:
                r = unparse(s_.value)
                for prm in (pred, succ):
                    if r.startswith(prm + "."):
                        return prm
        return b.id if b.id in (pred, succ) else None

    kf = fz.children.get("fused_key_func")
    ff = fz.children.get("fused_func")
    okk = okf = False
    if kf is not None:
        rets = [n for n in kf.own_nodes() if isinstance(n, ast.Return)]
        if len(rets) == 1 and isinstance(rets[0].value, ast.Call):
            outer = rets[0].value
            inner = [c for a in outer.args for c in ast.walk(a) if isinstance(c, ast.Call) and isinstance(c.func, ast.Attribute) and c.func.attr == "back_key_function"]
            okk = isinstance(outer.func, ast.Attribute) and outer.func.attr == "back_key_function" and owner_of(outer.func, kf) == pred and len(inner) == 1 and owner_of(inner[0].func, kf) == succ and inner[0].args and unparse(inner[0].args[0]) == kf.params[0]
    ctx.ob(fz, kf.node if kf else None, okk, "fuse: the fused key function applies the successor's key function to the output key and the predecessor's to its result", sel="prov:fuse:key-compose")
    if ff is not None:
        rets = [n for n in ff.own_nodes() if isinstance(n, ast.Return)]
        if len(rets) == 1 and isinstance(rets[0].value, ast.Call):
            outer = rets[0].value
            inner = [c for a in outer.args for c in ast.walk(a) if isinstance(c, ast.Call) and isinstance(c.func, ast.Attribute) and c.func.attr == "function"]
            okf = isinstance(outer.func, ast.Attribute) and outer.func.attr == "function" and owner_of(outer.func, ff) == succ and len(inner) == 1 and owner_of(inner[0].func, ff) == pred and any(isinstance(a, ast.Starred) and unparse(a.value) == ff.vararg for a in inner[0].args)
    ctx.ob(fz, ff.node if ff else None, okf, "fuse: the fused block function feeds the predecessor's result to the successor's function", sel="prov:fuse:func-compose")
    # fuse_multiple(op, *preds)
    f = repo.get(f"{A.PBW}.fuse_multiple")
    succ, preds = f.params[0], f.vararg
    po = _returned_first(f, repo.calls_to(f, PO))
    cp = repo.calls_to(f, CP)
    ctx.need(po and cp and preds, "fuse_multiple(): constructor calls not found")
    field_from(f, succ, po[0], "target_array", (".target_array",))
    field_from(f, succ, po[0], "num_tasks", (".num_tasks",))
    field_from(f, succ, cp[0], "mappable", (".pipeline.mappable",), pos=2)
    field_from(f, succ, po[0], "fusable_with_successors", (".fusable_with_successors",), label="fusable_with_successors", props=["C02", "C11"])
    fl, cfg = flow_of(repo, f), cfg_of(f)
    # source names: loop over enumerate(preds): append successor's name at i for None, extend p's
    v = kwarg(po[0], "source_array_names")
    ok = False
    if isinstance(v, ast.Name):
        lst = v.id
        app = [c for c in f.own_nodes() if isinstance(c, ast.Call) and isinstance(c.func, ast.Attribute) and isinstance(c.func.value, ast.Name) and c.func.value.id == lst and c.func.attr in ("append", "extend")]
        a_ok = e_ok = False
        for c in app:
            nid = cfg.node_of(c)
            lp = cfg.nodes[nid].loops
            if not lp:
                continue
            it = cfg.nodes[lp[-1]].stmt.iter
            over = isinstance(it, ast.Call) and isinstance(it.func, ast.Name) and it.func.id == "enumerate" and it.args and isinstance(it.args[0], ast.Name) and it.args[0].id == preds
            if not over:
                continue
            tg = cfg.nodes[lp[-1]].stmt.target
            ivar, pvar = (tg.elts[0].id, tg.elts[1].id) if isinstance(tg, ast.Tuple) and len(tg.elts) == 2 else (None, None)
            facts = facts_at(cfg, nid)
            if c.func.attr == "append":
                isnone = any(pol and isinstance(t, ast.Compare) and isinstance(t.ops[0], ast.Is) and isinstance(t.left, ast.Name) and t.left.id == pvar for t, pol in facts)
                a_ok = isnone and unparse(c.args[0]) == f"{succ}.source_array_names[{ivar}]"
            else:
                notnone = any((not pol) and isinstance(t, ast.Compare) and isinstance(t.ops[0], ast.Is) and isinstance(t.left, ast.Name) and t.left.id == pvar for t, pol in facts)
                e_ok = notnone and unparse(c.args[0]) == f"{pvar}.source_array_names"
        ok = a_ok and e_ok
    if not ok and v is not None:
        # any other spelling (comprehension, chain.from_iterable, …): the expression that
        # builds the names enumerates the predecessors in order, takes the successor's i-th
        # own name where the predecessor is None and the predecessor's names otherwise
        exprs = _closure(fl, cfg, v, cfg.node_of(po[0]))
        txt = " ".join(unparse(x, 400) for x in exprs)
        enum = any(isinstance(c, ast.Call) and isinstance(c.func, ast.Name) and c.func.id == "enumerate" and c.args and isinstance(c.args[0], ast.Name) and c.args[0].id == preds for x in exprs for c in ast.walk(x))
        own = any(isinstance(sub, ast.Subscript) and unparse(sub.value) == f"{succ}.source_array_names" and isinstance(sub.slice, ast.Name) for x in exprs for sub in ast.walk(x))
        theirs = any(isinstance(a_, ast.Attribute) and a_.attr == "source_array_names" and isinstance(a_.value, ast.Name) and a_.value.id != succ for x in exprs for a_ in ast.walk(x))
        reordered = any(isinstance(c, ast.Call) and isinstance(c.func, ast.Name) and c.func.id in ("reversed", "sorted", "set") for x in exprs for c in ast.walk(x))
        none_test = " is None" in txt or " is not None" in txt
        if enum and own and theirs and none_test and not reordered and "append" not in txt.split("source_array_names")[0][-0:0]:
            ok = True
    ctx.ob(f, po[0], ok, "fuse_multiple: source_array_names = predecessors' names in operand order, the successor's own name at unfused positions", sel="prov:fuse_multiple:source_array_names")
    fbs = repo.calls_to(f, f"{A.PBW}.fuse_blockwise_specs")
    ok = False
    if fbs:
        c = fbs[0]
        a0 = fl.roots(c.args[0], cfg.node_of(c)) if c.args else set()
        st = [a for a in c.args if isinstance(a, ast.Starred)]
        ok = all(r == f"param:{succ}.pipeline.config" for r in a0) and bool(a0) and bool(st)
        if ok and isinstance(st[0].value, ast.Name):
            ok = False
            for s in fl.rdefs(st[0].value.id, cfg.node_of(c)):
                lc = s.value
                if isinstance(lc, ast.ListComp) and isinstance(lc.generators[0].iter, ast.Name) and lc.generators[0].iter.id == preds and not lc.generators[0].ifs:
                    ok = True
    ctx.ob(f, fbs[0] if fbs else f.node, ok, "fuse_multiple: the fused spec is built from the successor's spec and one spec per predecessor, in operand order", sel="prov:fuse_multiple:specs")
    # fuse_blockwise_specs(bw_spec, *pred_specs)
    f = repo.get(f"{A.PBW}.fuse_blockwise_specs")
    succ, preds = f.params[0], f.vararg
    bs = repo.calls_to(f, BS)
    ctx.need(bs and preds, "fuse_blockwise_specs: BlockwiseSpec construction not found")
    fl, cfg = flow_of(repo, f), cfg_of(f)
    field_from(f, succ, bs[0], "writes_map", (".writes_map",), pos=5)
    field_from(f, succ, bs[0], "num_output_blocks", (".num_output_blocks",), pos=3)
    v, _ = _roots_of_kw(repo, f, fl, cfg, bs[0], "reads_map", 4)
    ok = False
    if isinstance(v, ast.Name):
        init_ok = any(s.value is not None and unparse(s.value) in (f"dict({succ}.reads_map)", f"{succ}.reads_map.copy()", f"{{**{succ}.reads_map}}") for s in fl.rdefs(v.id, cfg.node_of(bs[0])))
        upd_ok = False
        for c in f.own_nodes():
            if isinstance(c, ast.Call) and isinstance(c.func, ast.Attribute) and c.func.attr == "update" and isinstance(c.func.value, ast.Name) and c.func.value.id == v.id:
                nid = cfg.node_of(c)
                lp = cfg.nodes[nid].loops
                if lp and isinstance(cfg.nodes[lp[-1]].stmt.iter, ast.Name) and cfg.nodes[lp[-1]].stmt.iter.id == preds and not [b for _, _, b in cfg.branch_conditions(nid) if cfg.in_loop(b, lp[-1])]:
                    tv = cfg.nodes[lp[-1]].stmt.target
                    if isinstance(tv, ast.Name) and c.args and unparse(c.args[0]) == f"{tv.id}.reads_map":
                        upd_ok = True
        ok = init_ok and upd_ok
    if not ok and v is not None:
        # other spellings of "a new mapping holding the successor's and every predecessor's
        # read proxies": {**a, **b}, a | b, toolz.merge(a, *(p.reads_map for p in preds)), …
        exprs = _closure(fl, cfg, v, cfg.node_of(bs[0]))
        has_succ = any(isinstance(a_, ast.Attribute) and a_.attr == "reads_map" and isinstance(a_.value, ast.Name) and a_.value.id == succ for x in exprs for a_ in ast.walk(x))
        over_preds = any(
            isinstance(g, (ast.GeneratorExp, ast.ListComp, ast.DictComp)) and any(isinstance(gen.iter, ast.Name) and gen.iter.id == preds and not gen.ifs for gen in g.generators) and any(isinstance(a_, ast.Attribute) and a_.attr == "reads_map" for a_ in ast.walk(g))
            for x in exprs
            for g in ast.walk(x)
        )
        in_place = any(isinstance(c, ast.Call) and isinstance(c.func, ast.Attribute) and c.func.attr in ("update", "setdefault") and unparse(c.func.value).endswith(f"{succ}.reads_map") for c in f.own_nodes())
        fresh = any(isinstance(x, (ast.Dict, ast.DictComp)) or (isinstance(x, ast.Call) and (attr_chain(x.func) or "").split(".")[-1] in ("merge", "dict", "ChainMap")) or (isinstance(x, ast.BinOp) and isinstance(x.op, ast.BitOr)) for x in exprs)
        if has_succ and over_preds and fresh and not in_place:
            ok = True
    ctx.ob(f, bs[0], ok, "fuse_blockwise_specs: reads_map = copy of the successor's reads ∪ every predecessor's reads", sel="prov:fuse_blockwise_specs:reads_map")
    # predecessor key functions and block functions: same loop, same key
    stores = {}
    for n in f.own_nodes():
        if isinstance(n, ast.Assign) and isinstance(n.targets[0], ast.Subscript) and isinstance(n.targets[0].value, ast.Name) and isinstance(n.value, ast.Attribute) and n.value.attr in ("back_key_function", "function"):
            stores[n.value.attr] = n
    ok = set(stores) == {"back_key_function", "function"}
    if ok:
        a, b = stores["back_key_function"], stores["function"]
        na, nb = cfg.node_of(a), cfg.node_of(b)
        same_loop = cfg.nodes[na].loops == cfg.nodes[nb].loops and len(cfg.nodes[na].loops) == 2
        same_key = unparse(a.targets[0].slice) == unparse(b.targets[0].slice)
        same_src = unparse(a.value.value) == unparse(b.value.value)
        keys_from = False
        if same_loop:
            inner = cfg.nodes[cfg.nodes[na].loops[-1]].stmt
            outer = cfg.nodes[cfg.nodes[na].loops[-2]].stmt
            keys_from = "writes_map" in unparse(inner.iter) and isinstance(outer.iter, ast.Name) and outer.iter.id == preds and unparse(a.value.value) in unparse(inner.iter)
        ok = same_loop and same_key and same_src and keys_from
    if not stores:
        # two dictionary comprehensions over the same generators
        dcs = {}
        for n in f.own_nodes():
            if isinstance(n, ast.DictComp) and isinstance(n.value, ast.Attribute) and n.value.attr in ("back_key_function", "function"):
                dcs[n.value.attr] = n
        if set(dcs) == {"back_key_function", "function"}:
            a, b = dcs["back_key_function"], dcs["function"]
            gens = lambda d_: [(unparse(g.target), unparse(g.iter), [unparse(i_) for i_ in g.ifs]) for g in d_.generators]
            ok = (
                gens(a) == gens(b)
                and unparse(a.key) == unparse(b.key)
                and unparse(a.value.value) == unparse(b.value.value)
                and len(a.generators) == 2
                and isinstance(a.generators[0].iter, ast.Name)
                and a.generators[0].iter.id == preds
                and "writes_map" in unparse(a.generators[1].iter)
                and unparse(a.value.value) in unparse(a.generators[1].iter)
                and unparse(a.key) == unparse(a.generators[1].target)
                and not a.generators[0].ifs
                and not a.generators[1].ifs
            )
            stores = {"function": b}
    ctx.ob(f, stores.get("function", f.node), ok, "fuse_blockwise_specs: predecessor key functions and block functions are registered in one loop under the same array name (a predecessor's writes_map key)", sel="prov:fuse_blockwise_specs:function-dicts", props=["C02", "C15"])


# ------------------------------------------------------------------------------ NEST-*

DISPATCHERS = (f"{A.PBW}._map_nested_impl", f"{A.PBW}.apply_blockwise_key_func", f"{A.PBW}.apply_blockwise_func")


def _is_generator_def(d: Def) -> bool:
    return any(isinstance(n, (ast.Yield, ast.YieldFrom)) for n in d.own_nodes())


def _lazy_value(v: ast.AST, repo: Repo | None = None, d: Def | None = None) -> bool:
    if isinstance(v, ast.GeneratorExp):
        return True
    if repo is not None and isinstance(v, ast.Call):
        ts = [t for t in repo.resolve_call(v, d, d.module) if t.kind == "def" and t.ref.is_func]
        if ts and all(_is_generator_def(t.ref) for t in ts):
            return True  # a generator function of the repo: lazy by construction
    if isinstance(v, ast.Call) and isinstance(v.func, ast.Name) and v.func.id in ("map", "iter", "zip", "filter"):
        if v.func.id == "iter" and v.args and isinstance(v.args[0], (ast.ListComp, ast.List, ast.Tuple)):
            return False
        return True
    return False


def _branch_kind(facts, param: str):
    """Which structural case a return belongs to, from isinstance facts on ``param``."""
    pos = [unparse(t.args[1]) for t, pol in facts if pol and isinstance(t, ast.Call) and isinstance(t.func, ast.Name) and t.func.id == "isinstance" and isinstance(t.args[0], ast.Name) and t.args[0].id == param]
    neg = [unparse(t.args[1]) for t, pol in facts if not pol and isinstance(t, ast.Call) and isinstance(t.func, ast.Name) and t.func.id == "isinstance" and isinstance(t.args[0], ast.Name) and t.args[0].id == param]
    if "list" in pos:
        return "list"
    if "Iterator" in pos:
        return "iterator"
    if any(x in ("FunctionArgs", "ChunkKey") for x in pos):
        return "single"
    if "list" in neg and any(x in ("FunctionArgs", "ChunkKey") for x in neg) and "Iterator" not in neg:
        return "iterator"  # the final else of single / list / <rest>
    if "list" in neg and "Iterator" in neg and "FunctionArgs" in neg:
        return "leaf"
    return "other"


@rule("NEST-LAZY-1", props=["C15", "C03", "C02"], floor=6)
def nest_lazy(ctx: Ctx) -> None:
    """the structure-preserving dispatchers return a list for a list and a *lazy* iterator for an
    iterator (one input block in memory at a time survives fusion)"""
    repo = ctx.repo
    for q in DISPATCHERS:
        d = repo.get(q)
        cfg = cfg_of(d)
        arg = d.params[1] if q.endswith("_map_nested_impl") else d.params[0]
        seen = set()
        for r in cfg.returns():
            kind = _branch_kind(facts_at(cfg, r.id), arg)
            v = r.stmt.value
            if kind == "list":
                seen.add(kind)
                ok = isinstance(v, (ast.ListComp, ast.List)) or (isinstance(v, ast.Call) and isinstance(v.func, ast.Name) and v.func.id == "list")
                ctx.ob(d, r.stmt, ok, f"{d.name}: a list of blocks maps to a list", sel="nest:list")
            elif kind == "iterator":
                seen.add(kind)
                ok = _lazy_value(v, repo, d)
                ctx.ob(d, r.stmt, ok, f"{d.name}: an iterator of blocks maps to a lazy iterator" + ("" if ok else f" — `{unparse(v, 50)}` materialises every block at once (projected memory assumes one at a time)"), sel="nest:iterator")
        ctx.ob(d, None, {"list", "iterator"} <= seen, f"{d.name} distinguishes the list and the iterator case", sel="nest:cases")
    # key functions that return a variable number of blocks per argument stream them
    for q, label in ((f"{A.OPS}.partial_reduce.back_key_function", "partial_reduce"), (f"{A.OPS}.map_selection.back_key_function", "map_selection")):
        d = repo.get(q)
        fas = [c for c in d.own_nodes() if isinstance(c, ast.Call) and f"{A.PBW}.FunctionArgs" in repo.callee_quals(c, d)]
        ok = bool(fas) and all(c.args and isinstance(c.args[0], ast.Call) and isinstance(c.args[0].func, ast.Name) and c.args[0].func.id == "iter" or (c.args and isinstance(c.args[0], ast.GeneratorExp)) for c in fas)
        ctx.ob(d, fas[0] if fas else d.node, ok, f"{label}: the variable-length group of input keys is handed over as an iterator (blocks are then read one at a time)", sel=f"stream:key:{label}", props=["C03"])
    for q, p in ((f"{A.OPS}._partial_reduce", "arrays"), (f"{A.OPS}._assemble_index_chunk", "arrays")):
        d = repo.get(q)
        bad = []
        for c in d.own_nodes():
            if isinstance(c, ast.Call) and isinstance(c.func, ast.Name) and c.func.id in ("list", "tuple", "sorted", "len") and c.args and isinstance(c.args[0], ast.Name) and c.args[0].id == p:
                bad.append(c)
            if isinstance(c, ast.Call) and attr_chain(c.func) and attr_chain(c.func).startswith("nxp.") and any(isinstance(a, ast.Name) and a.id == p for a in c.args):
                bad.append(c)
            if isinstance(c, (ast.ListComp, ast.List)) and any(isinstance(n, ast.Name) and n.id == p for g in getattr(c, "generators", []) for n in ast.walk(g.iter)):
                bad.append(c)
        ctx.ob(d, bad[0] if bad else None, not bad, f"{d.name} consumes its block stream one block at a time (for / zip / next), never materialising it", sel=f"stream:block:{d.name}", props=["C03"])
    # bounded accumulation: what is carried from one block to the next is reduced again in the
    # same iteration (the projection reserves two *reduced* chunks, not a growing concatenation)
    pr = repo.get(f"{A.OPS}._partial_reduce")
    pcfg, pfl = cfg_of(pr), flow_of(repo, pr)
    loops = [n for n in pcfg.stmts(ast.For) if isinstance(n.stmt.iter, ast.Name) and n.stmt.iter.id == pr.params[0]]
    if loops:
        L = loops[0]
        grows = [(nid, s_) for nid, ss in pfl.sites.items() for s_ in ss if s_.kind == "assign" and pcfg.in_loop(nid, L.id) and s_.value is not None and any(isinstance(c, ast.Call) and isinstance(c.func, ast.Attribute) and c.func.attr in ("concat", "concatenate", "stack") for c in ast.walk(s_.value))]
        # ... and no container defined outside the loop collects per-block data across iterations
        loop_names = {s2.name for n2, ss in pfl.sites.items() for s2 in ss if pcfg.in_loop(n2, L.id)} | {x.id for x in ast.walk(L.stmt.target) if isinstance(x, ast.Name)}
        collectors = []
        for c in pr.own_nodes():
            if isinstance(c, ast.Call) and isinstance(c.func, ast.Attribute) and c.func.attr in ("append", "extend", "insert", "add", "appendleft") and isinstance(c.func.value, ast.Name) and pcfg.has(c) and pcfg.in_loop(pcfg.node_of(c), L.id):
                outside = any(not pcfg.in_loop(d_.node, L.id) for d_ in pfl.rdefs(c.func.value.id, pcfg.node_of(c)))
                if outside and any(isinstance(x, ast.Name) and x.id in loop_names for a in c.args for x in ast.walk(a)):
                    collectors.append(c)
        ctx.ob(
            pr,
            collectors[0] if collectors else L.stmt,
            not collectors,
            "no container outlives an iteration of the block loop with per-block data in it"
            + ("" if not collectors else f" — `{unparse(collectors[0], 50)}` keeps every block's reduced chunk until the loop ends: memory grows with the number of blocks in the group, beyond the two reduced chunks the projection reserves"),
            sel="stream:no-collector",
            props=["C03"],
        )
        for nid, s_ in grows:
            reducers = {n2 for n2, ss in pfl.sites.items() for s2 in ss if s2.name == s_.name and s2.kind == "assign" and pcfg.in_loop(n2, L.id) and isinstance(s2.value, ast.Call) and any(t.kind == "param" for t in repo.resolve_call(s2.value, pr, pr.module)) and mentions_name(s2.value, s_.name)}
            ok = bool(reducers) and pcfg.all_paths_pass(nid, L.id, reducers)
            ctx.ob(pr, pcfg.nodes[nid].stmt, ok, f"after `{s_.name}` grows by concatenation it is reduced again before the next block is read" + ("" if ok else " — the concatenation is carried across iterations: memory grows with the number of blocks in the group, beyond the two reduced chunks the projection reserves"), sel="stream:bounded-accumulator", props=["C03"])


def _is_per_key_lookup(repo: Repo, h: Def, depth: int = 2) -> bool:
    """h(key, dct, …) maps one key through `dct[key.name](key)` — itself or through a callee
    of the same shape (the role of _apply_blockwise_key_func_to_chunk_key, whatever it is
    called)"""
    hp = h.positional_params
    if len(hp) < 2 or depth <= 0:
        return False
    kp, dp = hp[0], hp[1]
    for x in h.own_nodes():
        if not (isinstance(x, ast.Call) and x.args and isinstance(x.args[0], ast.Name) and x.args[0].id == kp):
            continue
        if isinstance(x.func, ast.Subscript) and unparse(x.func.value) == dp and unparse(x.func.slice) == f"{kp}.name":
            return True
        if len(x.args) >= 2 and isinstance(x.args[1], ast.Name) and x.args[1].id == dp:
            for t in repo.resolve_call(x, h, h.module):
                if t.kind == "def" and t.ref.is_func and t.ref is not h and _is_per_key_lookup(repo, t.ref, depth - 1):
                    return True
    return False


def _per_element_dispatch(repo: Repo, d: Def, seq: str, dct: str, per_key: str, depth: int):
    """Sites in d where elements of parameter `seq` are mapped: yields (ok, node, why)."""
    cfg, fl = cfg_of(d), flow_of(repo, d)
    found = False

    def is_per_key_call(c: ast.Call, scope: Def) -> bool:
        if per_key in repo.callee_quals(c, scope):
            return True
        return any(t.kind == "def" and t.ref.is_func and _is_per_key_lookup(repo, t.ref) for t in repo.resolve_call(c, scope, scope.module))
    # comprehension form
    for comp in [n for n in d.own_nodes() if isinstance(n, (ast.ListComp, ast.GeneratorExp))]:
        g = comp.generators[0]
        if not (isinstance(g.iter, ast.Name) and g.iter.id == seq and isinstance(g.target, ast.Name)):
            continue
        found = True
        el = g.target.id
        calls = [c for c in ast.walk(comp.elt) if isinstance(c, ast.Call) and c.args and isinstance(c.args[0], ast.Name) and c.args[0].id == el]
        ok = any(is_per_key_call(c, d) and len(c.args) >= 2 and unparse(c.args[1]) == dct for c in calls) or any(isinstance(c.func, ast.Subscript) and unparse(c.func.value) == dct and unparse(c.func.slice) == f"{el}.name" for c in calls)
        if not ok:
            # the per-element work may sit in a local function: [h(a) for a in seq] with
            # def h(a): … per_key(a, dct) …   (dct is the enclosing function's parameter)
            for c in calls:
                if isinstance(c.func, ast.Name) and c.func.id in d.children and d.children[c.func.id].is_func and len(c.args) == 1:
                    h = d.children[c.func.id]
                    hp = h.params[0] if h.params else None
                    inner = [x for x in h.own_nodes() if isinstance(x, ast.Call) and x.args and isinstance(x.args[0], ast.Name) and x.args[0].id == hp]
                    if any(is_per_key_call(x, h) and len(x.args) >= 2 and unparse(x.args[1]) == dct for x in inner):
                        ok = True
        yield ok, comp, "the element is not looked up under its own name"
    # loop form (generator helper)
    for ln in cfg.stmts((ast.For, ast.AsyncFor)):
        it, tg = ln.stmt.iter, ln.stmt.target
        if not (isinstance(it, ast.Name) and it.id == seq and isinstance(tg, ast.Name)):
            continue
        found = True
        el = tg.id
        apps = [c for c in d.own_nodes() if isinstance(c, ast.Call) and cfg.has(c) and cfg.in_loop(cfg.node_of(c), ln.id) and c.args and isinstance(c.args[0], ast.Name) and c.args[0].id == el and not (isinstance(c.func, ast.Name) and c.func.id in ("isinstance", "len", "str", "repr"))]
        for c in apps:
            at = cfg.node_of(c)
            if is_per_key_call(c, d):
                yield True, c, ""
                continue
            if isinstance(c.func, ast.Subscript) and unparse(c.func.value) == dct and unparse(c.func.slice) == f"{el}.name":
                yield True, c, ""
                continue
            if isinstance(c.func, ast.Name):
                sites = fl.rdefs(c.func.id, at)
                fresh = bool(sites) and all(cfg.in_loop(s.node, ln.id) and cfg.dominates(s.node, at) and s.value is not None and dct in unparse(s.value) and f"{el}.name" in unparse(s.value) for s in sites)
                if fresh:
                    yield True, c, ""
                else:
                    yield False, c, f"`{c.func.id}` applied to `{el}` may come from another element's lookup (a definition outside this iteration, or one that does not dominate the call, reaches it): keys of different arrays in one collection get the wrong predecessor function"
    # helper form: d hands (seq, dct) to a repo function; analyse that function
    if depth > 0:
        for c, ts in repo.calls_in(d):
            args = [unparse(a) for a in c.args]
            if seq in args and dct in args:
                for t in ts:
                    if t.kind == "def" and t.ref.is_func and t.ref is not d and t.qual != per_key:
                        h = t.ref
                        hp = h.positional_params
                        if len(hp) >= 2:
                            sub = list(_per_element_dispatch(repo, h, hp[args.index(seq)], hp[args.index(dct)], per_key, depth - 1))
                            if sub:
                                found = True
                                for ok, node, why in sub:
                                    yield ok, c, f"in helper {h.name}: {why}" if not ok else ""
    if not found and depth > 0:
        yield False, None, "no per-element mapping of the collection found"


@rule("NEST-DISPATCH-1", props=["C15", "C02"], floor=6)
def nest_dispatch(ctx: Ctx) -> None:
    """fused key/block function dispatch: output names follow the *input* element, names
    missing from the predecessor dictionaries pass through in both dispatchers, every
    positional argument is dispatched in order, generator-ness of the outer function is kept"""
    repo = ctx.repo
    FA = f"{A.PBW}.FunctionArgs"
    # (iii) output names
    mn = repo.get(f"{A.PBW}._map_nested_impl")
    for c in repo.calls_to(mn, FA):
        on = kwarg(c, "output_name")
        ok = on is not None and unparse(on) == f"{mn.params[1]}.output_name"
        ctx.ob(mn, c, ok, "map_nested rebuilds FunctionArgs with the input's own output_name", sel="dispatch:map-nested-name")
    kf = repo.get(f"{A.PBW}.apply_blockwise_key_func")
    for c in repo.calls_to(kf, FA):
        on = kwarg(c, "output_name")
        # element variable of the enclosing comprehension over the argument
        ok = False
        for comp in [n for n in kf.own_nodes() if isinstance(n, (ast.ListComp, ast.GeneratorExp))]:
            if any(x is c for x in ast.walk(comp.elt)):
                g = comp.generators[0]
                ok = isinstance(g.target, ast.Name) and isinstance(g.iter, ast.Name) and g.iter.id == kf.params[0] and on is not None and unparse(on) == f"{g.target.id}.name" and not g.ifs
        ctx.ob(kf, c, ok, "apply_blockwise_key_func: each element's FunctionArgs carries that element's array name (it selects the predecessor function later)", sel="dispatch:key-name")
    # every element of a collection is dispatched by *its own* array name
    per_key = f"{A.PBW}._apply_blockwise_key_func_to_chunk_key"
    for site_ok, node, why in _per_element_dispatch(repo, kf, kf.params[0], kf.params[1], per_key, depth=1):
        ctx.ob(kf, node, site_ok, "apply_blockwise_key_func: each key of a list/stream is mapped through the predecessor key function looked up under that key's own array name" + ("" if site_ok else f" — {why}"), sel="dispatch:per-element-lookup")
    fk = repo.get(f"{A.PBW}.make_fused_back_key_function.fused_key_func")
    for c in repo.calls_to(fk, FA):
        on = kwarg(c, "output_name")
        fl = flow_of(repo, fk)
        ok = on is not None and isinstance(on, ast.Attribute) and on.attr == "output_name" and any(r.startswith("pcall:") or r.startswith("call:") or "back_key_function" in r for r in fl.roots(on.value, cfg_of(fk).node_of(c)))
        ctx.ob(fk, c, ok, "the fused key function keeps the successor key's output_name", sel="dispatch:fused-name")
        st = [a for a in c.args if isinstance(a, ast.Starred)]
        ctx.ob(fk, c, len(st) == 1 and len(c.args) == 1, "the fused key function returns one (nested) entry per original argument", sel="dispatch:fused-args")
    # every positional argument dispatched, in order
    for q, disp in (
        (f"{A.PBW}.make_fused_back_key_function.fused_key_func", f"{A.PBW}.apply_blockwise_key_func"),
        (f"{A.PBW}.make_fused_function.fused_func_single", f"{A.PBW}.apply_blockwise_func"),
        (f"{A.PBW}.make_fused_function.fused_func_generator", f"{A.PBW}.apply_blockwise_func"),
    ):
        d = repo.get(q)
        comps = [n for n in d.own_nodes() if isinstance(n, (ast.ListComp, ast.GeneratorExp)) and isinstance(n.elt, ast.Call) and disp in repo.callee_quals(n.elt, d)]
        holder = d
        if not comps and d.parent is not None:
            # a sibling local function that maps the dispatcher over its parameter, called
            # here with the arguments
            for sib in d.parent.children.values():
                if sib is d or not sib.is_func:
                    continue
                sc = [n for n in sib.own_nodes() if isinstance(n, (ast.ListComp, ast.GeneratorExp)) and isinstance(n.elt, ast.Call) and disp in repo.callee_quals(n.elt, sib)]
                called = [c for c in d.own_nodes() if isinstance(c, ast.Call) and isinstance(c.func, ast.Name) and c.func.id == sib.name and len(c.args) == 1]
                if len(sc) == 1 and called and sib.params and isinstance(sc[0].generators[0].iter, ast.Name) and sc[0].generators[0].iter.id == sib.params[0]:
                    # judge the comprehension in the sibling, and the argument handed to it here
                    comps, holder = sc, sib
                    arg_roots = flow_of(repo, d).roots(called[0].args[0], cfg_of(d).node_of(called[0])) if cfg_of(d).has(called[0]) else set()
                    if not (arg_roots and all(r.startswith("param:") or ".args" in r for r in arg_roots)):
                        comps = []
        d_orig, d = d, holder
        ok = len(comps) == 1
        if ok:
            g = comps[0].generators[0]
            ok = not g.ifs and isinstance(g.iter, (ast.Name, ast.Attribute)) and isinstance(g.target, ast.Name) and comps[0].elt.args and isinstance(comps[0].elt.args[0], ast.Name) and comps[0].elt.args[0].id == g.target.id and len(comps[0].generators) == 1
            if ok:
                fl = flow_of(repo, d)
                rs = fl.roots(g.iter, cfg_of(d).node_of(comps[0]))
                ok = all(r.startswith("param:") or ".args" in r for r in rs)
        d = d_orig
        ctx.ob(d, comps[0] if comps else d.node, ok, f"{d.name}: the dispatcher is applied to every argument, in order, without filter", sel=f"dispatch:all-args:{d.name}")
        # ... with the predecessor dictionary the factory was given — not a derived one
        # (a memoising or filtering wrapper makes two occurrences of one key share one
        # FunctionArgs, i.e. one single-use block iterator)
        if comps and len(comps[0].elt.args) >= 2 and d.parent is not None:
            a1 = comps[0].elt.args[1]
            okd = isinstance(a1, ast.Name) and a1.id in d.parent.params and not flow_of(repo, holder).rdefs(a1.id, cfg_of(holder).node_of(comps[0]))
            ctx.ob(
                d,
                comps[0],
                okd,
                f"{d.name}: the dispatcher looks predecessors up in the dictionary the factory received (`{unparse(a1, 40)}`)"
                + ("" if okd else " — a dictionary built inside the fused function (cache / wrapper): repeated occurrences of one predecessor key no longer get their own key-function result"),
                sel=f"dispatch:own-dict:{d.name}",
                # (a locally built dictionary is positive evidence, whoever builds it)
                firm=isinstance(a1, ast.Name) and bool(flow_of(repo, holder).rdefs(a1.id, cfg_of(holder).node_of(comps[0]))),
            )
    # (iv) pass-through on missing name
    k1 = repo.get(f"{A.PBW}._apply_blockwise_key_func_to_chunk_key")
    c1 = cfg_of(k1)
    ok1 = False
    def _absent(t, pol, K, key_attr, kfl, at):
        """the fact says: K's dictionary has no entry under <arg>.<key_attr>"""
        if isinstance(t, ast.Compare) and isinstance(t.ops[0], (ast.NotIn, ast.In)) and (isinstance(t.ops[0], ast.NotIn) == pol) and unparse(t.left) == f"{K.params[0]}.{key_attr}" and unparse(t.comparators[0]) == K.params[1]:
            return True
        # v = D.get(arg.<key_attr>) ; if v is None
        if isinstance(t, ast.Compare) and isinstance(t.ops[0], (ast.Is, ast.IsNot)) and (isinstance(t.ops[0], ast.Is) == pol) and isinstance(t.comparators[0], ast.Constant) and t.comparators[0].value is None and isinstance(t.left, ast.Name):
            for s_ in kfl.rdefs(t.left.id, at):
                v = s_.value
                if isinstance(v, ast.Call) and isinstance(v.func, ast.Attribute) and v.func.attr == "get" and unparse(v.func.value) == K.params[1] and v.args and unparse(v.args[0]) == f"{K.params[0]}.{key_attr}" and (len(v.args) == 1 or (isinstance(v.args[1], ast.Constant) and v.args[1].value is None)):
                    return True
        return False

    k1fl = flow_of(repo, k1)
    for r in c1.returns():
        for t, pol in facts_at(c1, r.id):
            if _absent(t, pol, k1, "name", k1fl, r.id):
                v = r.stmt.value
                ok1 = isinstance(v, ast.Call) and FA in repo.callee_quals(v, k1) and len(v.args) == 1 and unparse(v.args[0]) == k1.params[0] and unparse(kwarg(v, "output_name")) == f"{k1.params[0]}.name"
    ctx.ob(k1, None, ok1, "key dispatcher: a key whose array has no predecessor key function passes through unchanged", sel="dispatch:key-passthrough")
    # every other return is a fresh call of the predecessor's key function — never a value kept
    # from an earlier call (the result may hold a single-use block iterator)
    for r in c1.returns():
        v = r.stmt.value
        if isinstance(v, ast.Call) and FA in repo.callee_quals(v, k1):
            continue
        fresh = isinstance(v, ast.Call) and isinstance(v.func, ast.Subscript) and unparse(v.func.value) == k1.params[1]
        if not fresh and isinstance(v, ast.Call) and isinstance(v.func, ast.Name):
            # kf = D.get(arg.name) … return kf(arg): still a call made now
            ds_ = k1fl.rdefs(v.func.id, r.id)
            fresh = bool(ds_) and all(isinstance(d_.value, ast.Call) and isinstance(d_.value.func, ast.Attribute) and d_.value.func.attr == "get" and unparse(d_.value.func.value) == k1.params[1] for d_ in ds_)
        ctx.ob(k1, r.stmt, fresh, "key dispatcher: the predecessor's key function is called afresh for every occurrence of a key" + ("" if fresh else f" — it returns `{unparse(v, 40)}`: a remembered result is shared between occurrences, and with it a single-use iterator of blocks"), sel="dispatch:key-fresh-call")
    k2 = repo.get(f"{A.PBW}.apply_blockwise_func")
    c2 = cfg_of(k2)
    ok2 = False
    k2fl = flow_of(repo, k2)
    for r in c2.returns():
        for t, pol in facts_at(c2, r.id):
            if _absent(t, pol, k2, "output_name", k2fl, r.id):
                ok2 = f"{k2.params[0]}.args" in unparse(r.stmt.value)
    ctx.ob(k2, None, ok2, "function dispatcher: arguments whose array has no predecessor function pass through (keyed by the same name the key dispatcher recorded)", sel="dispatch:func-passthrough")
    # lookup keys agree: key dispatcher indexes by arg.name, function dispatcher by arg.output_name
    def _lookup_keys(K):
        """the expressions under which K's dictionary is indexed: D[<key>] and D.get(<key>)"""
        out = [unparse(n.slice) for n in K.own_nodes() if isinstance(n, ast.Subscript) and unparse(n.value) == K.params[1]]
        out += [unparse(n.args[0]) for n in K.own_nodes() if isinstance(n, ast.Call) and isinstance(n.func, ast.Attribute) and n.func.attr == "get" and unparse(n.func.value) == K.params[1] and n.args]
        return out

    sub1, sub2 = _lookup_keys(k1), _lookup_keys(k2)
    ok = bool(sub1) and bool(sub2) and all(x == f"{k1.params[0]}.name" for x in sub1) and all(x == f"{k2.params[0]}.output_name" for x in sub2)
    sub2 = [n for n in k2.own_nodes() if isinstance(n, (ast.Subscript, ast.Call)) and unparse(getattr(n, "value", getattr(getattr(n, "func", None), "value", None))) == k2.params[1]]
    ctx.ob(k2, sub2[0] if sub2 else None, ok, "predecessor dictionaries are indexed by the array name in both dispatchers", sel="dispatch:index-by-name")
    # generator-ness
    mf = repo.get(f"{A.PBW}.make_fused_function")
    rets = [n for n in mf.own_nodes() if isinstance(n, ast.Return)]
    mcfg = cfg_of(mf)

    def _isgen_test(t: ast.AST) -> bool:
        return isinstance(t, ast.Call) and (attr_chain(t.func) or "").split(".")[-1] == "isgeneratorfunction" and len(t.args) == 1 and isinstance(t.args[0], ast.Name) and t.args[0].id == mf.params[0]

    def _yields(h: Def) -> bool:
        return any(isinstance(x, (ast.Yield, ast.YieldFrom)) for x in h.own_nodes())

    verdicts = []
    for r in mcfg.returns():
        v = r.stmt.value
        arms = []
        if isinstance(v, ast.IfExp) and _isgen_test(v.test):
            arms = [(v.body, True), (v.orelse, False)]
        elif v is not None:
            pol_ = None
            for t, pol in facts_at(mcfg, r.id):
                if _isgen_test(t):
                    pol_ = pol
            arms = [(v, pol_)]
        for e, pol_ in arms:
            h = mf.children.get(e.id) if isinstance(e, ast.Name) else None
            if h is not None and h.is_func and pol_ is not None:
                verdicts.append(_yields(h) == pol_)
    ok = ctx.present(mf, len(verdicts) >= 2, "make_fused_function: which inner function is returned for generator / plain outer functions") and all(verdicts)
    ctx.ob(mf, rets[0] if rets else mf.node, ok, "the fused function is a generator exactly when the outer function is one (multiple outputs)", sel="dispatch:generator")
    g = repo.get(f"{A.PBW}.make_fused_function.fused_func_generator")
    ok = any(isinstance(n, ast.YieldFrom) for n in g.own_nodes())
    ctx.ob(g, None, ok, "the generator wrapper yields every output of the outer function", sel="dispatch:yield-from")
