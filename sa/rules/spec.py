"""C18 (specs cannot be mixed; memory settings) and C19 (configuration neutrality)."""

from __future__ import annotations

import ast

from .. import anchors as A
from ..astutil import compare_norm, is_self_attr, kwarg, has_star_kwargs, mentions_attr, mentions_name, unparse
from ..cfg import cfg_of, is_raise
from ..effects import effects_of
from ..flow import flow_of
from ..index import Def, Repo, attr_chain, walk_own
from ..runner import Ctx, rule
from .runtime import conjuncts, facts_at

CHECK = f"{A.ARRAY}.check_array_specs"
A2D = f"{A.PLAN}.arrays_to_dag"
MERGE_EXT = {"networkx.compose_all", "networkx.compose", "networkx.union", "networkx.union_all", "networkx.disjoint_union"}


@rule("SPEC-CHECK-1", props=["C18"], floor=5)
def spec_check_1(ctx: Ctx) -> None:
    """plan graphs are merged at a single point, arrays_to_dag, where check_array_specs on the
    same sequence dominates the merge; every plan-building path goes through it"""
    repo = ctx.repo
    a2d = repo.get(A2D)
    for d, c, ts in repo.all_call_sites():
        if d is None or d.module.qual.startswith(("cubed.vendor.", "cubed.diagnostics.")):
            continue
        if any(t.kind == "ext" and t.qual in MERGE_EXT for t in ts):
            ctx.ob(d, c, d is a2d, f"`{unparse(c.func)}` merges plan graphs; only arrays_to_dag may (it is where specs are checked)", sel="merge:who")
        # graph-into-graph updates: G.update(H) / G.add_nodes_from(H.nodes...) on plan graphs
        if isinstance(c.func, ast.Attribute) and c.func.attr in ("add_nodes_from", "add_edges_from") and c.args:
            txt = unparse(c.args[0], 80)
            if "_plan" in txt or ".dag" in txt:
                ctx.ob(d, c, d is a2d, f"`{unparse(c, 60)}` copies nodes of another plan; only arrays_to_dag may merge plans", sel="merge:who")
    cfg = cfg_of(a2d)
    fl = flow_of(repo, a2d)
    merges = [c for c, ts in repo.calls_in(a2d) if any(t.kind == "ext" and t.qual in MERGE_EXT for t in ts)]
    checks = repo.calls_to(a2d, CHECK)
    va = a2d.vararg or (a2d.params[0] if a2d.params else None)
    ctx.ob(a2d, merges[0] if merges else a2d.node, len(merges) == 1, "arrays_to_dag merges with one compose call", sel="merge:one")
    for m in merges:
        mn = cfg.node_of(m)
        dom = [c for c in checks if cfg.dominates(cfg.node_of(c), mn) and cfg.node_of(c) != mn]
        ok = bool(dom)
        ctx.ob(a2d, m, ok, "check_array_specs dominates the graph merge" + ("" if ok else " — arrays with different specs can be combined into one plan"), sel="merge:checked")
        for c in dom:
            same = bool(c.args) and isinstance(c.args[0], ast.Name) and c.args[0].id == va and all(s.kind == "param" for s in fl.rdefs(va, cfg.node_of(c)))
            ctx.ob(a2d, c, same, "the spec check covers the whole argument sequence being merged", sel="merge:same-sequence")
        tm = fl.taint(m)
        ctx.ob(a2d, m, va in tm, "the merged graphs are those of the checked arrays", sel="merge:same-arrays")
    # Plan._new merges through arrays_to_dag with all its source arrays
    new = repo.get(A.PLAN_NEW)
    cs = repo.calls_to(new, A2D)
    ok = len(cs) == 1 and len(cs[0].args) == 1 and isinstance(cs[0].args[0], ast.Starred) and isinstance(cs[0].args[0].value, ast.Name) and cs[0].args[0].value.id == new.vararg
    ctx.ob(new, cs[0] if cs else new.node, ok, "Plan._new builds its graph with arrays_to_dag(*source_arrays) — all sources", sel="merge:plan-new")
    a2p = repo.get(f"{A.PLAN}.Plan.arrays_to_plan")
    cs = repo.calls_to(a2p, A2D)
    ok = len(cs) == 1 and len(cs[0].args) == 1 and isinstance(cs[0].args[0], ast.Starred)
    ctx.ob(a2p, cs[0] if cs else a2p.node, ok, "Plan.arrays_to_plan (compute / plan / visualize of several arrays) merges through arrays_to_dag", sel="merge:arrays-to-plan")
    # no other constructor of Plan objects from several arrays
    P = f"{A.PLAN}.Plan"
    for d, c, ts in repo.all_call_sites():
        if d is None:
            continue
        if any(t.kind == "class" and t.qual == P for t in ts):
            ok = d.qual.startswith(P + ".")
            ctx.ob(d, c, ok, "Plan objects are constructed only inside Plan's own methods", sel="merge:plan-ctor")


@rule("SPEC-CHECK-2", props=["C18", "C19", "C20"], floor=3)
def spec_check_2(ctx: Ctx) -> None:
    """check_array_specs raises ValueError unless every spec equals the first (whole-object
    equality) and returns a spec of the checked sequence; compute checks before planning"""
    repo = ctx.repo
    f = repo.get(CHECK)
    cfg = cfg_of(f)
    fl = flow_of(repo, f)
    raises = [n for n in cfg.stmts(ast.Raise) if "ValueError" in unparse(n.stmt.exc)]
    ok = False
    why = "no `raise ValueError` guarded by a for-all equality test"
    for r in raises:
        for t, pol in facts_at(cfg, r.id):
            # not all(s == X[0] for s in X)
            # not all(s == X[0] for s in X)   /   any(s != X[0] for s in X)   (X or X[1:])
            quant = t.func.id if isinstance(t, ast.Call) and isinstance(t.func, ast.Name) and t.func.id in ("all", "any") and t.args and isinstance(t.args[0], (ast.GeneratorExp, ast.ListComp)) else None
            if quant is not None and pol == (quant == "any"):
                ge = t.args[0]
                el = ge.elt
                g = ge.generators[0]
                want = ast.Eq if quant == "all" else ast.NotEq
                if isinstance(el, ast.Compare) and len(el.ops) == 1 and isinstance(el.ops[0], (ast.Eq, ast.NotEq)) and not g.ifs:
                    l, r_ = el.left, el.comparators[0]
                    var = g.target.id if isinstance(g.target, ast.Name) else None
                    whole = (isinstance(l, ast.Name) and l.id == var) or (isinstance(r_, ast.Name) and r_.id == var)
                    other = r_ if isinstance(l, ast.Name) and l.id == var else l
                    seq = g.iter
                    # (the first element need not be compared with itself)
                    if isinstance(seq, ast.Subscript) and isinstance(seq.slice, ast.Slice) and isinstance(seq.slice.lower, ast.Constant) and seq.slice.lower.value == 1 and seq.slice.upper is None and seq.slice.step is None:
                        seq = seq.value
                    first = isinstance(other, ast.Subscript) and isinstance(other.slice, ast.Constant) and other.slice.value == 0 and ast.dump(other.value) == ast.dump(seq)
                    if whole and first and isinstance(el.ops[0], want):
                        # the sequence holds the `.spec` of every element of the parameter
                        src_ok = False
                        if isinstance(seq, ast.Name):
                            for s in fl.rdefs(seq.id, r.id):
                                v = s.value
                                if isinstance(v, (ast.ListComp, ast.GeneratorExp)) and isinstance(v.elt, ast.Attribute) and v.elt.attr == "spec" and mentions_name(v.generators[0].iter, f.params[0]):
                                    conds = v.generators[0].ifs
                                    src_ok = all("hasattr" in unparse(c) for c in conds)
                        ok = src_ok
                        why = "" if ok else "the compared sequence is not the specs of all arguments"
                    else:
                        why = f"the test `{unparse(el)}` does not compare whole specs with the first one"
    if not ok:
        # the same test as a loop: for s in X: if s != X[0]: raise  (== with the wrong
        # polarity, identity, or a sliced X are not accepted)
        def specs_of_all(seq, at):
            if not isinstance(seq, ast.Name):
                return False
            for s_ in fl.rdefs(seq.id, at):
                v = s_.value
                if isinstance(v, (ast.ListComp, ast.GeneratorExp)) and isinstance(v.elt, ast.Attribute) and v.elt.attr == "spec" and mentions_name(v.generators[0].iter, f.params[0]) and all("hasattr" in unparse(c) for c in v.generators[0].ifs):
                    return True
            return False

        for r in raises:
            lp = cfg.nodes[r.id].loops
            if not lp or not isinstance(cfg.nodes[lp[-1]].stmt, ast.For):
                continue
            L = cfg.nodes[lp[-1]].stmt
            if not (isinstance(L.target, ast.Name) and specs_of_all(L.iter, lp[-1])):
                continue
            for t, pol, b in cfg.branch_conditions(r.id):
                if not cfg.in_loop(b, lp[-1]):
                    continue
                for fact, fp in conjuncts(t, pol):
                    if isinstance(fact, ast.Compare) and len(fact.ops) == 1 and isinstance(fact.ops[0], (ast.Eq, ast.NotEq)):
                        differs = isinstance(fact.ops[0], ast.NotEq) == fp
                        l, r_ = fact.left, fact.comparators[0]
                        var = L.target.id
                        whole = (isinstance(l, ast.Name) and l.id == var) or (isinstance(r_, ast.Name) and r_.id == var)
                        other = r_ if isinstance(l, ast.Name) and l.id == var else l
                        first = isinstance(other, ast.Subscript) and isinstance(other.slice, ast.Constant) and other.slice.value == 0 and ast.dump(other.value) == ast.dump(L.iter)
                        if differs and whole and first:
                            ok, why = True, ""
    ctx.ob(f, raises[0].stmt if raises else f.node, ok, "check_array_specs raises ValueError unless all specs == the first (equality by value: an equal spec built elsewhere — explicitly, or by unpickling — must combine)" + ("" if ok else f" — {why}"), sel="check:forall", props=["C18", "C19", "C20"])
    # the decision does not consult state remembered under object identities: `id(x)` kept in
    # a module-level container outlives x, and an unrelated object later allocated at the same
    # address inherits the remembered answer
    scope_ = [f] + [t.ref for c_ in f.own_nodes() if isinstance(c_, ast.Call) for t in repo.resolve_call(c_, f, f.module) if t.kind == "def" and t.ref.is_func and t.ref.module.qual.startswith("cubed.") and t.ref is not f]
    for h in dict.fromkeys(scope_):
        hfl, hcfg = flow_of(repo, h), cfg_of(h)
        globs = {tg.id for st_ in h.module.tree.body if isinstance(st_, (ast.Assign, ast.AnnAssign)) for tg in (st_.targets if isinstance(st_, ast.Assign) else [st_.target]) if isinstance(tg, ast.Name)}
        for n_ in h.own_nodes():
            # `key in G` / G.add(key) / G[key] with key built from id(...)
            keyed = None
            if isinstance(n_, ast.Compare) and len(n_.ops) == 1 and isinstance(n_.ops[0], (ast.In, ast.NotIn)) and isinstance(n_.comparators[0], ast.Name) and n_.comparators[0].id in globs and not hfl.is_local(n_.comparators[0].id):
                keyed = n_.left
            if keyed is not None and hcfg.has(n_):
                exprs = [keyed]
                if isinstance(keyed, ast.Name):
                    exprs = [s_.value for s_ in hfl.rdefs(keyed.id, hcfg.node_of(n_)) if s_.value is not None]
                if any(isinstance(x, ast.Call) and isinstance(x.func, ast.Name) and x.func.id == "id" for e_ in exprs for x in ast.walk(e_)):
                    ctx.ob(h, n_, False, f"`{unparse(n_, 50)}`: the spec check consults a module-level container keyed by id(...) — identities are reused after garbage collection, so a different spec can inherit a remembered 'equal'", sel="check:no-identity-cache", props=["C18", "C19", "C20"], firm=True)
    rets = cfg.returns()
    okr = bool(rets) and all(r.stmt.value is not None and isinstance(r.stmt.value, ast.Attribute) and r.stmt.value.attr == "spec" and mentions_name(r.stmt.value, f.params[0]) for r in rets)
    ctx.ob(f, rets[0].stmt if rets else f.node, okr, "check_array_specs returns the spec of a checked array", sel="check:returns", props=["C18"])
    comp = repo.get(A.COMPUTE)
    ccfg = cfg_of(comp)
    chk = repo.calls_to(comp, CHECK)
    pl = repo.calls_to(comp, f"{A.ARRAY}.plan")
    ex = repo.calls_to(comp, A.FP_EXECUTE)
    ok = bool(chk) and bool(pl) and all(ccfg.dominates(ccfg.node_of(chk[0]), ccfg.node_of(x)) for x in pl + ex)
    ctx.ob(comp, chk[0] if chk else comp.node, ok, "compute() checks specs of all its arrays before planning and executing", sel="check:compute", props=["C18"])


def _is_getattr(c: ast.AST, obj: str | None, var: str) -> bool:
    return (
        isinstance(c, ast.Call)
        and isinstance(c.func, ast.Name)
        and c.func.id == "getattr"
        and len(c.args) == 2
        and isinstance(c.args[0], ast.Name)
        and (obj is None or c.args[0].id == obj)
        and isinstance(c.args[1], ast.Name)
        and c.args[1].id == var
    )


def _name_table(repo: Repo, fn: Def, e: ast.AST) -> list[str] | None:
    """a tuple/list of string constants, inline or as a module-level constant"""
    if isinstance(e, ast.Name):
        for n in fn.module.tree.body:
            if isinstance(n, (ast.Assign, ast.AnnAssign)) and n.value is not None:
                tg = n.targets[0] if isinstance(n, ast.Assign) else n.target
                if isinstance(tg, ast.Name) and tg.id == e.id:
                    return _name_table(repo, fn, n.value)
        return None
    if isinstance(e, (ast.Tuple, ast.List)) and e.elts and all(isinstance(x, ast.Constant) and isinstance(x.value, str) for x in e.elts):
        return [x.value for x in e.elts]
    return None


def _attrs_read(repo: Repo, cls: Def, fn: Def, seen=None) -> set[str]:
    """Attributes of self (and of the other operand) read in fn, closed under properties."""
    seen = seen or set()
    out: set[str] = set()
    for n in fn.own_nodes():
        if isinstance(n, ast.Attribute) and isinstance(n.value, ast.Name) and n.value.id in ("self",):
            out.add(n.attr)
    # getattr(self, f) for f in <table of names>
    for n in fn.own_nodes():
        if isinstance(n, (ast.GeneratorExp, ast.ListComp)) and len(n.generators) == 1 and isinstance(n.generators[0].target, ast.Name):
            names = _name_table(repo, fn, n.generators[0].iter)
            v = n.generators[0].target.id
            if names is not None and any(_is_getattr(c, "self", v) for c in ast.walk(n.elt)):
                out |= set(names)
    more = set()
    for a in out:
        if a in seen:
            continue
        seen.add(a)
        p = repo.class_attr(cls, a)
        if p is not None and p.kind == "func" and any(x in ("property", "cached_property") for x in p.decorators()):
            more |= _attrs_read(repo, cls, p, seen)
    return out | more


@rule("SPEC-EQ-1", props=["C18", "C19", "C20"], floor=8, default=["C18"])
def spec_eq(ctx: Ctx) -> None:
    """every constructor parameter of Spec is stored in a field that __eq__ reads (directly or
    through a property chain); executors compare by name and options"""
    repo = ctx.repo
    cls = repo.get(f"{A.SPEC}.Spec")
    init = repo.get(f"{A.SPEC}.Spec.__init__")
    eq = repo.get(f"{A.SPEC}.Spec.__eq__")
    fl = flow_of(repo, init)
    read = _attrs_read(repo, cls, eq)
    # comparisons in __eq__ must be symmetric attribute comparisons joined by `and`
    for p in init.params[1:]:
        fields = set()
        for n in init.own_nodes():
            if isinstance(n, ast.Assign) and is_self_attr(n.targets[0]) and p in fl.taint(n.value):
                fields.add(n.targets[0].attr)
        ok = bool(fields & read)
        ctx.ob(
            eq,
            None,
            ok,
            f"Spec parameter `{p}` (stored in {sorted(fields)}) takes part in __eq__"
            + ("" if ok else " — two specs differing only in it compare equal, so arrays built under them are combined silently"),
            sel=f"eq:{p}",
        )
    # each compared attribute is compared self.X == other.X under a conjunction
    rets = [n for n in eq.own_nodes() if isinstance(n, ast.Return) and n.value is not None and not isinstance(n.value, ast.Constant)]
    ok = bool(rets)
    for r in rets:
        conj = conjuncts(r.value, True)
        for t, pol in conj:
            if isinstance(t, ast.Call) and isinstance(t.func, ast.Name) and t.func.id == "all" and len(t.args) == 1 and isinstance(t.args[0], (ast.GeneratorExp, ast.ListComp)) and len(t.args[0].generators) == 1 and not t.args[0].generators[0].ifs and isinstance(t.args[0].generators[0].target, ast.Name):
                # all(getattr(self, f) == getattr(other, f) for f in <names>)
                el, v = t.args[0].elt, t.args[0].generators[0].target.id
                if isinstance(el, ast.Compare) and len(el.ops) == 1 and isinstance(el.ops[0], ast.Eq) and _is_getattr(el.left, None, v) and _is_getattr(el.comparators[0], None, v) and {el.left.args[0].id, el.comparators[0].args[0].id} == set(eq.params[:2]) and _name_table(repo, eq, t.args[0].generators[0].iter) is not None:
                    continue
            if not (isinstance(t, ast.Compare) and isinstance(t.ops[0], ast.Eq) and isinstance(t.left, ast.Attribute) and isinstance(t.comparators[0], ast.Attribute) and t.left.attr == t.comparators[0].attr):
                ok = False
    whole = [c for r in rets for c in ast.walk(r) if (isinstance(c, ast.Call) and isinstance(c.func, ast.Name) and c.func.id == "vars") or (isinstance(c, ast.Attribute) and c.attr == "__dict__")]
    ctx.ob(
        eq,
        rets[0] if rets else eq.node,
        ok and not whole,
        "Spec.__eq__ is a conjunction of field-by-field equalities"
        + (" — it compares whole instance dictionaries: state cached lazily on one side (cached_property) makes two specs with equal settings unequal, e.g. a deserialized copy and its original" if whole else ""),
        sel="eq:shape",
        props=["C18", "C19", "C20"],
    )
    deq = repo.get(f"{A.DAG_EXECUTOR}.__eq__")
    rd = {n.attr for n in ast.walk(deq.node) if isinstance(n, ast.Attribute) and isinstance(n.value, ast.Name) and n.value.id == "self"}
    ctx.ob(deq, None, {"name", "kwargs"} <= rd, "DagExecutor.__eq__ compares name and options", sel="eq:executor")


@rule("SPEC-BUDGET-1", props=["C18"], floor=4)
def spec_budget(ctx: Ctx) -> None:
    """the memory budget handed to every primitive operation is the checked spec's own
    allowed_mem / reserved_mem; the create-arrays op takes the maximum over the plan's ops"""
    repo = ctx.repo
    for q, prim in ((f"{A.OPS}.blockwise", "blockwise"), (f"{A.OPS}._general_blockwise", "general_blockwise")):
        f = repo.get(q)
        fl, cfg = flow_of(repo, f), cfg_of(f)
        for p in repo.calls_to(f, f"{A.PBW}.{prim}"):
            for k in ("allowed_mem", "reserved_mem"):
                v = kwarg(p, k)
                ok = False
                why = "missing"
                if v is not None:
                    rs = fl.roots(v, cfg.node_of(p))
                    ok = bool(rs) and all(r == f"call:{CHECK}.{k}" for r in rs)
                    why = f"origin {sorted(rs)[:2]}"
                ctx.ob(f, p, ok, f"{k}= passed to the primitive is exactly check_array_specs(arrays).{k}" + ("" if ok else f" — {why}"), sel=f"budget:{k}")
    cl = repo.get(A.CREATE_LAZY)
    fl, cfg = flow_of(repo, cl), cfg_of(cl)
    cz = repo.calls_to(cl, f"{A.PLAN}.create_zarr_arrays")
    ctx.need(cz, "create_zarr_arrays call not found")
    for k, pos in (("allowed_mem", 1), ("reserved_mem", 2)):
        arg = cz[0].args[pos] if len(cz[0].args) > pos else kwarg(cz[0], k)
        ok = False
        if isinstance(arg, ast.Name):
            sites = fl.rdefs(arg.id, cfg.node_of(cz[0]))
            # max-accumulation over every primitive op's own setting
            ok = any(s.kind == "assign" and isinstance(s.value, ast.Call) and isinstance(s.value.func, ast.Name) and s.value.func.id == "max" and mentions_attr(s.value, k) and mentions_name(s.value, arg.id) for s in sites)
            # or one max(...) over all operations' values: max(op.<k> for op in …) / max([0] + [...])
            if not ok:
                for s in sites:
                    v_ = s.value
                    if s.kind == "assign" and isinstance(v_, ast.Call) and isinstance(v_.func, ast.Name) and v_.func.id == "max" and mentions_attr(v_, k):
                        comps_ = [g for g in ast.walk(v_) if isinstance(g, (ast.GeneratorExp, ast.ListComp))]
                        if comps_ and all(not gen.ifs for g in comps_ for gen in g.generators) and not any(isinstance(x, ast.Subscript) and isinstance(x.slice, ast.Slice) for x in ast.walk(v_)):
                            ok = True
        ctx.ob(cl, cz[0], ok, f"the create-arrays op gets the maximum {k} over the plan's operations", sel=f"budget:create:{k}")


@rule("BYTES-1", props=["C18"], floor=5)
def bytes_rule(ctx: Ctx) -> None:
    """memory literals: decimal SI units kB..PB as consecutive powers of 1000; anything that is
    not an accepted string form, a non-integral float or a negative number raises ValueError;
    Spec routes both memory settings through the converter"""
    repo = ctx.repo
    f = repo.get(f"{A.UTILS}.convert_to_bytes")
    cfg = cfg_of(f)
    # the converter and its private pieces (module-level helpers it calls, two levels)
    scope: list[Def] = [f]
    for _ in range(2):
        for g_ in list(scope):
            for c, ts in repo.calls_in(g_):
                for t in ts:
                    if t.kind == "def" and t.ref.is_func and t.ref.module is f.module and t.ref.name.startswith("_") and t.ref not in scope and t.ref.parent is None or (t.kind == "def" and t.ref.is_func and t.ref.module is f.module and t.ref not in scope and t.ref.parent is not None and t.ref.parent.is_func and t.ref.parent in scope):
                        scope.append(t.ref)
    for g_ in list(scope):
        for ch in g_.children.values():
            if ch.is_func and ch not in scope:
                scope.append(ch)

    def is_unit_dict(v: ast.AST | None) -> bool:
        return isinstance(v, ast.Dict) and bool(v.keys) and all(isinstance(k, ast.Constant) and isinstance(k.value, str) and k.value.endswith("B") for k in v.keys)

    units = None
    for g_ in scope:
        for n in g_.own_nodes():
            if isinstance(n, (ast.Assign, ast.AnnAssign)) and is_unit_dict(n.value):
                units = n.value
    if units is None:
        # a module-level constant table the scope refers to
        used = {x.id for g_ in scope for x in g_.own_nodes() if isinstance(x, ast.Name)}
        for n in f.module.tree.body:
            if isinstance(n, (ast.Assign, ast.AnnAssign)) and is_unit_dict(n.value):
                tg = n.targets[0] if isinstance(n, ast.Assign) else n.target
                if isinstance(tg, ast.Name) and tg.id in used:
                    units = n.value
    ok = False
    if ctx.present(f, units is not None, "unit table of convert_to_bytes"):
        tbl = {k.value: (v.value if isinstance(v, ast.Constant) else None) for k, v in zip(units.keys, units.values)}
        ok = tbl == {"kB": 1, "MB": 2, "GB": 3, "TB": 4, "PB": 5}
    ctx.ob(f, units or f.node, ok, "unit table maps kB, MB, GB, TB, PB to exponents 1..5", sel="bytes:table")
    pows = [(g_, n) for g_ in scope for n in g_.own_nodes() if isinstance(n, ast.BinOp) and isinstance(n.op, ast.Pow)]
    if not ctx.present(f, pows, "power expression (unit factor) of convert_to_bytes"):
        ctx.ob(f, f.node, False, "the unit factor is 1000 ** exponent (decimal SI) — no power expression left", sel="bytes:base")
        return
    G, pw = pows[0]
    ok = len(pows) == 1 and isinstance(pw.left, ast.Constant) and pw.left.value == 1000 and isinstance(pw.right, (ast.Subscript, ast.Name, ast.Call))
    ctx.ob(G, pw, ok, "the unit factor is 1000 ** exponent (decimal SI)" + ("" if ok else f" — found `{unparse(pw)}`"), sel="bytes:base")
    # plain-number and bare-B forms have factor 1: the factor is the variable assigned
    # `1000 ** …` (its other, constant, assignments) or the tuple position that returns it
    ones: list[ast.AST] = []
    for n in G.own_nodes():
        if isinstance(n, ast.Assign) and isinstance(n.targets[0], ast.Name) and any(x is pw for x in ast.walk(n.value)):
            fvar = n.targets[0].id
            ones += [m.value for m in G.own_nodes() if isinstance(m, ast.Assign) and isinstance(m.targets[0], ast.Name) and m.targets[0].id == fvar and isinstance(m.value, ast.Constant)]
        if isinstance(n, ast.Return) and isinstance(n.value, ast.Tuple):
            for i, el in enumerate(n.value.elts):
                if any(x is pw for x in ast.walk(el)):
                    ones += [m.value.elts[i] for m in G.own_nodes() if isinstance(m, ast.Return) and m is not n and isinstance(m.value, ast.Tuple) and len(m.value.elts) == len(n.value.elts) and isinstance(m.value.elts[i], ast.Constant)]
    ok = ctx.present(f, ones, "the factor of the unit-less forms of convert_to_bytes") and all(n.value == 1 for n in ones)
    ctx.ob(G, ones[0] if ones else G.node, ok, "numeric strings and the bare `B` suffix are taken as bytes (factor 1)", sel="bytes:unit-one")
    # the value whose integrality is tested is the exact product: nothing rounds it first
    fl_, cfg_ = flow_of(repo, f), cfg_of(f)
    tests = [c for c in f.own_nodes() if isinstance(c, ast.Call) and isinstance(c.func, ast.Attribute) and c.func.attr == "is_integer" and isinstance(c.func.value, ast.Name) and cfg_.has(c)]
    for t_ in tests:
        rounders = []
        for d_ in fl_.rdefs(t_.func.value.id, cfg_.node_of(t_)):
            if d_.value is None:
                continue
            for c in ast.walk(d_.value):
                if isinstance(c, ast.Call) and ((isinstance(c.func, ast.Name) and c.func.id in ("round", "int")) or (attr_chain(c.func) or "").split(".")[-1] in ("floor", "ceil", "trunc", "rint", "round", "around")):
                    rounders.append(c)
                if isinstance(c, ast.BinOp) and isinstance(c.op, ast.FloorDiv):
                    rounders.append(c)
        ctx.ob(
            f,
            t_,
            not rounders,
            "the integrality test sees the exact value (no rounding before it)"
            + ("" if not rounders else f" — `{unparse(rounders[0], 40)}` rounds the value that reaches `.is_integer()`: a fractional number of bytes is silently changed instead of refused"),
            sel="bytes:exact-before-test",
        )
    # every path to a normal return passes `size >= 0`, non-integral floats raise, unknown strings raise
    rets = [r for r in cfg.returns() if r.stmt.value is not None]
    ctx.need(rets, "convert_to_bytes has no value return")
    for r in rets:
        facts = facts_at(cfg, r.id)
        nonneg = False
        for t, pol in facts:
            if isinstance(t, ast.Compare):
                nm = compare_norm(t)
                if nm and pol and nm[0] == ">=" and isinstance(nm[2], ast.Constant) and nm[2].value == 0:
                    nonneg = True
                if nm and not pol and nm[0] == ">" and isinstance(nm[1], ast.Constant) and nm[1].value == 0:
                    nonneg = True
        ctx.ob(f, r.stmt, nonneg, "a value is returned only when it is >= 0", sel="bytes:nonneg")
    raises = cfg.stmts(ast.Raise)
    # the string-format chain ends in a raise: in the function that computes the factor, the
    # last test that asks "is this part numeric" has only raising exits on its failing side
    testers = {g_.name for g_ in scope if any(isinstance(x, ast.Try) for x in g_.own_nodes()) and any(isinstance(x, ast.Call) and isinstance(x.func, ast.Name) and x.func.id == "float" for x in g_.own_nodes())}
    cfgG = cfg_of(G)

    def asks_numeric(t: ast.AST) -> bool:
        return any(isinstance(x, ast.Call) and isinstance(x.func, ast.Name) and x.func.id in testers for x in ast.walk(t))

    chain = [n for n in cfgG.stmts(ast.If) if asks_numeric(n.stmt.test)]
    if G is f:
        # the string forms are tried only for strings: the tests sit on the true side of
        # `isinstance(size, str)`
        str_if = [n for n in cfg.stmts(ast.If) if isinstance(n.stmt.test, ast.Call) and unparse(n.stmt.test).startswith("isinstance(size, str)")]
        chain = [n for n in chain if str_if and any(cfg.can_reach(t_, n.id, avoid={str_if[0].id}) or t_ == n.id for t_ in cfg.edge_targets(str_if[0].id, "true"))]
    ok = False
    last = chain[-1] if chain else None
    if ctx.present(f, chain, "string-format tests of convert_to_bytes"):
        neg = isinstance(last.stmt.test, ast.UnaryOp) and isinstance(last.stmt.test.op, ast.Not)
        fe = cfgG.edge_targets(last.id, "true" if neg else "false")
        ok = bool(fe) and all(cfgG.exits_only_to(x, {last.id}, is_raise) for x in fe) and any(isinstance(cfgG.nodes[y].stmt, ast.Raise) for x in fe for y in cfgG._reachable(x, {last.id}))
    ctx.ob(G, last.stmt if last is not None else G.node, ok, "a string that matches none of the accepted forms raises ValueError", sel="bytes:bad-string")
    fl_if = [n for n in cfg.stmts(ast.If) if "is_integer" in unparse(n.stmt.test)]
    if not fl_if:
        # absence is a verdict only when the test cannot live in a private piece
        elsewhere = [g_ for g_ in scope if g_ is not f and any(isinstance(x, ast.Attribute) and x.attr == "is_integer" for x in g_.own_nodes())]
        ctx.need(not elsewhere, f"integrality test of convert_to_bytes lives in {', '.join(g_.name for g_ in elsewhere)} (not followed)")
    ok = False
    for n in fl_if:
        neg = isinstance(n.stmt.test, ast.UnaryOp) and isinstance(n.stmt.test.op, ast.Not)
        fe = cfg.edge_targets(n.id, "true" if neg else "false")
        ok = bool(fe) and all(cfg.exits_only_to(x, {n.id}, is_raise) for x in fe)
    ctx.ob(f, fl_if[0].stmt if fl_if else f.node, ok, "a non-integral number of bytes raises ValueError" + ("" if fl_if else " — no `.is_integer()` test guards the conversion"), sel="bytes:non-integral")
    init = repo.get(f"{A.SPEC}.Spec.__init__")
    for p, attr in (("allowed_mem", "_allowed_mem"), ("reserved_mem", "_reserved_mem")):
        ok = False
        for n in init.own_nodes():
            if isinstance(n, ast.Assign) and is_self_attr(n.targets[0]) and n.targets[0].attr == attr and mentions_name(n.value, p):
                arms = [n.value]
                while any(isinstance(a_, ast.IfExp) for a_ in arms):
                    arms = [b_ for a_ in arms for b_ in ([a_.body, a_.orelse] if isinstance(a_, ast.IfExp) else [a_])]
                arms = [a_ for a_ in arms if mentions_name(a_, p)]
                ok = bool(arms) and all(isinstance(a_, ast.Call) and f"{A.UTILS}.convert_to_bytes" in repo.callee_quals(a_, init) for a_ in arms)
        ctx.ob(init, None, ok, f"Spec stores {p} through convert_to_bytes", sel=f"bytes:spec:{p}")


# ================================================================================= C19

ARRAY_ATTRS = {"shape", "chunks", "dtype", "ndim", "numblocks", "chunksize", "spec", "chunkmem", "npartitions", "_zarray", "size", "nbytes", "device"}


def creation_callees(repo: Repo) -> dict[str, Def]:
    """Repo functions that take a `spec` parameter and build a new array from non-array data."""
    out = {}
    for mq in (A.CREATION, A.OPS, A.RANDOM):
        m = repo.module(mq)
        for name, d in m.defs.items():
            if d.is_func and "spec" in d.params:
                out[d.qual] = d
    return out


def _array_params(repo: Repo, f: Def) -> set[str]:
    ps = set()
    for n in f.own_nodes():
        if isinstance(n, ast.Attribute) and n.attr in ARRAY_ATTRS and isinstance(n.value, ast.Name) and n.value.id in f.params:
            ps.add(n.value.id)
    cls = f.enclosing_class
    is_array_method = cls is not None and f.params[:1] == ["self"] and any(c.qual == f"{A.ARRAY}.CoreArray" for c in repo.mro(cls))
    return ps - {"self"} | ({"self"} if is_array_method else set())


def _inherits_spec(repo: Repo, eff, g: Def) -> bool:
    """g's first positional parameter is an array operand: used as one in g, or handed on to a
    callee that uses it as one (one level: the *_like family → _like_args)."""
    if not g.positional_params:
        return False
    p = g.positional_params[0]
    if p in _array_params(repo, g):
        return True
    for c, ts in repo.calls_in(g):
        for sub in ast.walk(c):
            if isinstance(sub, ast.Call):
                for t in repo.resolve_call(sub, g, g.module):
                    if t.kind == "def" and t.ref.is_func and t.ref is not g:
                        b = eff.bind(sub, t.ref, g)
                        for q, v in b.items():
                            if v == ("param", p) and q in _array_params(repo, t.ref):
                                return True
    return False


@rule("SPEC-THREAD-1", props=["C19"], floor=20)
def spec_thread(ctx: Ctx) -> None:
    """helper arrays created inside an operation receive the operands' spec: every library
    call of a creation function from a function that has array operands (or its own `spec`
    parameter) passes spec= originating from an operand's .spec, its own spec parameter or
    check_array_specs(...)"""
    repo = ctx.repo
    eff = effects_of(repo)
    cc = creation_callees(repo)
    ctx.need(len(cc) >= 12, f"only {len(cc)} creation callees discovered")
    n = 0
    for f in repo.functions():
        mq = f.module.qual
        if mq.startswith(("cubed.vendor.", "cubed.diagnostics.", "cubed.runtime.", "cubed.storage.")) or mq in ("cubed._testing",):
            continue
        sites = []
        for c, ts in repo.calls_in(f):
            for t in ts:
                if t.kind == "def" and t.qual in cc:
                    sites.append((c, t.ref))
                    break
        if not sites:
            continue
        # the function (or, for a nested function, an enclosing one) has array operands / a spec
        ctxs = [d for d in f.scope_chain() if d.is_func]
        aparams = set()
        has_spec_param = False
        for d in ctxs:
            aparams |= _array_params(repo, d)
            has_spec_param = has_spec_param or "spec" in d.params
        if not aparams and not has_spec_param:
            continue
        fl, cfg = flow_of(repo, f), cfg_of(f)
        for c, g in sites:
            # a callee that is handed array operands takes the spec from them: functions with a
            # *args of arrays (map_blocks) called with at least one array, and functions whose
            # first parameter is used as an array (x.spec / x.shape ...: the *_like family,
            # tril/triu, from_array of an array-like) called with that argument
            if g.vararg and len(c.args) > len(g.positional_params):
                continue
            if c.args and _inherits_spec(repo, eff, g):
                continue
            b = eff.bind(c, g, f)
            v = b.get("spec")
            if has_star_kwargs(c) and (v is None or v[0] != "expr" and v[0] != "param"):
                # spec may travel inside **mapping: accept only the repo's own _like_args
                src = [k.value for k in c.keywords if k.arg is None]
                ok = all(isinstance(s, ast.Call) and f"{A.CREATION}._like_args" in repo.callee_quals(s, f) for s in src) or all(isinstance(s, ast.Name) and s.id == "kwargs" for s in src)
                n += 1
                ctx.ob(f, c, ok, f"`{unparse(c, 50)}` forwards spec inside a keyword mapping built by _like_args / the caller's kwargs", sel=f"thread:{g.name}:{unparse(c.args[0], 20) if c.args else ''}")
                continue
            n += 1
            ok = False
            why = "no spec= argument: the helper array gets the default spec, and combining it with the operands raises `Arrays must have same spec` (or silently uses another budget)"
            if v is not None and v[0] == "param":
                ok = v[1] in ("spec",) or v[1].startswith("spec")
                why = f"spec comes from parameter `{v[1]}`"
            elif v is not None and v[0] == "expr":
                rs = fl.roots(v[1], cfg.node_of(c))
                # spec0 = next((a.spec for a in args if hasattr(a, "spec")), spec): first operand's spec
                if rs == {"call:next"} and isinstance(v[1], ast.Name):
                    for s_ in fl.rdefs(v[1].id, cfg.node_of(c)):
                        nv = s_.value
                        if isinstance(nv, ast.Call) and isinstance(nv.func, ast.Name) and nv.func.id == "next" and nv.args and isinstance(nv.args[0], (ast.GeneratorExp, ast.ListComp)) and isinstance(nv.args[0].elt, ast.Attribute) and nv.args[0].elt.attr == "spec":
                            rs = {"elem.spec"}
                good = lambda r: ".spec" in r or f"call:{CHECK}" in r or r in ("param:spec", "param:spec0") or (r.startswith("free:") and r.rsplit(":", 1)[-1].startswith("spec")) or r.endswith(":spec")
                neutral = lambda r: r == "const:None" or r.startswith(("item(new:", "new:"))
                ok = bool(rs) and all(good(r) or neutral(r) for r in rs) and any(good(r) for r in rs)
                why = f"spec origin {sorted(rs)[:3]}"
            elif v is not None and v[0] == "const":
                why = f"spec={v[1]!r}"
            # coercion of an operand that is already an array: asarray(x) with x an array param
            if not ok and g.name == "asarray" and c.args and isinstance(c.args[0], ast.Name) and v is None:
                pass
            sel = f"thread:{g.name}:{unparse(c.args[0], 24) if c.args else ''}"
            ctx.ob(f, c, ok, f"`{unparse(c, 60)}` inside {f.name} must pass the operands' spec" + ("" if ok else f" — {why}"), sel=sel)
    ctx.need(n >= 20, f"only {n} creation call sites with spec context found")
    # _like_args fills spec from the operand
    la = repo.get(f"{A.CREATION}._like_args")
    lcfg = cfg_of(la)
    ok = False
    ctx.need("spec" in la.params, "_like_args lost its spec parameter")
    for x in la.own_nodes():
        if isinstance(x, ast.Assign) and isinstance(x.targets[0], ast.Name) and x.targets[0].id == "spec" and isinstance(x.value, ast.Attribute) and x.value.attr == "spec" and isinstance(x.value.value, ast.Name) and x.value.value.id == la.params[0] and lcfg.has(x):
            # ... exactly when no spec was given
            for t, pol in facts_at(lcfg, lcfg.node_of(x)):
                if isinstance(t, ast.Compare) and isinstance(t.left, ast.Name) and t.left.id == "spec" and isinstance(t.comparators[0], ast.Constant) and t.comparators[0].value is None and (isinstance(t.ops[0], ast.Is) == pol):
                    ok = True
                if isinstance(t, ast.Name) and t.id == "spec" and not pol:
                    ok = True
        # spec = spec or x.spec
        if isinstance(x, ast.Assign) and isinstance(x.targets[0], ast.Name) and x.targets[0].id == "spec" and isinstance(x.value, ast.BoolOp) and isinstance(x.value.op, ast.Or) and isinstance(x.value.values[0], ast.Name) and x.value.values[0].id == "spec" and unparse(x.value.values[-1]) == f"{la.params[0]}.spec":
            ok = True
    # the same default written as a conditional expression, as a local or inline in the
    # returned keyword arguments: `x.spec if spec is None else spec` / `spec if spec is not None else x.spec`
    def _is_default_expr(e: ast.AST) -> bool:
        if not isinstance(e, ast.IfExp):
            return False
        t = e.test
        if not (isinstance(t, ast.Compare) and len(t.ops) == 1 and isinstance(t.left, ast.Name) and t.left.id == "spec" and isinstance(t.comparators[0], ast.Constant) and t.comparators[0].value is None and isinstance(t.ops[0], (ast.Is, ast.IsNot))):
            return False
        when_none, otherwise = (e.body, e.orelse) if isinstance(t.ops[0], ast.Is) else (e.orelse, e.body)
        return unparse(when_none) == f"{la.params[0]}.spec" and isinstance(otherwise, ast.Name) and otherwise.id == "spec"

    for x in la.own_nodes():
        if isinstance(x, ast.keyword) and x.arg == "spec" and _is_default_expr(x.value):
            ok = True
        if isinstance(x, ast.Assign) and isinstance(x.targets[0], ast.Name) and x.targets[0].id == "spec" and _is_default_expr(x.value):
            ok = True
        if isinstance(x, ast.Dict):
            for k_, v_ in zip(x.keys, x.values):
                if isinstance(k_, ast.Constant) and k_.value == "spec" and _is_default_expr(v_):
                    ok = True
    ctx.ob(la, None, ok, "_like_args defaults spec to the operand's spec, exactly when none was given", sel="thread:like-args")


@rule("SPEC-RESOLVE-1", props=["C19"], floor=2)
def spec_resolve(ctx: Ctx) -> None:
    """a missing spec is resolved in exactly one way: spec_from_config(config)"""
    repo = ctx.repo
    sfc = f"{A.SPEC}.spec_from_config"
    n = 0
    for f in repo.functions():
        if f.module.qual.startswith(("cubed.vendor.", "cubed.diagnostics.")):
            continue
        for x in f.own_nodes():
            alt = None
            if isinstance(x, ast.BoolOp) and isinstance(x.op, ast.Or) and isinstance(x.values[0], ast.Name) and x.values[0].id == "spec" and len(x.values) == 2:
                alt = x.values[1]
            elif isinstance(x, ast.IfExp) and "spec" in unparse(x.test) and "None" in unparse(x.test) and (unparse(x.body) == "spec" or unparse(x.orelse) == "spec"):
                alt = x.orelse if unparse(x.body) == "spec" else x.body
            if alt is None:
                continue
            n += 1
            ok = isinstance(alt, ast.Call) and sfc in repo.callee_quals(alt, f) and alt.args and unparse(alt.args[0]) == "config"
            # inheriting the spec of an array operand is not a resolution point of its own
            if not ok and isinstance(alt, ast.Attribute) and alt.attr == "spec" and isinstance(alt.value, ast.Name) and alt.value.id in f.params:
                ok = True
            ctx.ob(f, x, ok, "a missing spec resolves to spec_from_config(config)" + ("" if ok else f" — here it resolves to `{unparse(alt, 40)}` (a second resolution point: default and explicit-but-equal arrays stop combining)"), sel="resolve:default")
    init = repo.get(f"{A.ARRAY}.CoreArray.__init__")
    st = [x for x in init.own_nodes() if isinstance(x, ast.Assign) and is_self_attr(x.targets[0], "spec")]
    ok = len(st) == 1 and isinstance(st[0].value, ast.BoolOp)
    ctx.ob(init, st[0] if st else init.node, ok, "CoreArray.__init__ stores `spec or <default>` once", sel="resolve:init")
    ctx.need(n >= 2, "spec resolution sites not found")


NEUTRAL_ATTRS = {"work_dir", "intermediate_store", "storage_options", "zarr_compressor", "executor", "executor_name", "executor_options"}
NEUTRAL_READERS = {
    f"{A.PLAN}.intermediate_store",
    f"{A.PMEM}.get_buffer_copies",
    f"{A.RT_BACKUP}.use_backups_default",
    A.COMPUTE,
}


@rule("SPEC-NEUTRAL-1", props=["C19"], floor=4, tier="thorough")
def spec_neutral(ctx: Ctx) -> None:
    """storage/executor settings of a spec flow only into storage construction arguments,
    intermediate_store(), get_buffer_copies() and executor selection — never into a branch of
    an operation builder"""
    repo = ctx.repo
    n = 0
    for f in repo.functions():
        mq = f.module.qual
        if mq.startswith(("cubed.vendor.", "cubed.diagnostics.", "cubed.runtime.executors.")) or mq == A.SPEC:
            continue
        for x in f.own_nodes():
            if not (isinstance(x, ast.Attribute) and x.attr in NEUTRAL_ATTRS and isinstance(x.ctx, ast.Load)):
                continue
            recv = unparse(x.value)
            if not (recv == "spec" or recv.endswith(".spec") or recv.endswith("spec")):
                continue
            n += 1
            if f.qual in NEUTRAL_READERS or _only_called_by_readers(repo, f):
                ctx.ob(f, x, True, f"{f.name} is a designated reader of spec.{x.attr} (or a private helper called only by one)", sel=f"neutral:{x.attr}", nontrivial=False)
                continue
            # must be directly a keyword-argument value of a call
            pm = _parent_of(f, x)
            ok = isinstance(pm, ast.keyword)
            ctx.ob(f, x, ok, f"`{recv}.{x.attr}` in {f.name} may only be forwarded as a keyword argument (storage construction)" + ("" if ok else " — it is used in an expression/branch: acceptance or the operation graph could depend on where data is stored"), sel=f"neutral:{x.attr}")
    ctx.need(n >= 4, "spec setting reads not found")


def _only_called_by_readers(repo: Repo, f: Def, depth: int = 2) -> bool:
    """f is a private function all of whose callers (in the package) are designated readers
    (or such helpers themselves): extracting a helper does not widen who reads the setting"""
    if not f.name.startswith("_") or depth <= 0:
        return False
    callers = set()
    for d, c, ts in repo.all_call_sites():
        if d is not None and any(t.kind == "def" and t.ref is f for t in ts):
            callers.add(d.qual)
    return bool(callers) and all(q in NEUTRAL_READERS or _only_called_by_readers(repo, repo.defs[q], depth - 1) for q in callers if q in repo.defs) and all(q in repo.defs for q in callers)


def _parent_of(f: Def, node: ast.AST):
    for p in ast.walk(f.node):
        for ch in ast.iter_child_nodes(p):
            if ch is node:
                return p
    return None


@rule("EXEC-EQ-1", props=["C18", "C19"], floor=6)
def exec_eq(ctx: Ctx) -> None:
    """Spec equality compares executors with DagExecutor.__eq__ = same name and same `kwargs`:
    every option an executor is constructed with therefore lives in `self.kwargs` (handed to
    super().__init__); an option kept in an attribute of its own is invisible to the
    comparison — two specs that differ only in it compare equal and their arrays are mixed"""
    repo = ctx.repo
    base = repo.get(f"{A.RT_TYPES}.DagExecutor")
    eq = base.children.get("__eq__")
    ctx.need(eq is not None, "DagExecutor.__eq__ not found")
    compared = {n.attr for n in eq.own_nodes() if isinstance(n, ast.Attribute) and isinstance(n.value, ast.Name) and n.value.id == (eq.params[0] if eq.params else "self")}
    ok = {"name", "kwargs"} <= compared
    ctx.ob(eq, None, ok, f"DagExecutor.__eq__ compares name and kwargs (compares {sorted(compared)})", sel="exec-eq:base")
    n = 0
    for cls in repo.subclasses(base):
        if cls.module.qual.startswith("cubed.tests"):
            continue
        n += 1
        own_eq = cls.children.get("__eq__")
        init = cls.children.get("__init__")
        if init is None or not init.is_func:
            ctx.ob(cls, None, True, f"{cls.name} inherits the constructor: options go to kwargs", sel="exec-eq:options-in-kwargs")
            continue
        me = init.params[0] if init.params else "self"
        named = [p for p in init.params[1:] if p != init.kwarg and p != init.vararg]
        fl = flow_of(repo, init)
        kept = []
        for s_ in init.own_nodes():
            if isinstance(s_, ast.Assign) and isinstance(s_.targets[0], ast.Attribute) and isinstance(s_.targets[0].value, ast.Name) and s_.targets[0].value.id == me and s_.targets[0].attr != "kwargs":
                t = fl.taint(s_.value, None) if False else {x.id for x in ast.walk(s_.value) if isinstance(x, ast.Name)}
                if t & set(named):
                    kept.append((s_, s_.targets[0].attr))
        covered = own_eq is not None and all(any(isinstance(a, ast.Attribute) and a.attr == attr for a in own_eq.own_nodes()) for _, attr in kept)
        ok = not kept or covered
        ctx.ob(
            cls,
            kept[0][0] if kept else None,
            ok,
            f"{cls.name}: every constructor option is part of what executors are compared by"
            + ("" if ok else f" — `self.{kept[0][1]}` holds a constructor option outside `kwargs` and {cls.name} does not compare it: specs that differ only in it are equal, so arrays built under them are combined without complaint"),
            sel="exec-eq:options-in-kwargs",
            firm=True,
        )
    ctx.need(n >= 6, f"only {n} executor classes found")
