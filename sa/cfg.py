"""Component B: statement-level control-flow graph, dominators, path queries."""

from __future__ import annotations

import ast
from dataclasses import dataclass, field

from . import AnalysisError
from .index import Def, ScopeNode, walk_own


@dataclass
class Node:
    id: int
    kind: str  # entry exit raise stmt if while for with try except finally match
    stmt: ast.AST | None = None
    succ: list[tuple[int, str]] = field(default_factory=list)
    pred: list[int] = field(default_factory=list)
    loops: tuple[int, ...] = ()  # ids of enclosing loop header nodes (outermost first)

    @property
    def lineno(self) -> int:
        return getattr(self.stmt, "lineno", 0)


def is_const_true(e: ast.AST) -> bool:
    return isinstance(e, ast.Constant) and bool(e.value) is True


class CFG:
    def __init__(self, d: Def):
        self.d = d
        self.nodes: list[Node] = []
        self.entry = self._new("entry").id
        self.exit = self._new("exit").id
        self.raise_ = self._new("raise").id
        self.by_stmt: dict[int, int] = {}  # id(ast stmt) -> node id
        self._owner: dict[int, int] = {}  # id(any ast node) -> cfg node id
        self._loop_stack: list[tuple[int, list[int]]] = []  # (header, break-sources)
        self._try_stack: list[dict] = []
        self._loops_ctx: list[int] = []
        body = d.body
        ends = self._seq(body, [(self.entry, "")])
        self.fall = self._new("fall").id  # falling off the end (implicit return None)
        for src, lab in ends:
            self._edge(src, self.fall, lab)
        self._edge(self.fall, self.exit, "fall")
        self._finish()

    # -- construction --------------------------------------------------------
    def _new(self, kind: str, stmt: ast.AST | None = None) -> Node:
        n = Node(len(self.nodes), kind, stmt, loops=tuple(getattr(self, "_loops_ctx", [])))
        self.nodes.append(n)
        if stmt is not None:
            self.by_stmt.setdefault(id(stmt), n.id)
        # anything executed inside a try body may raise into that try's handlers
        if kind not in ("entry", "exit", "raise", "fall", "except", "finally"):
            for tr in reversed(getattr(self, "_try_stack", [])):
                if tr["phase"] == "body":
                    for h in tr["handlers"]:
                        self._edge(n.id, h, "exc")
                    if tr["finally"] is not None and not tr["handlers"]:
                        self._edge(n.id, tr["finally"], "exc")
                        tr["fin_raise"] = True
                    break
        return n

    def _edge(self, a: int, b: int, label: str = "") -> None:
        if (b, label) not in self.nodes[a].succ:
            self.nodes[a].succ.append((b, label))
        if a not in self.nodes[b].pred:
            self.nodes[b].pred.append(a)

    def _own(self, node: Node, *exprs) -> None:
        for e in exprs:
            if e is None:
                continue
            if isinstance(e, list):
                for x in e:
                    self._own(node, x)
                continue
            for sub in walk_own(e, include_root=True):
                self._owner.setdefault(id(sub), node.id)

    def _connect(self, preds, nid: int) -> None:
        for src, lab in preds:
            self._edge(src, nid, lab)

    def _raise_targets(self) -> list[int]:
        """Where an exception raised here may go: innermost handlers/finally, else RAISE."""
        for tr in reversed(self._try_stack):
            if tr["phase"] == "body" and (tr["handlers"] or tr["finally"] is not None):
                tg = list(tr["handlers"])
                if tr["finally"] is not None:
                    tg.append(tr["finally"])
                    tr["fin_raise"] = True
                if any(tr.get("catch_all", [])):
                    return tg
                # exception might not match any handler: also propagates outward
                outer = self._raise_targets_outer(tr)
                return tg + outer
            if tr["phase"] in ("handler", "else") and tr["finally"] is not None:
                tr["fin_raise"] = True
                return [tr["finally"]]
        return [self.raise_]

    def _raise_targets_outer(self, tr) -> list[int]:
        i = self._try_stack.index(tr)
        saved = self._try_stack
        self._try_stack = saved[:i]
        try:
            if tr["finally"] is not None:
                return []  # goes through finally first (edge added above)
            return self._raise_targets()
        finally:
            self._try_stack = saved

    def _seq(self, stmts, preds):
        for st in stmts:
            preds = self._stmt(st, preds)
        return preds

    def _stmt(self, st: ast.stmt, preds):
        if isinstance(st, (ast.FunctionDef, ast.AsyncFunctionDef, ast.ClassDef)):
            n = self._new("stmt", st)
            self._connect(preds, n.id)
            return [(n.id, "")]
        if isinstance(st, ast.If):
            n = self._new("if", st)
            self._own(n, st.test)
            self._connect(preds, n.id)
            t = self._seq(st.body, [(n.id, "true")])
            f = self._seq(st.orelse, [(n.id, "false")]) if st.orelse else [(n.id, "false")]
            return t + f
        if isinstance(st, (ast.For, ast.AsyncFor)):
            n = self._new("for", st)
            self._own(n, st.iter, st.target)
            self._connect(preds, n.id)
            self._loop_stack.append((n.id, []))
            self._loops_ctx.append(n.id)
            b = self._seq(st.body, [(n.id, "body")])
            self._loops_ctx.pop()
            self._connect([(s, l or "back") for s, l in b], n.id)
            _, breaks = self._loop_stack.pop()
            out = self._seq(st.orelse, [(n.id, "exit")]) if st.orelse else [(n.id, "exit")]
            return out + [(b_, "break") for b_ in breaks]
        if isinstance(st, ast.While):
            n = self._new("while", st)
            self._own(n, st.test)
            self._connect(preds, n.id)
            self._loop_stack.append((n.id, []))
            self._loops_ctx.append(n.id)
            b = self._seq(st.body, [(n.id, "body")])
            self._loops_ctx.pop()
            self._connect([(s, l or "back") for s, l in b], n.id)
            _, breaks = self._loop_stack.pop()
            out = []
            if not is_const_true(st.test):
                out = self._seq(st.orelse, [(n.id, "exit")]) if st.orelse else [(n.id, "exit")]
            return out + [(b_, "break") for b_ in breaks]
        if isinstance(st, (ast.With, ast.AsyncWith)):
            n = self._new("with", st)
            self._own(n, [i.context_expr for i in st.items], [i.optional_vars for i in st.items])
            self._connect(preds, n.id)
            return self._seq(st.body, [(n.id, "")])
        if isinstance(st, (ast.Try, getattr(ast, "TryStar", ast.Try))):
            return self._try(st, preds)
        if isinstance(st, ast.Return):
            n = self._new("stmt", st)
            self._own(n, st.value)
            self._connect(preds, n.id)
            self._jump_through_finally(n.id, "return")
            return []
        if isinstance(st, ast.Raise):
            n = self._new("stmt", st)
            self._own(n, st.exc, st.cause)
            self._connect(preds, n.id)
            for t in self._raise_targets():
                self._edge(n.id, t, "raise")
            return []
        if isinstance(st, ast.Assert):
            n = self._new("stmt", st)
            self._own(n, st.test, st.msg)
            self._connect(preds, n.id)
            for t in self._raise_targets():
                self._edge(n.id, t, "assert-fail")
            return [(n.id, "")]
        if isinstance(st, ast.Break):
            n = self._new("stmt", st)
            self._connect(preds, n.id)
            if not self._loop_stack:
                raise AnalysisError("break outside loop")
            self._loop_stack[-1][1].append(n.id)
            return []
        if isinstance(st, ast.Continue):
            n = self._new("stmt", st)
            self._connect(preds, n.id)
            self._edge(n.id, self._loop_stack[-1][0], "continue")
            return []
        if isinstance(st, ast.Match):
            n = self._new("match", st)
            self._own(n, st.subject)
            self._connect(preds, n.id)
            out = [(n.id, "nomatch")]
            for c in st.cases:
                out += self._seq(c.body, [(n.id, "case")])
            return out
        # simple statement
        n = self._new("stmt", st)
        self._own(n, st)
        self._connect(preds, n.id)
        return [(n.id, "")]

    def _jump_through_finally(self, nid: int, what: str) -> None:
        for tr in reversed(self._try_stack):
            if tr["finally"] is not None and tr["phase"] != "finally":
                self._edge(nid, tr["finally"], what)
                tr["fin_" + what] = True
                return
        if what == "return":
            self._edge(nid, self.exit, "return")

    def _try(self, st, preds):
        handlers = []
        for h in st.handlers:
            hn = self._new("except", h)
            self._own(hn, h.type)
            handlers.append(hn.id)
        fin = self._new("finally", st).id if st.finalbody else None
        if fin is not None:
            # by_stmt should map the Try stmt to its first body node, not to finally
            self.by_stmt.pop(id(st), None)
        catch_all = [
            h.type is None
            or (isinstance(h.type, ast.Name) and h.type.id in ("Exception", "BaseException"))
            for h in st.handlers
        ]
        tr = {"handlers": handlers, "finally": fin, "phase": "body", "catch_all": catch_all}
        self._try_stack.append(tr)
        # entry marker so that edges into handlers exist even for empty bodies
        body_end = self._seq(st.body, preds)
        tr["phase"] = "else"
        else_end = self._seq(st.orelse, body_end) if st.orelse else body_end
        tr["phase"] = "handler"
        h_ends = []
        for h, hid in zip(st.handlers, handlers):
            h_ends += self._seq(h.body, [(hid, "")])
        tr["phase"] = "finally"
        self._try_stack.pop()
        normal = else_end + h_ends
        if fin is None:
            return normal
        self._connect(normal, fin)
        f_end = self._seq(st.finalbody, [(fin, "")])
        out = []
        if normal:
            out = f_end
        if tr.get("fin_return"):
            for s, _ in f_end:
                # continue outward through enclosing finally blocks
                saved = self._try_stack
                self._jump_through_finally(s, "return")
        if tr.get("fin_raise"):
            for s, _ in f_end:
                for t in self._raise_targets():
                    self._edge(s, t, "reraise")
        return out

    # -- analysis --------------------------------------------------------------
    def _finish(self) -> None:
        self.reach = self._reachable(self.entry)
        self.dom = self._dominators(self.entry, lambda n: self.nodes[n].pred, lambda n: [s for s, _ in self.nodes[n].succ])
        self.pdom = self._dominators(
            self.exit,
            lambda n: [s for s, _ in self.nodes[n].succ],
            lambda n: self.nodes[n].pred,
        )

    def _reachable(self, start: int, avoid: set[int] = frozenset(), forward=True) -> set[int]:
        seen = set()
        stack = [start]
        while stack:
            n = stack.pop()
            if n in seen or n in avoid:
                continue
            seen.add(n)
            nxt = [s for s, _ in self.nodes[n].succ] if forward else self.nodes[n].pred
            stack.extend(nxt)
        return seen

    def _dominators(self, root: int, preds, succs) -> dict[int, set[int]]:
        # nodes reachable from root along `succs`
        order = []
        seen = set()
        stack = [root]
        while stack:
            n = stack.pop()
            if n in seen:
                continue
            seen.add(n)
            order.append(n)
            stack.extend(succs(n))
        allset = set(order)
        dom = {n: set(allset) for n in order}
        dom[root] = {root}
        changed = True
        while changed:
            changed = False
            for n in order:
                if n == root:
                    continue
                ps = [p for p in preds(n) if p in allset]
                new = set(allset)
                for p in ps:
                    new &= dom[p]
                new = new | {n}
                if new != dom[n]:
                    dom[n] = new
                    changed = True
        return dom

    # -- queries -----------------------------------------------------------------
    def node_of(self, astnode: ast.AST) -> int:
        """CFG node executing ``astnode`` (a statement or any sub-expression)."""
        if id(astnode) in self.by_stmt:
            return self.by_stmt[id(astnode)]
        if id(astnode) in self._owner:
            return self._owner[id(astnode)]
        raise AnalysisError(
            f"AST node at line {getattr(astnode, 'lineno', '?')} not in CFG of {self.d.qual}"
        )

    def has(self, astnode: ast.AST) -> bool:
        return id(astnode) in self.by_stmt or id(astnode) in self._owner

    def dominates(self, a: int, b: int) -> bool:
        return b in self.dom and a in self.dom[b]

    def postdominates(self, a: int, b: int) -> bool:
        """a post-dominates b on paths that reach the normal exit."""
        return b in self.pdom and a in self.pdom[b]

    def reachable_from(self, a: int, avoid=frozenset()) -> set[int]:
        return self._reachable(a, set(avoid))

    def can_reach(self, a: int, b: int, avoid=frozenset()) -> bool:
        av = set(avoid) - {a}
        return b in self._reachable(a, av)

    def all_paths_pass(self, src: int, dst: int, through: set[int]) -> bool:
        """True iff every path src→dst passes a node in ``through`` (vacuous if no path)."""
        if src in through or dst in through:
            return True
        return dst not in self._reachable(src, set(through))

    def returns(self) -> list[Node]:
        return [n for n in self.nodes if isinstance(n.stmt, ast.Return) and n.id in self.reach]

    def stmts(self, typ=None) -> list[Node]:
        return [
            n
            for n in self.nodes
            if n.stmt is not None and n.id in self.reach and (typ is None or isinstance(n.stmt, typ))
        ]

    def branch_conditions(self, nid: int) -> list[tuple[ast.AST, bool, int]]:
        """Conditions that necessarily hold on reaching ``nid``: (test, polarity, branch id)
        for every If/While branch node that dominates ``nid`` and from which only one edge
        can reach ``nid`` without re-passing the branch."""
        out = []
        for b in self.dom.get(nid, ()):
            bn = self.nodes[b]
            if bn.kind not in ("if", "while") or b == nid:
                continue
            reach_by = {}
            for s, lab in bn.succ:
                if lab in ("true", "false", "body", "exit"):
                    pol = lab in ("true", "body")
                    reach_by[pol] = s == nid or nid in self._reachable(s, {b})
            if reach_by.get(True) and not reach_by.get(False):
                out.append((bn.stmt.test, True, b))
            elif reach_by.get(False) and not reach_by.get(True):
                out.append((bn.stmt.test, False, b))
        return out

    def loop_of(self, nid: int) -> int | None:
        l = self.nodes[nid].loops
        return l[-1] if l else None

    def in_loop(self, nid: int, loop: int) -> bool:
        return loop in self.nodes[nid].loops

    def edge_targets(self, nid: int, label: str) -> list[int]:
        return [s for s, l in self.nodes[nid].succ if l == label]

    def falls_off_end(self) -> bool:
        """some path reaches the end of the function without a return (implicit None)"""
        return self.can_reach(self.entry, self.fall) if self.nodes[self.fall].pred else False

    def exits_only_to(self, start: int, avoid: set[int], pred) -> bool:
        """All terminal statements (return/raise) reachable from start (avoiding ``avoid``)
        satisfy ``pred(node)``; falls off the end counts as a terminal `fall`."""
        ok = True
        for n in self._reachable(start, avoid):
            node = self.nodes[n]
            if n in (self.exit, self.raise_):
                continue
            if n == self.fall:
                ok = ok and pred(None)
                continue
            if isinstance(node.stmt, (ast.Return, ast.Raise)) and node.kind == "stmt":
                ok = ok and pred(node)
        return ok


_cfg_cache: dict[str, CFG] = {}


def cfg_of(d: Def) -> CFG:
    key = f"{id(d.node)}"
    c = _cfg_cache.get(key)
    if c is None:
        c = CFG(d)
        _cfg_cache[key] = c
    return c


def is_falsy_return(node: Node | None) -> bool:
    """return False / return None / bare return / fall off the end."""
    if node is None:
        return True
    st = node.stmt
    if isinstance(st, ast.Return):
        v = st.value
        return v is None or (isinstance(v, ast.Constant) and not v.value)
    return False


def is_raise(node: Node | None) -> bool:
    return node is not None and isinstance(node.stmt, ast.Raise)
