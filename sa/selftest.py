"""Checker self-test (thorough tier): apply each edit of the corpus to a scratch copy of
cubed/, re-run the owning rules, and require mutants to be reported and benign edits to be
silent.  A failure here is a defect of the *checker* (ANALYSIS-ERROR, exit 2) — never a
verdict about /repo.
"""

from __future__ import annotations

import argparse
import os
import shutil
import sys
import tempfile
from concurrent.futures import ProcessPoolExecutor

from . import PKG, REPO_ROOT, AnalysisError


def _copy_pkg(dst_root: str) -> None:
    src = os.path.join(REPO_ROOT, PKG)

    def ignore(d, names):
        return [n for n in names if n in ("__pycache__", "tests") or n.endswith((".pyc", ".so"))]

    shutil.copytree(src, os.path.join(dst_root, PKG), ignore=ignore)


def _transform(root: str, kind: str) -> None:
    import ast

    if kind == "unparse-all":
        # formatting-only change of every module: comments dropped, layout normalised
        for dp, dn, fn in os.walk(os.path.join(root, PKG)):
            for f in fn:
                if f.endswith(".py"):
                    p = os.path.join(dp, f)
                    src = open(p, encoding="utf-8").read()
                    open(p, "w", encoding="utf-8").write(ast.unparse(ast.parse(src)) + "\n")
    elif kind == "shift-lines":
        # every module gets a 7-line comment header: all line numbers move
        for dp, dn, fn in os.walk(os.path.join(root, PKG)):
            for f in fn:
                if f.endswith(".py"):
                    p = os.path.join(dp, f)
                    src = open(p, encoding="utf-8").read()
                    fut = ""
                    if src.startswith("from __future__"):
                        fut, _, src = src.partition("\n")
                        fut += "\n"
                    open(p, "w", encoding="utf-8").write(fut + "# header\n" * 7 + src)
    elif kind in ("rename-locals", "rename-opaque"):
        # every function-local variable (not parameters, not names shared with nested
        # scopes, not imports, not global/nonlocal) gets the suffix `_v`
        for dp, dn, fn in os.walk(os.path.join(root, PKG)):
            for f in fn:
                if f.endswith(".py"):
                    p = os.path.join(dp, f)
                    tree = ast.parse(open(p, encoding="utf-8").read())
                    _rename_locals(tree, opaque=(kind == "rename-opaque"))
                    open(p, "w", encoding="utf-8").write(ast.unparse(tree) + "\n")
    elif kind in ("swap-if-else", "flip-compare", "sort-kwargs", "temp-return", "drop-else-after-jump", "expand-augassign", "split-and", "add-logging", "annotate-assign", "collect-kwargs"):
        for dp, dn, fn in os.walk(os.path.join(root, PKG)):
            for f in fn:
                if f.endswith(".py"):
                    p = os.path.join(dp, f)
                    tree = ast.parse(open(p, encoding="utf-8").read())
                    tree = _Refactor(kind).visit(tree)
                    ast.fix_missing_locations(tree)
                    open(p, "w", encoding="utf-8").write(ast.unparse(tree) + "\n")
    else:
        raise ValueError(kind)


import ast as _ast


class _Refactor(_ast.NodeTransformer):
    """behaviour-preserving rewrites applied everywhere they are applicable"""

    def __init__(self, kind):
        self.kind = kind
        self.k = 0
        self.depth = 1  # annotate-assign: module-level names included (harmless)

    def visit_If(self, node):
        self.generic_visit(node)
        if self.kind == "swap-if-else" and node.orelse and not (len(node.orelse) == 1 and isinstance(node.orelse[0], _ast.If)):
            # if c: A else: B   ->   if not c: B else: A
            node.test = _ast.UnaryOp(op=_ast.Not(), operand=node.test)
            node.body, node.orelse = node.orelse, node.body
        return node

    def visit_Module(self, node):
        self.generic_visit(node)
        if self.kind == "add-logging":
            # after the docstring and __future__ imports
            i = 0
            while i < len(node.body) and (
                (isinstance(node.body[i], _ast.Expr) and isinstance(node.body[i].value, _ast.Constant) and isinstance(node.body[i].value.value, str))
                or (isinstance(node.body[i], _ast.ImportFrom) and node.body[i].module == "__future__")
            ):
                i += 1
            node.body[i:i] = _ast.parse("import logging as _logging\n_log = _logging.getLogger(__name__)\n").body
        return node

    def visit_FunctionDef(self, node):
        self.fdepth = getattr(self, "fdepth", 0) + 1
        self.generic_visit(node)
        self.fdepth -= 1
        if self.kind == "add-logging":
            i = 1 if node.body and isinstance(node.body[0], _ast.Expr) and isinstance(node.body[0].value, _ast.Constant) and isinstance(node.body[0].value.value, str) else 0
            if i == 0:
                node.body.insert(0, _ast.Expr(value=_ast.Constant(value=f"{node.name}: see the module documentation.")))
                i = 1
            node.body.insert(i, _ast.parse(f"_log.debug('enter %s', {node.name!r})").body[0])
        return node

    visit_AsyncFunctionDef = visit_FunctionDef

    def visit_Assign(self, node):
        self.generic_visit(node)
        if self.kind == "annotate-assign" and len(node.targets) == 1 and isinstance(node.targets[0], _ast.Name) and self.depth > 0:
            return _ast.copy_location(_ast.AnnAssign(target=node.targets[0], annotation=_ast.Name(id="object", ctx=_ast.Load()), value=node.value, simple=1), node)
        return node

    def visit_AugAssign(self, node):
        self.generic_visit(node)
        if self.kind == "expand-augassign" and isinstance(node.target, _ast.Name):
            # x += e  ->  x = x + e   (names only: no double evaluation of a subscript/attribute base)
            return _ast.copy_location(
                _ast.Assign(targets=[_ast.Name(id=node.target.id, ctx=_ast.Store())], value=_ast.BinOp(left=_ast.Name(id=node.target.id, ctx=_ast.Load()), op=node.op, right=node.value)),
                node,
            )
        return node

    def visit_Compare(self, node):
        self.generic_visit(node)
        if self.kind == "flip-compare" and len(node.ops) == 1:
            flip = {_ast.Eq: _ast.Eq, _ast.NotEq: _ast.NotEq, _ast.Lt: _ast.Gt, _ast.Gt: _ast.Lt, _ast.LtE: _ast.GtE, _ast.GtE: _ast.LtE}
            op = type(node.ops[0])
            # only between side-effect-free operands (names, attributes, constants, subscripts of those)
            pure = all(all(isinstance(x, (_ast.Name, _ast.Attribute, _ast.Constant, _ast.Subscript, _ast.Load, _ast.Tuple, _ast.UnaryOp, _ast.USub, _ast.BinOp, _ast.operator, _ast.Slice)) for x in _ast.walk(e)) for e in (node.left, node.comparators[0]))
            none_cmp = any(isinstance(e, _ast.Constant) and e.value is None for e in (node.left, node.comparators[0]))
            if op in flip and pure and not none_cmp:
                node.left, node.comparators[0] = node.comparators[0], node.left
                node.ops = [flip[op]()]
        return node

    def visit_Call(self, node):
        self.generic_visit(node)
        if self.kind == "sort-kwargs" and len(node.keywords) > 1:
            named = [k for k in node.keywords if k.arg is not None]
            # only when every keyword value is free of calls (evaluation order irrelevant)
            if len(named) == len(node.keywords) and not any(isinstance(x, (_ast.Call, _ast.Await, _ast.NamedExpr)) for k in named for x in _ast.walk(k.value)):
                node.keywords = sorted(named, key=lambda k: k.arg)
            else:
                stars = [k for k in node.keywords if k.arg is None]
                if not any(isinstance(x, (_ast.Call, _ast.Await, _ast.NamedExpr)) for k in named for x in _ast.walk(k.value)) and all(node.keywords.index(s_) > max(node.keywords.index(k) for k in named) for s_ in stars) if named else False:
                    node.keywords = sorted(named, key=lambda k: k.arg) + stars
        return node

    def _block(self, stmts):
        out = []
        for st in stmts:
            if self.kind == "drop-else-after-jump" and isinstance(st, _ast.If) and st.orelse and isinstance(st.body[-1], (_ast.Return, _ast.Raise, _ast.Continue, _ast.Break)):
                # if c: …; return    else: B      ->   if c: …; return      B
                rest, st.orelse = st.orelse, []
                out.append(st)
                out.extend(self._block(rest))
                continue
            if self.kind == "split-and" and isinstance(st, _ast.If) and not st.orelse and isinstance(st.test, _ast.BoolOp) and isinstance(st.test.op, _ast.And) and len(st.test.values) == 2:
                inner = _ast.copy_location(_ast.If(test=st.test.values[1], body=st.body, orelse=[]), st)
                out.append(_ast.copy_location(_ast.If(test=st.test.values[0], body=[inner], orelse=[]), st))
                continue
            if self.kind == "collect-kwargs" and getattr(self, "fdepth", 0) > 0 and isinstance(st, (_ast.Return, _ast.Assign, _ast.Expr)) and isinstance(st.value, _ast.Call):
                # f(a, k1=x, k2=y)  ->  kw_N = dict(k1=x, k2=y); f(a, **kw_N)
                c = st.value
                named = [k for k in c.keywords if k.arg is not None]
                if len(named) >= 2 and len(named) == len(c.keywords) and not any(isinstance(x, (_ast.Call, _ast.Await, _ast.NamedExpr, _ast.Starred)) for a in c.args for x in _ast.walk(a)) and not any(isinstance(x, (_ast.Call, _ast.Await, _ast.NamedExpr)) for x in _ast.walk(c.func)):
                    self.k += 1
                    nm = f"kw_{self.k}"
                    out.append(_ast.Assign(targets=[_ast.Name(id=nm, ctx=_ast.Store())], value=_ast.Call(func=_ast.Name(id="dict", ctx=_ast.Load()), args=[], keywords=named), lineno=st.lineno))
                    c.keywords = [_ast.keyword(arg=None, value=_ast.Name(id=nm, ctx=_ast.Load()))]
                out.append(st)
                continue
            if self.kind == "temp-return" and isinstance(st, _ast.Return) and isinstance(st.value, _ast.Call):
                self.k += 1
                nm = f"ret_{self.k}"
                out.append(_ast.Assign(targets=[_ast.Name(id=nm, ctx=_ast.Store())], value=st.value, lineno=st.lineno))
                out.append(_ast.Return(value=_ast.Name(id=nm, ctx=_ast.Load())))
            else:
                out.append(st)
        return out

    def generic_visit(self, node):
        super().generic_visit(node)
        if self.kind in ("temp-return", "drop-else-after-jump", "split-and", "collect-kwargs"):
            for fld in ("body", "orelse", "finalbody"):
                b = getattr(node, fld, None)
                if isinstance(b, list) and b and isinstance(b[0], _ast.stmt):
                    setattr(node, fld, self._block(b))
        return node


def _rename_locals(tree, opaque: bool = False) -> int:
    import ast

    SCOPES = (ast.FunctionDef, ast.AsyncFunctionDef, ast.Lambda, ast.ClassDef)
    COMPS = (ast.ListComp, ast.SetComp, ast.DictComp, ast.GeneratorExp)
    n = 0

    def own(fn):
        """nodes of fn's own scope (nested defs/lambdas/classes excluded, comprehensions included)"""
        stack = list(ast.iter_child_nodes(fn))
        while stack:
            x = stack.pop()
            yield x
            if isinstance(x, SCOPES):
                continue
            stack.extend(ast.iter_child_nodes(x))

    for fn in [x for x in ast.walk(tree) if isinstance(x, (ast.FunctionDef, ast.AsyncFunctionDef))]:
        a = fn.args
        params = {p.arg for p in a.posonlyargs + a.args + a.kwonlyargs} | ({a.vararg.arg} if a.vararg else set()) | ({a.kwarg.arg} if a.kwarg else set())
        nodes = list(own(fn))
        body_nodes = [x for x in nodes if not any(x is d for d in fn.decorator_list)]
        stored = {x.id for x in body_nodes if isinstance(x, ast.Name) and isinstance(x.ctx, ast.Store)}
        skip = set(params)
        for x in body_nodes:
            if isinstance(x, (ast.Global, ast.Nonlocal)):
                skip |= set(x.names)
            elif isinstance(x, (ast.Import, ast.ImportFrom)):
                skip |= {(al.asname or al.name).split(".")[0] for al in x.names}
            elif isinstance(x, ast.ExceptHandler) and x.name:
                skip.add(x.name)
            elif isinstance(x, SCOPES):
                # names used or bound anywhere inside a nested scope are shared: leave them
                if not isinstance(x, ast.Lambda):
                    skip.add(x.name)
                skip |= {y.id for y in ast.walk(x) if isinstance(y, ast.Name)}
                skip |= {y.arg for y in ast.walk(x) if isinstance(y, ast.arg)}
            elif isinstance(x, COMPS):
                for g in x.generators:
                    skip |= {y.id for y in ast.walk(g.target) if isinstance(y, ast.Name)}
            elif isinstance(x, ast.MatchAs) and x.name:
                skip.add(x.name)
            elif isinstance(x, ast.NamedExpr):
                skip.add(x.target.id)
            elif isinstance(x, ast.Call) and isinstance(x.func, ast.Name) and x.func.id in ("locals", "vars", "eval", "exec"):
                skip |= stored
        # decorators and defaults are evaluated in the enclosing scope
        outer_names = {y.id for d in fn.decorator_list for y in ast.walk(d) if isinstance(y, ast.Name)}
        outer_names |= {y.id for d in a.defaults + [k for k in a.kw_defaults if k is not None] for y in ast.walk(d) if isinstance(y, ast.Name)}
        todo = stored - skip
        default_ids = {id(y) for d in a.defaults + [k for k in a.kw_defaults if k is not None] for y in ast.walk(d)}
        allnames = {y.id for y in ast.walk(fn) if isinstance(y, ast.Name)} | params
        ren = {}
        for k_, nm in enumerate(sorted(todo)):
            new = f"q{k_}" if opaque else nm + "_v"
            while new in allnames:
                new += "_"
            ren[nm] = new
        for x in body_nodes:
            if isinstance(x, ast.Name) and x.id in todo and id(x) not in default_ids:
                x.id = ren[x.id]
                n += 1
    return n


def apply_edit(root: str, edit: dict) -> bool:
    """Apply textual replacements; returns False if an anchor snippet is absent."""
    if edit.get("transform"):
        _transform(root, edit["transform"])
        return True
    for rel, old, new in edit["edits"]:
        p = os.path.join(root, rel)
        if not os.path.exists(p):
            return False
        s = open(p, encoding="utf-8").read()
        if s.count(old) < 1:
            return False
        s = s.replace(old, new, 1)
        with open(p, "w", encoding="utf-8") as f:
            f.write(s)
    return True


def run_edit(args) -> dict:
    edit, scratch_parent = args
    from .index import Repo
    from .runner import run_property

    root = tempfile.mkdtemp(prefix="m-", dir=scratch_parent)
    try:
        _copy_pkg(root)
        if not apply_edit(root, edit):
            return {"id": edit["id"], "status": "skipped"}
        import ast

        for rel, _, _ in ([] if edit.get("transform") else edit["edits"]):
            try:
                ast.parse(open(os.path.join(root, rel)).read())
            except SyntaxError as e:
                return {"id": edit["id"], "status": "broken-edit", "detail": str(e)}
        try:
            repo = Repo(root=root)
            fired = []
            still = []
            from .runner import RULES
            from . import rules as _r  # noqa: F401

            for prop in edit["props"]:
                if not any(prop in sp.props for sp in RULES.values()):
                    continue  # property has no rules (yet): nothing to test
                res = run_property(repo, prop, "thorough")
                fired += [(prop, o.rule, o.construct, o.msg) for o in res.violations]
                still += [(prop, o.rule, o.construct) for o, k in res.known if k.get("id") == edit.get("finding")]
        except AnalysisError as e:
            return {"id": edit["id"], "status": "analysis-error", "detail": str(e)}
        except Exception as e:  # noqa: BLE001  (a crash of the checker is reported, not raised)
            import traceback

            return {"id": edit["id"], "status": "internal-error", "detail": traceback.format_exc()[-400:]}
        if edit["kind"] == "mutant":
            want = edit.get("rule")
            hit = [f for f in fired if want is None or f[1] == want or f[1] in edit.get("also", ())]
            return {
                "id": edit["id"],
                "status": "caught" if hit else "MISSED",
                "by": sorted({f"{f[0]}:{f[1]}" for f in fired}),
                "first": hit[0][2:] if hit else None,
            }
        if edit["kind"] == "repair":
            return {
                "id": edit["id"],
                "status": "STILL-REPORTED" if still else ("FALSE-ALARM" if fired else "repaired-silent"),
                "by": [f"{f[0]}:{f[1]} {f[2]}" for f in still + [x[:3] for x in fired]][:5],
            }
        return {
            "id": edit["id"],
            "status": "silent" if not fired else "FALSE-ALARM",
            "by": [f"{f[0]}:{f[1]} {f[2]}: {f[3]}" for f in fired][:5],
        }
    finally:
        shutil.rmtree(root, ignore_errors=True)


def run_corpus(edits: list[dict], jobs: int = 16) -> list[dict]:
    parent = tempfile.mkdtemp(prefix="verif-sa-")
    try:
        with ProcessPoolExecutor(max_workers=min(jobs, max(1, len(edits)))) as ex:
            return list(ex.map(run_edit, [(e, parent) for e in edits]))
    finally:
        shutil.rmtree(parent, ignore_errors=True)


def run_selftest(prop: str, seed: int = 0) -> dict:
    from .corpus import CORPUS

    # each edit is judged under the property being checked (its other properties are
    # exercised by their own thorough runs)
    # A mutant lists every property the edit would break; it belongs to this property's
    # corpus only when the rule that owns it (or an `also` rule) is registered for the
    # property — decided here from the registry, before anything is run.
    from . import rules as _r  # noqa: F401
    from .runner import RULES

    def mine(e) -> bool:
        if prop not in e["props"]:
            return False
        if e["kind"] != "mutant" or not e.get("rule"):
            return True
        owners = (e["rule"],) + tuple(e.get("also", ()))
        return any(o in RULES and prop in RULES[o].props for o in owners)

    edits = [dict(e, props=[prop]) for e in CORPUS if mine(e)]
    if not edits:
        return {"mutants": 0, "benign": 0, "note": "no corpus entries for this property"}
    # known findings are violations on the base tree too; the corpus only counts *new* ones,
    # which is what run_edit sees because known findings are not in res.violations.
    results = run_corpus(edits)
    bad = [r for r in results if r["status"] in ("MISSED", "FALSE-ALARM", "STILL-REPORTED", "broken-edit", "internal-error")]
    summary = {
        "mutants": sum(1 for e in edits if e["kind"] == "mutant"),
        "benign": sum(1 for e in edits if e["kind"] == "benign"),
        "caught": sum(1 for r in results if r["status"] == "caught"),
        "silent": sum(1 for r in results if r["status"] == "silent"),
        "repairs": sum(1 for e in edits if e["kind"] == "repair"),
        "repaired_silent": sum(1 for r in results if r["status"] == "repaired-silent"),
        "skipped": [r["id"] for r in results if r["status"] == "skipped"],
        "analysis_error": [r["id"] for r in results if r["status"] == "analysis-error"],
        "results": results,
    }
    if bad:
        raise AnalysisError(
            "checker self-test failed (defect of the checker, not a verdict about /repo): "
            + "; ".join(f"{r['id']}={r['status']} {r.get('by') or r.get('detail') or ''}" for r in bad)
        )
    return summary


def main(argv=None) -> int:
    ap = argparse.ArgumentParser()
    ap.add_argument("--id", action="append")
    ap.add_argument("--prop")
    ap.add_argument("--jobs", type=int, default=16)
    a = ap.parse_args(argv)
    from .corpus import CORPUS

    edits = CORPUS
    if a.id:
        edits = [e for e in edits if e["id"] in a.id]
    if a.prop:
        edits = [e for e in edits if a.prop in e["props"]]
    res = run_corpus(edits, a.jobs)
    bad = 0
    for r in res:
        print(r["id"], r["status"], r.get("by") or r.get("detail") or "")
        is_mutant = any(e["id"] == r["id"] and e["kind"] == "mutant" for e in edits)
        if r["status"] in ("MISSED", "FALSE-ALARM", "STILL-REPORTED", "broken-edit", "internal-error") or (r["status"] == "analysis-error" and not is_mutant):
            bad += 1
    print(f"{len(res)} edits, {bad} problems")
    return 2 if bad else 0


if __name__ == "__main__":
    sys.exit(main())
