"""Run the checks against the seeded breaking changes kept under /verif/seeded/<id>/.

Each directory holds patch.diff (a change to cubed that breaks a property while the suite
still passes), the demonstration, and meta.json.  The patch is applied to a scratch copy of
cubed/ (never to /repo), the property's rules are run on the copy, and the result is
compared with meta.json["expect"] ("caught" or "missed-by-design").

    python -m sa.seeded            # all
    python -m sa.seeded --id C08-1
"""

from __future__ import annotations

import argparse
import json
import os
import shutil
import subprocess
import sys
import tempfile

from . import VERIF_ROOT, AnalysisError
from .selftest import _copy_pkg

SEEDED = os.path.join(VERIF_ROOT, "seeded")
BENIGN = os.path.join(VERIF_ROOT, "benign")


def run_one(sid: str, parent: str, all_props: bool = False, base: str = SEEDED) -> dict:
    from .index import Repo
    from .props import CLAIMED
    from .runner import run_property

    d = os.path.join(base, sid)
    meta = json.load(open(os.path.join(d, "meta.json")))
    root = tempfile.mkdtemp(prefix="s-", dir=parent)
    try:
        _copy_pkg(root)
        # tests are not copied; drop hunks that touch them
        r = subprocess.run(
            ["git", "apply", "--exclude=cubed/tests/*", "--include=cubed/*", "-p1", os.path.join(d, "patch.diff")],
            cwd=root,
            capture_output=True,
            text=True,
        )
        if r.returncode != 0:
            return {"id": sid, "status": "patch-failed", "detail": r.stderr[-300:]}
        repo = Repo(root=root)
        props = CLAIMED if all_props else [p for p in meta.get("check_properties", [meta["property"]]) if p in CLAIMED]
        fired = []
        errors = []
        for p in props:
            try:
                res = run_property(repo, p, "thorough")
                fired += [f"{p}:{o.rule} {o.construct}: {o.msg[:140]}" for o in res.violations]
            except AnalysisError as e:
                errors.append(f"{p}: ANALYSIS-ERROR {e}")
        status = "caught" if fired else ("analysis-error" if errors else "missed")
        return {"id": sid, "property": meta["property"], "status": status, "expect": meta.get("expect"), "fired": fired[:6], "errors": errors[:3]}
    finally:
        shutil.rmtree(root, ignore_errors=True)


def main(argv=None) -> int:
    ap = argparse.ArgumentParser()
    ap.add_argument("--id", action="append")
    ap.add_argument("--all-props", action="store_true", help="run every claimed property, not only the targeted one")
    ap.add_argument("--benign", action="store_true", help="run the behaviour-preserving changes under /verif/benign (all properties): expected silent, or analysis-error where recorded")
    ap.add_argument("--jobs", type=int, default=os.cpu_count() or 4)
    a = ap.parse_args(argv)
    base = BENIGN if a.benign else SEEDED
    if a.benign:
        a.all_props = True
    ids = a.id or sorted(x for x in os.listdir(base) if os.path.isdir(os.path.join(base, x)))
    parent = tempfile.mkdtemp(prefix="verif-seeded-")
    bad = 0
    try:
        from concurrent.futures import ProcessPoolExecutor

        jobs = min(a.jobs, len(ids)) or 1
        if jobs > 1:
            with ProcessPoolExecutor(max_workers=jobs) as ex:
                results = list(ex.map(_job, [(sid, parent, a.all_props, base) for sid in ids]))
        else:
            results = [_job((sid, parent, a.all_props, base)) for sid in ids]
        tally: dict = {}
        for r in results:
            ok = r["status"] == r.get("expect", "caught") or (r["status"] == "missed" and r.get("expect") in ("missed-by-design", "silent"))
            if a.benign and r["status"] == "missed" and r.get("expect") == "analysis-error":
                ok = True  # better than recorded
            tally[r["status"]] = tally.get(r["status"], 0) + 1
            print(f"{r['id']:<10} {r.get('property', ''):<4} {r['status']:<15} expect={r.get('expect')} {'OK' if ok else '<<< MISMATCH'}")
            for f in r.get("fired", [])[:3]:
                print("      ", f)
            for e in r.get("errors", []):
                print("      ", e)
            if not ok:
                bad += 1
        print("tally:", ", ".join(f"{k}={v}" for k, v in sorted(tally.items())), f"mismatches={bad}")
    finally:
        shutil.rmtree(parent, ignore_errors=True)
    return 1 if bad else 0


def _job(args):
    sid, parent, all_props, base = args
    try:
        return run_one(sid, parent, all_props, base)
    except Exception as e:  # a crash of the engine on a patched tree is reported, not hidden
        return {"id": sid, "status": "crash", "errors": [f"{type(e).__name__}: {e}"]}


if __name__ == "__main__":
    sys.exit(main())
