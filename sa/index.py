"""Component A: repository index and call resolver (stdlib ``ast`` only)."""

from __future__ import annotations

import ast
import builtins
import hashlib
import os
from dataclasses import dataclass, field
from typing import Iterable, Iterator

from . import PKG, REPO_ROOT, AnalysisError

FuncNode = (ast.FunctionDef, ast.AsyncFunctionDef, ast.Lambda)
ScopeNode = (ast.FunctionDef, ast.AsyncFunctionDef, ast.Lambda, ast.ClassDef)

BUILTINS = set(dir(builtins))


def walk_own(node: ast.AST, include_root: bool = False) -> Iterator[ast.AST]:
    """Walk ``node`` without descending into nested function/class/lambda bodies.

    Nested scope nodes themselves are yielded (so callers can see that a def is
    there) but their bodies are not entered.  Comprehensions are entered.
    """
    stack = [node]
    first = True
    while stack:
        n = stack.pop()
        if not first or include_root:
            yield n
        if not first and isinstance(n, ScopeNode):
            # yield decorators/defaults of nested defs? they run in this scope
            if not isinstance(n, ast.Lambda) and not isinstance(n, ast.ClassDef):
                for d in n.decorator_list:
                    stack.append(d)
                for d in list(n.args.defaults) + [
                    k for k in n.args.kw_defaults if k is not None
                ]:
                    stack.append(d)
            continue
        first = False
        stack.extend(reversed(list(ast.iter_child_nodes(n))))


def attr_chain(e: ast.AST) -> str | None:
    """``a.b.c`` for a pure Name/Attribute chain, else None."""
    parts = []
    while isinstance(e, ast.Attribute):
        parts.append(e.attr)
        e = e.value
    if isinstance(e, ast.Name):
        parts.append(e.id)
        return ".".join(reversed(parts))
    return None


def names_loaded(e: ast.AST) -> set[str]:
    return {
        n.id
        for n in ast.walk(e)
        if isinstance(n, ast.Name) and isinstance(n.ctx, ast.Load)
    }


def const_str(e: ast.AST) -> str | None:
    if isinstance(e, ast.Constant) and isinstance(e.value, str):
        return e.value
    return None


def RELOCATABLE_SET():
    from .anchors import RELOCATABLE

    return set(RELOCATABLE)


@dataclass
class Def:
    qual: str
    name: str
    node: ast.AST
    kind: str  # func | class | lambda
    module: "Module"
    parent: "Def | None"
    children: dict[str, "Def"] = field(default_factory=dict)
    lambdas: list["Def"] = field(default_factory=list)
    local_imports: dict[str, str] = field(default_factory=dict)
    _params: list[str] | None = None

    def __hash__(self):
        return hash(self.qual)

    def __eq__(self, other):
        return isinstance(other, Def) and other.qual == self.qual

    def __repr__(self):
        return f"<Def {self.qual}>"

    @property
    def is_func(self) -> bool:
        return self.kind in ("func", "lambda")

    @property
    def cls(self) -> "Def | None":
        """The class this def is a method of (direct parent), if any."""
        if self.parent is not None and self.parent.kind == "class":
            return self.parent
        return None

    @property
    def enclosing_class(self) -> "Def | None":
        d = self.parent
        while d is not None:
            if d.kind == "class":
                return d
            d = d.parent
        return None

    @property
    def lineno(self) -> int:
        return getattr(self.node, "lineno", 0)

    @property
    def loc(self) -> str:
        return f"{self.module.relpath}:{self.lineno}"

    @property
    def params(self) -> list[str]:
        if self._params is None:
            if self.kind == "class":
                self._params = []
            else:
                a = self.node.args
                ps = [x.arg for x in a.posonlyargs + a.args]
                if a.vararg:
                    ps.append(a.vararg.arg)
                ps += [x.arg for x in a.kwonlyargs]
                if a.kwarg:
                    ps.append(a.kwarg.arg)
                self._params = ps
        return self._params

    @property
    def positional_params(self) -> list[str]:
        a = self.node.args
        return [x.arg for x in a.posonlyargs + a.args]

    @property
    def vararg(self) -> str | None:
        a = self.node.args
        return a.vararg.arg if a.vararg else None

    @property
    def kwarg(self) -> str | None:
        a = self.node.args
        return a.kwarg.arg if a.kwarg else None

    @property
    def body(self) -> list[ast.stmt]:
        if isinstance(self.node, ast.Lambda):
            return [ast.Return(value=self.node.body, lineno=self.node.lineno)]
        return self.node.body

    def own_nodes(self) -> Iterator[ast.AST]:
        return walk_own(self.node)

    def decorators(self) -> list[str]:
        out = []
        for d in getattr(self.node, "decorator_list", []):
            c = attr_chain(d.func if isinstance(d, ast.Call) else d)
            if c:
                out.append(c)
        return out

    def scope_chain(self) -> list["Def"]:
        out = []
        d = self
        while d is not None:
            out.append(d)
            d = d.parent
        return out


@dataclass
class Module:
    qual: str
    path: str
    relpath: str
    tree: ast.Module
    src: str
    is_pkg: bool
    imports: dict[str, str] = field(default_factory=dict)
    defs: dict[str, Def] = field(default_factory=dict)
    lambdas: list[Def] = field(default_factory=list)
    assigns: dict[str, list[ast.AST]] = field(default_factory=dict)

    def __hash__(self):
        return hash(self.qual)

    def __eq__(self, other):
        return isinstance(other, Module) and other.qual == self.qual

    @property
    def package(self) -> str:
        return self.qual if self.is_pkg else self.qual.rpartition(".")[0]


# Resolution results -------------------------------------------------------


@dataclass(frozen=True)
class Target:
    kind: str  # def | module | ext | local | builtin | unknown | param
    ref: object  # Def | str

    def __repr__(self):
        r = self.ref.qual if isinstance(self.ref, Def) else self.ref
        return f"{self.kind}:{r}"

    @property
    def qual(self) -> str:
        return self.ref.qual if isinstance(self.ref, Def) else str(self.ref)


class Repo:
    """Parsed view of the repository's non-test library code."""

    def __init__(self, root: str = REPO_ROOT, pkg: str = PKG, include_tests=False):
        self.root = root
        self.pkg = pkg
        self.modules: dict[str, Module] = {}
        self.defs: dict[str, Def] = {}
        self.methods_by_name: dict[str, list[Def]] = {}
        self._node_def: dict[int, Def] = {}
        self._bases_cache: dict[str, list[Def]] = {}
        self._callcache: dict[int, list[Target]] = {}
        self._load(include_tests)
        self._index_defs()
        self.relocations: dict[str, str] = {}
        self._apply_relocations()

    def _apply_relocations(self) -> None:
        """Index a relocated private helper under its anchor name (see _relocated): every
        rule, the resolver and the effect summaries then see one stable name; reports carry
        the real file:line."""
        from .anchors import RELOCATABLE

        for q in RELOCATABLE:
            if q in self.defs:
                continue
            d = self._relocated(q)
            if d is None:
                continue
            old = d.qual
            self.relocations[q] = old
            for k in [k for k in list(self.defs) if k == old or k.startswith(old + ".")]:
                dd = self.defs.pop(k)
                dd.qual = q + k[len(old):]
                self.defs[dd.qual] = dd
        self.__dict__.pop("_reloc_cache", None)
        # a function moved to another module of the package and still importable under its
        # old name (`from cubed.spec import check_array_specs` in cubed/core/array.py): every
        # user of the old name gets the same object, so the anchor keeps its name
        from .anchors import anchor_quals

        wanted = anchor_quals()
        for q in sorted(wanted):
            if q in self.defs or "." not in q:
                continue
            mq, name = q.rsplit(".", 1)
            m = self.modules.get(mq)
            if m is None or name not in m.imports:
                continue
            t = self.canon(q)
            if t.kind != "def" or not t.ref.is_func or t.ref.parent is not None or t.ref.name != name or t.ref.qual in wanted:
                continue
            d = t.ref
            old = d.qual
            self.relocations[q] = old
            for k in [k for k in list(self.defs) if k == old or k.startswith(old + ".")]:
                dd = self.defs.pop(k)
                dd.qual = q + k[len(old):]
                self.defs[dd.qual] = dd
        # renamed private helpers: found by the role they play for a stable caller
        from .anchors import ROLE_OF

        for q, (caller_q, mentions_all) in ROLE_OF.items():
            if q in self.defs or caller_q not in self.defs:
                continue
            caller = self.defs[caller_q]
            cands = []
            for c in caller.own_nodes():
                if isinstance(c, ast.Call):
                    for t in self.resolve_call(c, caller, caller.module):
                        if t.kind == "def" and t.ref.is_func and (t.ref.name.startswith("_") or not q.rsplit(".", 1)[-1].startswith("_")) and not t.ref.name.startswith("__"):
                            src = ast.dump(t.ref.node)
                            if all(m in src for m in mentions_all) and t.ref not in cands and t.ref.qual not in RELOCATABLE_SET():
                                cands.append(t.ref)
            if len(cands) == 1:
                d = cands[0]
                old = d.qual
                self.relocations[q] = old
                for k in [k for k in list(self.defs) if k == old or k.startswith(old + ".")]:
                    dd = self.defs.pop(k)
                    dd.qual = q + k[len(old):]
                    self.defs[dd.qual] = dd
        self._callcache.clear()

    # -- loading -----------------------------------------------------------
    def _load(self, include_tests: bool) -> None:
        base = os.path.join(self.root, self.pkg)
        if not os.path.isdir(base):
            raise AnalysisError(f"package directory not found: {base}")
        for dirpath, dirnames, filenames in os.walk(base):
            dirnames[:] = sorted(d for d in dirnames if d != "__pycache__")
            rel = os.path.relpath(dirpath, self.root)
            parts = rel.split(os.sep)
            if not include_tests and "tests" in parts:
                continue
            for fn in sorted(filenames):
                if not fn.endswith(".py"):
                    continue
                path = os.path.join(dirpath, fn)
                with open(path, encoding="utf-8") as f:
                    src = f.read()
                try:
                    tree = ast.parse(src, filename=path)
                    if not os.environ.get("VERIF_SA_NO_CANON"):
                        from .canon import canonicalise

                        tree = canonicalise(tree)
                except SyntaxError as e:  # pragma: no cover
                    raise AnalysisError(f"cannot parse {path}: {e}") from e
                is_pkg = fn == "__init__.py"
                q = parts[:] if is_pkg else parts + [fn[:-3]]
                qual = ".".join(q)
                self.modules[qual] = Module(
                    qual=qual,
                    path=path,
                    relpath=os.path.relpath(path, self.root),
                    tree=tree,
                    src=src,
                    is_pkg=is_pkg,
                )
        if not self.modules:
            raise AnalysisError("no modules parsed")

    def digest(self, quals: Iterable[str] | None = None) -> str:
        h = hashlib.sha1()
        for q in sorted(quals or self.modules):
            if q in self.modules:
                h.update(q.encode())
                h.update(self.modules[q].src.encode())
        return h.hexdigest()[:16]

    # -- definitions -------------------------------------------------------
    def _index_defs(self) -> None:
        for m in self.modules.values():
            self._collect_imports(m.tree.body, m, m.imports, toplevel=True)
            self._index_scope(m.tree, m, None, m.qual)
            for st in m.tree.body:
                if isinstance(st, ast.Assign):
                    for t in st.targets:
                        if isinstance(t, ast.Name):
                            m.assigns.setdefault(t.id, []).append(st.value)
                elif isinstance(st, ast.AnnAssign) and isinstance(st.target, ast.Name):
                    if st.value is not None:
                        m.assigns.setdefault(st.target.id, []).append(st.value)
        for d in self.defs.values():
            if d.kind == "func" and d.cls is not None:
                self.methods_by_name.setdefault(d.name, []).append(d)

    def _rel_import(self, m: Module, node: ast.ImportFrom) -> str:
        if node.level == 0:
            return node.module or ""
        pkg = m.package.split(".")
        up = node.level - 1
        if up:
            pkg = pkg[:-up]
        base = ".".join(pkg)
        return f"{base}.{node.module}" if node.module else base

    def _collect_imports(self, body, m: Module, table: dict[str, str], toplevel=False):
        """Collect imports in the statements of one scope (descends into if/try/with)."""
        stack = list(body)
        while stack:
            st = stack.pop()
            if isinstance(st, ast.Import):
                for a in st.names:
                    if a.asname:
                        table[a.asname] = a.name
                    else:
                        top = a.name.split(".")[0]
                        table[top] = top
            elif isinstance(st, ast.ImportFrom):
                base = self._rel_import(m, st)
                for a in st.names:
                    if a.name == "*":
                        continue
                    table[a.asname or a.name] = f"{base}.{a.name}"
            elif isinstance(st, ScopeNode):
                continue
            else:
                for f in ("body", "orelse", "finalbody", "handlers"):
                    v = getattr(st, f, None)
                    if isinstance(v, list):
                        stack.extend(x for x in v if isinstance(x, ast.AST))

    def _index_scope(self, node: ast.AST, m: Module, parent: Def | None, prefix: str):
        lam_count = 0
        for n in walk_own(node):
            if isinstance(n, (ast.FunctionDef, ast.AsyncFunctionDef, ast.ClassDef)):
                kind = "class" if isinstance(n, ast.ClassDef) else "func"
                qual = f"{prefix}.{n.name}"
                if qual in self.defs:
                    # redefinition (overload stubs, singledispatch registrations named `_`,
                    # try/except alternatives): the earlier definition stays indexed under
                    # a numbered name; the plain name denotes the last one, as in Python.
                    k = 1
                    while f"{qual}#{k}" in self.defs:
                        k += 1
                    old = self.defs[qual]
                    old.qual = f"{qual}#{k}"
                    self.defs[old.qual] = old
                d = Def(qual, n.name, n, kind, m, parent)
                self.defs[qual] = d
                self._node_def[id(n)] = d
                if parent is None:
                    m.defs[n.name] = d
                else:
                    parent.children[n.name] = d
                if kind == "func":
                    self._collect_imports(n.body, m, d.local_imports)
                self._index_scope(n, m, d, qual)
            elif isinstance(n, ast.Lambda):
                qual = f"{prefix}.<lambda#{lam_count}>"
                lam_count += 1
                d = Def(qual, "<lambda>", n, "lambda", m, parent)
                self.defs[qual] = d
                self._node_def[id(n)] = d
                (parent.lambdas if parent is not None else m.lambdas).append(d)
                self._index_scope(n, m, d, qual)

    # -- lookups -----------------------------------------------------------
    def get(self, qual: str) -> Def:
        d = self.defs.get(qual)
        if d is None:
            d = self._relocated(qual)
        if d is None:
            raise AnalysisError(f"anchor not found: {qual}")
        return d

    def _relocated(self, qual: str) -> Def | None:
        """A *private* helper that was moved (method ↔ module function, other module of the
        package) or had its leading underscore added/removed keeps its role: if exactly one
        definition of that (normalised) name exists in the package, that is the anchor.  Public
        names are interface and are never re-resolved; nested definitions keep their parent
        chain's last name.  Recorded in `self.relocations` (shown in evidence notes)."""
        cache = self.__dict__.setdefault("_reloc_cache", {})
        if qual in cache:
            return cache[qual]
        name = qual.rsplit(".", 1)[-1]
        base = name.lstrip("_")
        found = None
        if base and not (name.startswith("__") and name.endswith("__")):
            old_parent = qual.rsplit(".", 2)[-2] if qual.count(".") >= 2 else ""
            cands = [
                d
                for d in self.defs.values()
                if d.is_func
                and d.name.lstrip("_") == base
                and (d.name.startswith("_") or name.startswith("_"))
                and not d.module.qual.startswith(("cubed.vendor.", "cubed.tests."))
                and "#" not in d.qual
            ]
            # a nested helper must still be nested in a function of the same name
            was_nested = any(k.rsplit(".", 1)[0] == qual.rsplit(".", 1)[0] and v.is_func for k, v in self.defs.items()) and False
            if len(cands) > 1:
                same_parent = [d for d in cands if d.parent is not None and d.parent.name == old_parent]
                cands = same_parent if len(same_parent) == 1 else cands
            if len(cands) == 1:
                found = cands[0]
                self.__dict__.setdefault("relocations", {})[qual] = found.qual
        cache[qual] = found
        return found

    def maybe(self, qual: str) -> Def | None:
        return self.defs.get(qual)

    def module(self, qual: str) -> Module:
        m = self.modules.get(qual)
        if m is None:
            raise AnalysisError(f"module not found: {qual}")
        return m

    def def_of_node(self, node: ast.AST) -> Def | None:
        return self._node_def.get(id(node))

    def functions(self) -> Iterator[Def]:
        for d in self.defs.values():
            if d.is_func:
                yield d

    def classes(self) -> Iterator[Def]:
        for d in self.defs.values():
            if d.kind == "class":
                yield d

    # -- canonicalisation of dotted names -----------------------------------
    def canon(self, dotted: str, _depth: int = 0) -> Target:
        """Follow re-exports until a Def, a module, or an external name."""
        if _depth > 12:
            return Target("unknown", dotted)
        if not (dotted == self.pkg or dotted.startswith(self.pkg + ".")):
            return Target("ext", dotted)
        parts = dotted.split(".")
        # longest module prefix
        for i in range(len(parts), 0, -1):
            mq = ".".join(parts[:i])
            if mq in self.modules:
                rest = parts[i:]
                if not rest:
                    return Target("module", mq)
                m = self.modules[mq]
                head = rest[0]
                if head in m.defs:
                    d = m.defs[head]
                    for r in rest[1:]:
                        nd = self.class_attr(d, r) if d.kind == "class" else None
                        if nd is None:
                            return Target("unknown", dotted)
                        d = nd
                    return Target("def", d)
                if head in m.imports:
                    tgt = m.imports[head]
                    return self.canon(".".join([tgt] + rest[1:]), _depth + 1)
                if head in m.assigns:
                    # module-level alias e.g. Executor = DagExecutor
                    vals = m.assigns[head]
                    if len(vals) == 1:
                        c = attr_chain(vals[0])
                        if c and len(rest) == 1:
                            t = self.resolve_dotted_in_module(c, m)
                            if t.kind in ("def", "module", "ext"):
                                return t
                    return Target("global", f"{mq}.{head}")
                return Target("unknown", dotted)
        return Target("unknown", dotted)

    def resolve_dotted_in_module(self, chain: str, m: Module) -> Target:
        head, _, rest = chain.partition(".")
        if head in m.defs:
            return self.canon(f"{m.qual}.{chain}")
        if head in m.imports:
            full = m.imports[head] + ("." + rest if rest else "")
            return self.canon(full)
        if head in m.assigns:
            return self.canon(f"{m.qual}.{chain}")
        if head in BUILTINS:
            return Target("builtin", chain)
        return Target("unknown", chain)

    # -- classes -----------------------------------------------------------
    def bases(self, cls: Def) -> list[Def]:
        if cls.qual in self._bases_cache:
            return self._bases_cache[cls.qual]
        out: list[Def] = []
        self._bases_cache[cls.qual] = out
        for b in cls.node.bases:
            c = attr_chain(b.value if isinstance(b, ast.Subscript) else b)
            if not c:
                continue
            t = self.resolve_name_chain(c, cls.parent, cls.module)
            if t.kind == "def" and t.ref.kind == "class":
                out.append(t.ref)
        return out

    def mro(self, cls: Def) -> list[Def]:
        out, seen, stack = [], set(), [cls]
        while stack:
            c = stack.pop(0)
            if c.qual in seen:
                continue
            seen.add(c.qual)
            out.append(c)
            stack.extend(self.bases(c))
        return out

    def class_attr(self, cls: Def, name: str) -> Def | None:
        for c in self.mro(cls):
            if name in c.children:
                return c.children[name]
        return None

    def subclasses(self, cls: Def) -> list[Def]:
        return [c for c in self.classes() if cls in self.mro(c)]

    # -- name resolution in scopes -------------------------------------------
    def _local_bindings(self, scope: Def) -> dict[str, list[ast.AST | None]]:
        """Names bound in a function scope → list of simple RHS (None = non-simple)."""
        cache = getattr(scope, "_bind_cache", None)
        if cache is not None:
            return cache
        b: dict[str, list[ast.AST | None]] = {}
        if scope.is_func:
            for p in scope.params:
                b.setdefault(p, []).append(None)
            for n in scope.own_nodes():
                if isinstance(n, ast.Assign):
                    for t in n.targets:
                        if isinstance(t, ast.Name):
                            b.setdefault(t.id, []).append(n.value)
                        else:
                            for nm in ast.walk(t):
                                if isinstance(nm, ast.Name) and isinstance(
                                    nm.ctx, ast.Store
                                ):
                                    b.setdefault(nm.id, []).append(None)
                elif isinstance(n, ast.AnnAssign) and isinstance(n.target, ast.Name):
                    b.setdefault(n.target.id, []).append(n.value)
                elif isinstance(n, ast.Name) and isinstance(n.ctx, (ast.Store, ast.Del)):
                    b.setdefault(n.id, [])
                    # marked non-simple unless an Assign handler adds a value
                elif isinstance(n, ast.ExceptHandler) and n.name:
                    b.setdefault(n.name, []).append(None)
                elif isinstance(n, ast.NamedExpr) and isinstance(n.target, ast.Name):
                    b.setdefault(n.target.id, []).append(n.value)
            # names stored by for/with/aug etc. have empty list or only values from
            # Assign; detect non-Assign stores
            assign_targets = set()
            for n in scope.own_nodes():
                if isinstance(n, ast.Assign):
                    for t in n.targets:
                        if isinstance(t, ast.Name):
                            assign_targets.add(id(t))
                elif isinstance(n, ast.AnnAssign) and isinstance(n.target, ast.Name):
                    assign_targets.add(id(n.target))
                elif isinstance(n, ast.NamedExpr) and isinstance(n.target, ast.Name):
                    assign_targets.add(id(n.target))
            for n in scope.own_nodes():
                if (
                    isinstance(n, ast.Name)
                    and isinstance(n.ctx, ast.Store)
                    and id(n) not in assign_targets
                ):
                    b.setdefault(n.id, []).append(None)
        scope._bind_cache = b
        return b

    def resolve_name(self, name: str, scope: Def | None, m: Module, _depth=0) -> Target:
        """Resolve a bare name seen inside ``scope`` (a function Def or None)."""
        d = scope
        first = True
        while d is not None:
            if d.kind == "class":
                # class scope is visible only to code directly in the class body
                if first and name in d.children:
                    return Target("def", d.children[name])
                d = d.parent
                first = False
                continue
            first = False
            if name in d.children:
                return Target("def", d.children[name])
            if name in d.local_imports:
                return self.canon(d.local_imports[name])
            binds = self._local_bindings(d)
            if name in binds:
                vals = binds[name]
                if name in d.params:
                    return Target("param", f"{d.qual}:{name}")
                if vals and all(v is not None for v in vals) and _depth < 4:
                    # alias of function(s)?  single simple RHS only
                    if len(vals) == 1:
                        ts = self.resolve_value(vals[0], d, m, _depth + 1)
                        if len(ts) == 1 and ts[0].kind in ("def", "module", "ext"):
                            return ts[0]
                return Target("local", f"{d.qual}:{name}")
            d = d.parent
        if name in m.defs:
            return Target("def", m.defs[name])
        if name in m.imports:
            return self.canon(m.imports[name])
        if name in m.assigns:
            return self.canon(f"{m.qual}.{name}")
        if name in BUILTINS:
            return Target("builtin", name)
        return Target("unknown", name)

    def resolve_name_chain(self, chain: str, scope: Def | None, m: Module) -> Target:
        head, _, rest = chain.partition(".")
        t = self.resolve_name(head, scope, m)
        if not rest:
            return t
        for part in rest.split("."):
            if t.kind == "module":
                t = self.canon(f"{t.ref}.{part}")
            elif t.kind == "ext":
                t = Target("ext", f"{t.ref}.{part}")
            elif t.kind == "def" and t.ref.kind == "class":
                a = self.class_attr(t.ref, part)
                t = Target("def", a) if a else Target("unknown", f"{t.ref.qual}.{part}")
            elif t.kind == "builtin":
                t = Target("builtin", f"{t.ref}.{part}")
            else:
                return Target("attr", f"{t.qual}.{part}")
        return t

    def resolve_value(self, e: ast.AST, scope: Def | None, m: Module, _depth=0) -> list[Target]:
        """Resolve an expression used as a *function value* (callee or registration)."""
        if isinstance(e, ast.Name):
            t = self.resolve_name(e.id, scope, m, _depth)
            if t.kind == "local" and _depth < 4:
                # local alias with several simple right-hand sides (if/elif assignment)
                owner = self.defs.get(str(t.ref).rpartition(":")[0])
                if owner is not None:
                    vals = self._local_bindings(owner).get(e.id, [])
                    if vals and all(v is not None for v in vals):
                        out = []
                        for v in vals:
                            out += self.resolve_value(v, owner, m, _depth + 1)
                        if out and all(x.kind in ("def", "ext", "module") for x in out):
                            return out
            return [t]
        if isinstance(e, ast.Lambda):
            d = self.def_of_node(e)
            return [Target("def", d)] if d else [Target("unknown", "<lambda>")]
        if isinstance(e, ast.IfExp):
            return self.resolve_value(e.body, scope, m, _depth) + self.resolve_value(
                e.orelse, scope, m, _depth
            )
        if isinstance(e, ast.BoolOp):
            out = []
            for v in e.values:
                out += self.resolve_value(v, scope, m, _depth)
            return out
        if isinstance(e, ast.Call):
            # partial(f, ...) and the repo's decorator-like wrappers look through
            c = attr_chain(e.func)
            if c is not None:
                t = self.resolve_name_chain(c, scope, m)
                if t.kind == "ext" and t.ref in ("functools.partial",) and e.args:
                    return self.resolve_value(e.args[0], scope, m, _depth)
                if t.kind == "def" and t.ref.is_func:
                    ret = self._returned_wrappers(t.ref, e, scope, m, _depth)
                    if ret:
                        return ret
            return [Target("dyn", ast.dump(e.func)[:60])]
        if isinstance(e, ast.Attribute):
            return self._resolve_attr(e, scope, m)
        return [Target("unknown", type(e).__name__)]

    def _returned_wrappers(self, f: Def, call: ast.Call, scope, m, _depth) -> list[Target]:
        """If ``f`` returns one of its nested defs (a wrapper/closure factory) return it,
        plus the function-valued argument it wraps (wrapper looks-through)."""
        if _depth > 3:
            return []
        out: list[Target] = []
        for n in f.own_nodes():
            if isinstance(n, ast.Return) and n.value is not None:
                for v in [n.value] + (
                    [n.value.body, n.value.orelse] if isinstance(n.value, ast.IfExp) else []
                ):
                    if isinstance(v, ast.Name) and v.id in f.children:
                        out.append(Target("def", f.children[v.id]))
                    elif isinstance(v, ast.Call):
                        c = attr_chain(v.func)
                        if c:
                            t = self.resolve_name_chain(c, f, f.module)
                            if t.kind == "ext" and t.ref == "functools.partial" and v.args:
                                out += self.resolve_value(v.args[0], f, f.module, _depth + 1)
        return out

    def _resolve_attr(self, e: ast.Attribute, scope: Def | None, m: Module) -> list[Target]:
        chain = attr_chain(e)
        if chain is not None:
            head = chain.split(".")[0]
            if head in ("self", "cls") and scope is not None:
                cls = scope.enclosing_class
                parts = chain.split(".")
                if cls is not None and len(parts) == 2:
                    a = self.class_attr(cls, parts[1])
                    if a is not None:
                        return [Target("def", a)]
                    # may be defined by subclasses (template method)
                    subs = [
                        s.children[parts[1]]
                        for s in self.subclasses(cls)
                        if parts[1] in s.children
                    ]
                    if subs:
                        return [Target("def", s) for s in subs]
                    return [Target("selfattr", chain)]
            t = self.resolve_name_chain(chain, scope, m)
            if t.kind in ("def", "module", "ext", "builtin"):
                return [t]
        # super().__init__ etc.
        if (
            isinstance(e.value, ast.Call)
            and isinstance(e.value.func, ast.Name)
            and e.value.func.id == "super"
            and scope is not None
        ):
            cls = scope.enclosing_class
            if cls is not None:
                for b in self.mro(cls)[1:]:
                    if e.attr in b.children:
                        return [Target("def", b.children[e.attr])]
            return [Target("ext", f"super.{e.attr}")]
        # receiver with known external origin
        recv = e.value
        rc = attr_chain(recv)
        if rc is not None:
            rt = self.resolve_name_chain(rc, scope, m)
            if rt.kind in ("ext", "builtin", "module"):
                return [Target("ext", f"{rt.qual}.{e.attr}")]
        if isinstance(recv, (ast.Constant, ast.JoinedStr, ast.List, ast.Dict, ast.Tuple, ast.Set, ast.ListComp, ast.DictComp, ast.SetComp)):
            return [Target("ext", f"<literal>.{e.attr}")]
        # method-name dispatch over repo classes
        cands = self.methods_by_name.get(e.attr, [])
        if e.attr.startswith("__") and e.attr.endswith("__"):
            # explicit dunder call on a receiver of unknown type: same treatment as the
            # operator form (x[key], x + y), which is not a call edge either
            cands = []
        if cands:
            return [Target("def", c) for c in cands] + [Target("method?", e.attr)]
        return [Target("method", e.attr)]

    def resolve_call(self, call: ast.Call, scope: Def | None, m: Module) -> list[Target]:
        key = id(call)
        if key in self._callcache:
            return self._callcache[key]
        ts = self.resolve_value(call.func, scope, m)
        out = []
        for t in ts:
            if t.kind == "def" and t.ref.kind == "class":
                init = self.class_attr(t.ref, "__init__")
                out.append(Target("class", t.ref))
                if init is not None:
                    out.append(Target("def", init))
            else:
                out.append(t)
        self._callcache[key] = out
        return out

    # -- conveniences for rules ----------------------------------------------
    def calls_in(self, d: Def) -> list[tuple[ast.Call, list[Target]]]:
        out = []
        for n in d.own_nodes():
            if isinstance(n, ast.Call):
                out.append((n, self.resolve_call(n, d, d.module)))
        return out

    def callee_quals(self, call: ast.Call, d: Def) -> set[str]:
        return {
            t.qual for t in self.resolve_call(call, d, d.module) if t.kind in ("def", "ext", "class", "builtin")
        }

    def calls_to(self, d: Def, *quals: str) -> list[ast.Call]:
        """Call nodes in ``d`` (own body) that may resolve to one of ``quals``."""
        qs = set(quals)
        out = []
        for c, ts in self.calls_in(d):
            if any(t.qual in qs for t in ts if t.kind in ("def", "ext", "class", "builtin")):
                out.append(c)
        return out

    def enclosing_def(self, m: Module, node: ast.AST) -> Def | None:
        """Find the innermost Def whose own body contains ``node`` (slow; for reports)."""
        best = None
        for d in self.defs.values():
            if d.module is not m or not d.is_func:
                continue
            for n in d.own_nodes():
                if n is node:
                    return d
        return best

    def all_call_sites(self) -> Iterator[tuple[Def, ast.Call, list[Target]]]:
        for d in self.functions():
            for c, ts in self.calls_in(d):
                yield d, c, ts
        # module-level code
        for m in self.modules.values():
            for n in walk_own(m.tree):
                if isinstance(n, ast.Call):
                    yield None, n, self.resolve_call(n, None, m)

    def stats(self) -> dict:
        total = resolved = 0
        unresolved = {}
        for d, c, ts in self.all_call_sites():
            total += 1
            if any(t.kind in ("def", "ext", "class", "builtin", "module") for t in ts):
                resolved += 1
            else:
                k = ts[0].kind if ts else "none"
                unresolved[k] = unresolved.get(k, 0) + 1
        return {
            "modules": len(self.modules),
            "definitions": len(self.defs),
            "calls_total": total,
            "calls_resolved": resolved,
            "unresolved_kinds": unresolved,
        }


# -- public surface ----------------------------------------------------------


def static_all(repo: Repo, modq: str) -> list[str]:
    """Statically evaluate ``__all__`` of a module (Assign / AugAssign of list literals)."""
    m = repo.module(modq)
    out: list[str] = []
    seen = False
    for st in m.tree.body:
        tgt = val = None
        if isinstance(st, ast.Assign) and len(st.targets) == 1:
            tgt, val = st.targets[0], st.value
        elif isinstance(st, ast.AugAssign) and isinstance(st.op, ast.Add):
            tgt, val = st.target, st.value
        if isinstance(tgt, ast.Name) and tgt.id == "__all__":
            if not isinstance(val, (ast.List, ast.Tuple)):
                raise AnalysisError(f"{modq}.__all__ is not a literal list")
            for e in val.elts:
                s = const_str(e)
                if s is None:
                    raise AnalysisError(f"{modq}.__all__ has a non-constant entry")
                out.append(s)
            seen = True
    if not seen:
        raise AnalysisError(f"{modq} has no static __all__")
    return out


def public_functions(repo: Repo) -> dict[str, Def]:
    """Public API name → function Def (cubed, cubed.array_api, linalg, random)."""
    out: dict[str, Def] = {}
    for modq in (repo.pkg, f"{repo.pkg}.array_api"):
        for name in static_all(repo, modq):
            t = repo.canon(f"{modq}.{name}")
            if t.kind == "def" and t.ref.is_func:
                out[f"{modq}.{name}"] = t.ref
    for modq in (f"{repo.pkg}.array_api.linalg", f"{repo.pkg}.random"):
        m = repo.module(modq)
        for name, d in m.defs.items():
            if d.is_func and not name.startswith("_"):
                out[f"{modq}.{name}"] = d
        for name in m.imports:
            if name.startswith("_"):
                continue
            t = repo.canon(f"{modq}.{name}")
            if t.kind == "def" and t.ref.is_func and modq.endswith("linalg"):
                out[f"{modq}.{name}"] = t.ref
    return out


def public_methods(repo: Repo) -> dict[str, Def]:
    out: dict[str, Def] = {}
    for cq in (
        f"{repo.pkg}.core.array.CoreArray",
        f"{repo.pkg}.array_api.array_object.Array",
        f"{repo.pkg}.core.indexing.BlockView",
    ):
        c = repo.get(cq)
        for name, d in c.children.items():
            if d.kind != "func":
                continue
            if name.startswith("_") and not (name.startswith("__") and name.endswith("__")):
                continue
            out[f"{cq}.{name}"] = d
    return out


def scope_locals(d) -> frozenset[str]:
    """names local to function `d` or to an enclosing function (parameters, assigned names,
    loop/with/comprehension targets): renaming any of them is not a change of meaning"""
    out: set[str] = set()
    while d is not None and getattr(d, "is_func", False):
        out |= set(d.params)
        if getattr(d, "vararg", None):
            out.add(d.vararg)
        if getattr(d, "kwarg", None):
            out.add(d.kwarg)
        glob: set[str] = set()
        for n in d.own_nodes():
            if isinstance(n, ast.Name) and isinstance(n.ctx, (ast.Store, ast.Del)):
                out.add(n.id)
            elif isinstance(n, (ast.Global, ast.Nonlocal)):
                glob |= set(n.names)
            elif isinstance(n, ast.arg):
                out.add(n.arg)
        out -= glob
        d = d.parent
    return frozenset(out)


def anon(node: ast.AST, local: frozenset[str] = frozenset(), limit: int = 80) -> str:
    """source text of `node` with local names erased (`_`): stable under renaming"""
    import copy

    node = copy.deepcopy(node)
    for n in ast.walk(node):
        if isinstance(n, ast.Name) and n.id in local:
            n.id = "_"
        elif isinstance(n, ast.arg) and n.arg in local:
            n.arg = "_"
    try:
        t = ast.unparse(node)
    except Exception:  # noqa: BLE001
        t = type(node).__name__
    t = " ".join(t.split())
    return t if len(t) <= limit else t[: limit - 3] + "..."


def norm_dump(node: ast.AST, local: frozenset[str] = frozenset()) -> str:
    """ast.dump without positions, with local names α-renamed in first-use order and
    docstrings removed — the digest basis for finding keys.  `local` = names local to the
    enclosing function(s): they are α-renamed too, so a finding key survives a rename."""
    import copy

    node = copy.deepcopy(node)
    ren: dict[str, str] = {}
    for n in ast.walk(node):
        if isinstance(n, (ast.FunctionDef, ast.AsyncFunctionDef, ast.ClassDef, ast.Module)):
            if (
                n.body
                and isinstance(n.body[0], ast.Expr)
                and isinstance(n.body[0].value, ast.Constant)
                and isinstance(n.body[0].value.value, str)
            ):
                n.body = n.body[1:] or [ast.Pass()]
    stored = {
        n.id for n in ast.walk(node) if isinstance(n, ast.Name) and isinstance(n.ctx, ast.Store)
    } | set(local)
    stored |= {n.arg for n in ast.walk(node) if isinstance(n, ast.arg)}
    # deterministic first-use order: depth-first pre-order of the (normalised) tree — not
    # source positions, which the normal form of sa.canon does not preserve
    names = []

    def _pre(x):
        if isinstance(x, (ast.Name, ast.arg)):
            names.append(x)
        for c in ast.iter_child_nodes(x):
            _pre(c)

    _pre(node)
    for n in names:
        if isinstance(n, ast.Name) and n.id in stored:
            n.id = ren.setdefault(n.id, f"v{len(ren)}")
        elif isinstance(n, ast.arg) and n.arg in stored:
            n.arg = ren.setdefault(n.arg, f"v{len(ren)}")
    return ast.dump(node, include_attributes=False)


def digest_node(node: ast.AST, local: frozenset[str] = frozenset()) -> str:
    return hashlib.sha1(norm_dump(node, local).encode()).hexdigest()[:10]
