"""Component F: rule registry, obligations, known findings, evidence."""

from __future__ import annotations

import ast
import json
import os
import time
from dataclasses import dataclass, field
from typing import Callable

from . import VERIF_ROOT, AnalysisError
from .index import Def, Repo, anon, digest_node, scope_locals

KNOWN_FINDINGS_FILE = os.path.join(VERIF_ROOT, "known_findings.json")
EVIDENCE_DIR = os.path.join(VERIF_ROOT, "evidence")


@dataclass
class Ob:
    rule: str
    construct: str
    loc: str
    ok: bool
    msg: str
    key: str
    props: frozenset[str]
    nontrivial: bool = True
    exception: str | None = None  # reason if suppressed by the exception table
    firm: bool = False  # a failing verdict that rests on positive evidence (never "not decided")

    def sample(self) -> dict:
        return {
            "rule": self.rule,
            "construct": self.construct,
            "at": self.loc,
            "verdict": "exception" if self.exception else ("holds" if self.ok else "VIOLATED"),
            "obligation": self.msg,
        }


@dataclass
class RuleSpec:
    rid: str
    func: Callable
    props: tuple[str, ...]
    floor: int
    tier: str  # quick | thorough
    doc: str
    default_props: tuple[str, ...] = ()  # obligations without explicit props= belong to these


RULES: dict[str, RuleSpec] = {}

# Rules whose verdict is about the call graph itself, or that follow calls transitively by
# construction (effect closures): a new private callee is part of what they judge, never a
# reason not to decide.
FOLLOWS_CALLS = {"LAZY-ENTRY-1", "LAZY-CREATE-1", "TASK-PURE-1", "OWN-MUT-1", "COPY-MUT-1", "RESUME-PURE-1", "ASSERT-1"}

# (rule, construct[:selector]) -> one line of reason.  Never wider than one named symbol.
EXCEPTIONS: dict[tuple[str, str], str] = {}


def rule(rid: str, props, floor: int = 1, tier: str = "quick", default=None):
    """props: every property some obligation of the rule may belong to; default: the
    properties of obligations that do not say otherwise (default = props)"""

    def deco(f):
        if rid in RULES:
            raise RuntimeError(f"duplicate rule {rid}")
        RULES[rid] = RuleSpec(rid, f, tuple(props), floor, tier, (f.__doc__ or "").strip(), tuple(default or props))
        return f

    return deco


def exception(rid: str, construct: str, reason: str) -> None:
    EXCEPTIONS[(rid, construct)] = reason


class Ctx:
    """Handed to each rule function."""

    def __init__(self, repo: Repo, spec: RuleSpec, tier: str):
        self.repo = repo
        self.spec = spec
        self.tier = tier
        self.obs: list[Ob] = []
        self.notes: list[str] = []
        self._loc_cache: dict[str, frozenset] = {}

    def ob(
        self,
        where: Def | str,
        node: ast.AST | None,
        ok: bool,
        msg: str,
        *,
        sel: str | None = None,
        props=None,
        key_node: ast.AST | None = None,
        nontrivial: bool = True,
        loc: str | None = None,
        firm: bool = False,
    ) -> bool:
        construct = where.qual if isinstance(where, Def) else where
        if sel:
            construct = f"{construct}:{sel}"
        if loc is None:
            if isinstance(where, Def):
                ln = getattr(node, "lineno", None) or where.lineno
                loc = f"{where.module.relpath}:{ln}"
            else:
                loc = "?"
        kn = key_node if key_node is not None else node
        dg = digest_node(kn, self.locals_of(where)) if kn is not None else "-"
        key = f"{self.spec.rid}:{construct}:{dg}"
        exc = EXCEPTIONS.get((self.spec.rid, construct))
        p = frozenset(props) if props is not None else frozenset(self.spec.default_props)
        self.obs.append(
            Ob(self.spec.rid, construct, loc, bool(ok) or exc is not None, msg, key, p, nontrivial, exc if not ok else None, bool(firm))
        )
        return bool(ok)

    def locals_of(self, where) -> frozenset:
        if not isinstance(where, Def):
            return frozenset()
        c = self._loc_cache.get(where.qual)
        if c is None:
            c = self._loc_cache[where.qual] = scope_locals(where)
        return c

    def anon(self, where, node, limit: int = 80) -> str:
        """text of `node` with the local names of `where` erased — for selectors that must
        survive a rename of local variables"""
        return anon(node, self.locals_of(where), limit)

    def note(self, s: str) -> None:
        self.notes.append(s)

    def delegated(self, where: Def) -> list[str]:
        """private helpers `where` calls that the reference call table does not list for it:
        when a clause finds nothing in `where`, the thing may have moved there"""
        from .mkreference import new_private_callees

        return new_private_callees(self.repo, where.qual)

    def present(self, where: Def, found, what: str) -> bool:
        """`found` is what a clause looked for in `where`.  Found: True.  Not found and `where`
        delegates to helpers the rule was never confirmed against: ANALYSIS-ERROR.  Not found
        and nothing new is delegated: False — the absence is established, the caller reports
        the violation."""
        if found:
            return True
        new = self.delegated(where)
        if new:
            raise AnalysisError(f"[{self.spec.rid}] {what} — not found in {where.name}, which now delegates to {', '.join(new)} (not followed)")
        return False

    def need(self, cond, what: str):
        """Anchor assertion: failing it means the checker no longer understands the code."""
        if not cond:
            raise AnalysisError(f"[{self.spec.rid}] {what}")
        return cond


def load_known_findings() -> list[dict]:
    if not os.path.exists(KNOWN_FINDINGS_FILE):
        return []
    with open(KNOWN_FINDINGS_FILE) as f:
        data = json.load(f)
    return data.get("findings", [])


def match_known(ob: Ob, prop: str, known: list[dict]) -> dict | None:
    for k in known:
        if k.get("status") != "known":
            continue  # fixed entries suppress nothing
        if prop not in k.get("properties", []):
            continue
        if ob.key in k.get("keys", []):
            return k
        # the finding described as a pattern over keys (the defective statement rewritten in
        # place — other spelling, other local structure — is still the same finding)
        import fnmatch

        if any(fnmatch.fnmatchcase(ob.key, pat) for pat in k.get("patterns", [])):
            return k
        # the same construct after the enclosing private function was split or renamed inside
        # its module: same rule, same selector and digest, other function of the same module
        rid, _, rest = ob.key.partition(":")
        construct, _, tail = rest.partition(":")
        for kk in k.get("keys", []):
            rid2, _, rest2 = kk.partition(":")
            construct2, _, tail2 = rest2.partition(":")
            if rid == rid2 and tail == tail2 and construct != construct2 and _same_module(construct, construct2):
                return k
    return None


def _same_module(q1: str, q2: str) -> bool:
    """two qualified function names of one module (cubed.core.ops._store_array /
    cubed.core.ops._retarget_lazy_array); a private name on at least one side"""
    m1, _, n1 = q1.rpartition(".")
    m2, _, n2 = q2.rpartition(".")
    return m1 == m2 and (n1.startswith("_") or n2.startswith("_"))


@dataclass
class Result:
    prop: str
    tier: str
    obs: list[Ob] = field(default_factory=list)
    violations: list[Ob] = field(default_factory=list)
    known: list[tuple[Ob, dict]] = field(default_factory=list)
    rules_run: dict = field(default_factory=dict)
    notes: list[str] = field(default_factory=list)
    errors: list[str] = field(default_factory=list)
    wall_s: float = 0.0


def run_property(repo: Repo, prop: str, tier: str, only_rules=None) -> Result:
    from . import rules as _rules  # noqa: F401  (registers everything)

    t0 = time.time()
    res = Result(prop, tier)
    known = load_known_findings()
    specs = [
        s
        for s in RULES.values()
        if prop in s.props and (tier == "thorough" or s.tier == "quick")
    ]
    if only_rules:
        specs = [s for s in specs if s.rid in only_rules]
    if not specs:
        raise AnalysisError(f"no rules registered for {prop}")
    for s in specs:
        ctx = Ctx(repo, s, tier)
        # A rule whose anchors vanished does not stop the other rules of the property: a
        # violation another rule can still see is reported (exit 1) together with the
        # ANALYSIS-ERROR lines; with no violation the property's run is analysis-broken
        # (exit 2).  What the failing rule judged before it lost its footing stands.
        try:
            s.func(ctx)
            if len(ctx.obs) < s.floor and all(o.ok for o in ctx.obs):
                # (a rule that already reports a violation may stop early; that is a
                # verdict, not a vanished anchor)
                raise AnalysisError(
                    f"only {len(ctx.obs)} instance(s) found, floor is {s.floor}: "
                    "the rule's anchors no longer match the code"
                )
        except AnalysisError as e:
            msg = str(e)
            res.errors.append(msg if msg.startswith(f"[{s.rid}]") else f"[{s.rid}] {msg}")
        except Exception as e:  # noqa: BLE001  (a crash inside a rule is an analysis error of that rule)
            import traceback

            tb = traceback.extract_tb(e.__traceback__)[-1]
            res.errors.append(f"[{s.rid}] internal: {type(e).__name__}: {e} ({os.path.basename(tb.filename)}:{tb.lineno})")
        mine = [o for o in ctx.obs if prop in o.props]
        viol = known_n = exc_n = 0
        undecided = []
        for o in mine:
            if o.exception:
                exc_n += 1
            elif not o.ok:
                k = match_known(o, prop, known)
                if k is not None:
                    res.known.append((o, k))
                    known_n += 1
                    continue
                # A shape rule that does not find what it looks for in f decides nothing when
                # f now hands work to a private helper the rule was never confirmed against
                # (sa/reference_calls.json): the thing may simply have moved there.
                if s.rid not in FOLLOWS_CALLS and not o.firm:
                    from .mkreference import new_private_callees

                    fq = o.construct.split(":", 1)[0]
                    new = new_private_callees(repo, fq)
                    if new:
                        undecided.append(o)
                        head = f"[{s.rid}] not decided for {fq.rsplit('.', 1)[-1]}: it now delegates to private helper(s) {', '.join(new)} not in the reference call table — clause(s): "
                        prev = [i for i, e_ in enumerate(res.errors) if e_.startswith(head)]
                        if prev:
                            if res.errors[prev[0]].count(" | ") < 2:
                                res.errors[prev[0]] += " | " + o.msg[:70]
                        else:
                            res.errors.append(head + o.msg[:110])
                        continue
                res.violations.append(o)
                viol += 1
        mine = [o for o in mine if o not in undecided]
        res.obs += mine
        res.notes += [f"[{s.rid}] {n}" for n in ctx.notes]
        res.rules_run[s.rid] = {
            "instances_all_properties": len(ctx.obs),
            "instances": len(mine),
            "floor": s.floor,
            "exceptions": exc_n,
            "known_findings": known_n,
            "violations": viol,
            "what": s.doc.split("\n")[0],
        }
    res.wall_s = time.time() - t0
    if res.errors and not res.violations:
        raise AnalysisError("; ".join(res.errors))
    return res


def write_evidence(repo: Repo, res: Result, seed: int, extra: dict | None = None) -> str:
    os.makedirs(EVIDENCE_DIR, exist_ok=True)
    st = repo.stats()
    obs = res.obs
    distinct = {o.key for o in obs if o.nontrivial}
    discharged = sum(1 for o in obs if o.ok)
    # samples: a few per rule, violations/known first
    samples = []
    per_rule: dict[str, int] = {}
    for o in sorted(obs, key=lambda o: (o.ok, o.rule)):
        if per_rule.get(o.rule, 0) >= 4 and o.ok:
            continue
        per_rule[o.rule] = per_rule.get(o.rule, 0) + 1
        samples.append(o.sample())
    cov = {
        "explanation": (
            "Static analysis of /repo's current source (ast, CFG/dominators, def-use, "
            "call graph, effect summaries); nothing from cubed is imported or run. "
            "Rules applied: "
            + "; ".join(f"{r}: {v['what']}" for r, v in res.rules_run.items())
        ),
        "obligations": len(obs),
        "discharged": discharged,
        "evaluations": len(obs),
        "distinct_nontrivial": len(distinct),
        "rule": (
            "one obligation per rule instance (call site / CFG / function / sibling pair) "
            "enumerated from the parsed tree; distinct = distinct finding keys "
            "(rule + qualified construct + digest of the normalised AST node); "
            "non-trivial = the rule's antecedent matched at that instance"
        ),
        "samples": samples[:60],
        "rules": res.rules_run,
        "known_findings": [
            {"key": o.key, "finding": k.get("id"), "at": o.loc} for o, k in res.known
        ],
        "modules_parsed": st["modules"],
        "functions_analysed": sum(1 for _ in repo.functions()),
        "calls_total": st["calls_total"],
        "calls_resolved": st["calls_resolved"],
        "source_digest": repo.digest(),
        "exhaustive": True,
        "notes": res.notes[:40],
    }
    if extra:
        cov.update(extra)
    ev = {
        "property_id": res.prop,
        "tier": res.tier,
        "seed": seed,
        "level": "other",
        "coverage": cov,
        "assumptions": [
            "user-supplied callables (block functions passed by users) are opaque",
            "third-party libraries (zarr, networkx, asyncio, numpy, tenacity) behave as documented",
            "attribute calls on receivers of unknown type are resolved by method name over "
            "repo classes (over-approximation); external receivers are classified by import table",
            "rules are necessary conditions of the property: passing them does not establish "
            "the value-level clauses listed as 'does not decide' in DESIGN.md",
        ],
        "wall_s": round(res.wall_s, 3),
        "violations": len(res.violations),
    }
    path = os.path.join(EVIDENCE_DIR, f"{res.prop}.json")
    tmp = path + ".tmp"
    with open(tmp, "w") as f:
        json.dump(ev, f, indent=1, sort_keys=False)
    os.replace(tmp, path)
    return path


def write_replay(res: Result, k: int, o: Ob) -> str:
    d = os.path.join(EVIDENCE_DIR, "replay")
    os.makedirs(d, exist_ok=True)
    path = os.path.join(d, f"{res.prop}-{k}.json")
    with open(path, "w") as f:
        json.dump(
            {
                "property": res.prop,
                "rule": o.rule,
                "construct": o.construct,
                "at": o.loc,
                "message": o.msg,
                "key": o.key,
            },
            f,
            indent=1,
        )
    return path
