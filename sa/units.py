"""Component G: unit (dimension) inference for integer index arithmetic.

Units: E elements along an axis, B block index / block count, C chunk size (E per B), R
blocks-per-block ratio (split_every, repeats), BYTES, N plain number, U unknown.  Containers
are transparent (a tuple of E has unit E; subscripting keeps the unit).  **Only a definite
clash between two known units is reported; unknown is silent.**
"""

from __future__ import annotations

import ast

from .flow import Flow
from .index import Def, Repo, attr_chain

E, B, C, R, BYTES, N, U = "E", "B", "C", "R", "BYTES", "N", "?"

ATTR_UNITS = {
    "shape": E,
    "size": E,
    "numblocks": B,
    "npartitions": B,
    "nchunks": B,
    "nchunks_initialized": B,
    "chunksize": C,
    "chunks": C,
    "chunkmem": BYTES,
    "nbytes": BYTES,
    "itemsize": "ITEM",
    "coords": B,
    "chunk_coords": B,
    "ndim": N,
    "start": E,
    "stop": E,
}
NAME_UNITS = {
    # conventional names of the repo's block functions / key functions
    "block_id": B,
    "out_coords": B,
    "in_coords": B,
    "numblocks": B,
    "split_every": R,
    "repeats": R,
    "chunks": C,
    "chunksize": C,
    "shape": E,
}
FUNC_UNITS = {
    "to_chunksize": C,
    "normalize_chunks": C,
    "largest_chunk": C,
    "compute_numblocks": B,
    "array_memory": BYTES,
    "chunk_memory": BYTES,
    "array_size": E,
    "normalize_shape": E,
    "itemsize": "ITEM",
}
ADD_CLASS = {E: "elem", C: "elem", B: "blk", BYTES: "bytes", R: "ratio"}


# (function qual, parameter) -> unit, from keyword arguments at the call sites that register
# block functions (map_blocks(f, x, size=<expr>) seeds f's parameter `size`)
PARAM_SEEDS: dict[int, dict[tuple[str, str], str]] = {}


def seed_params(repo: Repo) -> None:
    if id(repo) in PARAM_SEEDS:
        return
    PARAM_SEEDS[id(repo)] = {}
    from .cfg import cfg_of
    from .flow import flow_of

    seeds: dict[tuple[str, str], set[str]] = {}
    for d, c, ts in repo.all_call_sites():
        if d is None or not c.keywords or not c.args:
            continue
        if not any(t.kind == "def" and t.ref.module.qual in ("cubed.core.ops", "cubed.array.overlap") for t in ts):
            continue
        funcs = []
        for a in c.args[:1]:
            for t in repo.resolve_value(a, d, d.module):
                if t.kind == "def" and t.ref.is_func:
                    funcs.append(t.ref)
        if not funcs:
            continue
        fl, cfg = flow_of(repo, d), cfg_of(d)
        if not cfg.has(c):
            continue
        u = Units(repo, d, fl)
        for k in c.keywords:
            if k.arg is None:
                continue
            for f in funcs:
                if k.arg in f.params:
                    try:
                        un = u.unit(k.value, cfg.node_of(c))
                    except RecursionError:
                        un = U
                    seeds.setdefault((f.qual, k.arg), set()).add(un)
    for key, us in seeds.items():
        known = sorted(u for u in us if u in (E, B, C, R, BYTES))
        if known:
            PARAM_SEEDS[id(repo)][key] = tuple(known)  # several = call sites disagree


class Units:
    def __init__(self, repo: Repo, d: Def, fl: Flow, choice: dict[str, str] | None = None):
        self.repo, self.d, self.fl = repo, d, fl
        self.choice = choice or {}  # parameter -> unit, when registrations disagree
        self.clashes: list[tuple[ast.AST, str]] = []

    def unit(self, e: ast.AST, at: int, depth: int = 6) -> str:
        if depth <= 0:
            return U
        u = self._unit(e, at, depth)
        return u

    def _unit(self, e, at, depth) -> str:
        un = lambda x: self.unit(x, at, depth - 1)
        if isinstance(e, ast.Constant):
            return N if isinstance(e.value, (int, float)) and not isinstance(e.value, bool) else U
        if isinstance(e, ast.Attribute):
            if e.attr in ATTR_UNITS:
                return ATTR_UNITS[e.attr]
            return U
        if isinstance(e, ast.Subscript):
            # dict lookups keep the dict's unit only for known ratio dicts
            return un(e.value)
        if isinstance(e, ast.Name):
            if id(e) in self.fl.comp_bind:
                it, path = self.fl.comp_bind[id(e)]
                if isinstance(it, ast.Call) and isinstance(it.func, ast.Name) and it.func.id == "enumerate":
                    if path == (0,):
                        return N
                    if path == (1,) and it.args:
                        return un(it.args[0])
                if isinstance(it, ast.Call) and isinstance(it.func, ast.Name) and it.func.id == "zip" and len(path) == 1 and isinstance(path[0], int) and path[0] < len(it.args):
                    return un(it.args[path[0]])
                if isinstance(it, ast.Call) and isinstance(it.func, ast.Name) and it.func.id == "range":
                    us = {un(a) for a in it.args} - {N, U}
                    return us.pop() if len(us) == 1 else (N if not us else U)
                if not path:
                    return un(it)
                return U
            sites = self.fl.rdefs(e.id, at)
            us = set()
            for s in sites:
                if s.kind == "param":
                    cands = PARAM_SEEDS.get(id(self.repo), {}).get((self.d.qual, s.name))
                    if cands:
                        us.add(self.choice.get(s.name, cands[0]))
                    else:
                        us.add(NAME_UNITS.get(s.name, U))
                elif s.kind in ("assign", "walrus") and s.value is not None:
                    us.add(self.unit(s.value, s.node, depth - 1))
                elif s.kind == "for" and s.value is not None:
                    it = s.value
                    if isinstance(it, ast.Call) and isinstance(it.func, ast.Name) and it.func.id == "enumerate":
                        us.add(N if s.index == (0,) else (self.unit(it.args[0], s.node, depth - 1) if it.args else U))
                    elif isinstance(it, ast.Call) and isinstance(it.func, ast.Name) and it.func.id == "zip" and len(s.index) == 1 and isinstance(s.index[0], int) and s.index[0] < len(it.args):
                        us.add(self.unit(it.args[s.index[0]], s.node, depth - 1))
                    elif isinstance(it, ast.Call) and isinstance(it.func, ast.Name) and it.func.id == "range":
                        r = {self.unit(a, s.node, depth - 1) for a in it.args} - {N, U}
                        us.add(r.pop() if len(r) == 1 else (N if not r else U))
                    elif not s.index:
                        us.add(self.unit(it, s.node, depth - 1))
                    else:
                        us.add(U)
                elif s.kind == "unpack" and s.value is not None:
                    src = self.fl._unpack_source(s)
                    us.add(self.unit(src, s.node, depth - 1) if src is not None else self.unit(s.value, s.node, depth - 1) if isinstance(s.value, (ast.Attribute, ast.Name)) else U)
                else:
                    us.add(U)
            if not sites:
                # free variable of an enclosing function or global
                if e.id in NAME_UNITS:
                    return NAME_UNITS[e.id]
                return self._free(e.id, depth)
            us.discard(None)
            if len(us) == 1:
                return us.pop()
            known = us - {U}
            return known.pop() if len(known) == 1 and len(us) == 2 and False else U
        if isinstance(e, ast.Call):
            fn = attr_chain(e.func) or ""
            last = fn.split(".")[-1]
            if last in FUNC_UNITS:
                return FUNC_UNITS[last]
            if last in ("get", "pop") and isinstance(e.func, ast.Attribute) and isinstance(e.func.value, ast.Name):
                return un(e.func.value)  # dict of per-axis values keeps its unit
            if last == "len":
                a = e.args[0] if e.args else None
                # len(x.chunks[i]) = number of blocks ; len(shape) = ndim
                if a is not None and isinstance(a, ast.Subscript) and un(a.value) == C:
                    return B
                return N
            if last == "sum":
                a = e.args[0] if e.args else None
                if a is not None and un(a) == C:
                    return E
                return un(a) if a is not None else U
            if last in ("min", "max"):
                args = list(e.args)
                if len(args) == 1 and isinstance(args[0], (ast.GeneratorExp, ast.ListComp)):
                    return un(args[0].elt)
                us = [un(a) for a in args]
                return self._same(e, us, last)
            if last in ("int", "ceil", "floor", "abs", "round", "tuple", "list", "sorted", "reversed"):
                return un(e.args[0]) if e.args else U
            if last == "prod":
                return U
            return U
        if isinstance(e, ast.BinOp):
            l, r = un(e.left), un(e.right)
            return self._binop(e, l, r)
        if isinstance(e, ast.UnaryOp):
            return un(e.operand)
        if isinstance(e, ast.IfExp):
            a, b = un(e.body), un(e.orelse)
            return a if a == b else (a if b in (N, U) else b if a in (N, U) else U)
        if isinstance(e, (ast.Tuple, ast.List)):
            us = {un(x) for x in e.elts} - {N}
            return us.pop() if len(us) == 1 else U
        if isinstance(e, (ast.GeneratorExp, ast.ListComp)):
            return un(e.elt)
        if isinstance(e, ast.Compare):
            us = [un(e.left)] + [un(c) for c in e.comparators]
            self._same(e, us, "compare")
            return N
        return U

    def _free(self, name: str, depth: int) -> str:
        d = self.d.parent
        while d is not None and d.is_func:
            from .flow import flow_of

            pfl = flow_of(self.repo, d)
            vals = [s for ss in pfl.sites.values() for s in ss if s.name == name]
            if vals:
                us = set()
                pu = Units(self.repo, d, pfl)
                for s in vals:
                    if s.kind == "param":
                        us.add(NAME_UNITS.get(name, U))
                    elif s.kind == "assign" and s.value is not None:
                        us.add(pu.unit(s.value, s.node, depth - 1))
                    else:
                        us.add(U)
                known = us - {U}
                # a closure variable whose known definitions agree
                return known.pop() if len(known) == 1 else U
            d = d.parent
        return U

    def _same(self, node, us, what) -> str:
        cls = {ADD_CLASS[u] for u in us if u in ADD_CLASS}
        if len(cls) >= 2 and not ({"ratio"} & cls and len(cls) == 2 and "blk" in cls):
            self.clashes.append((node, f"{what} of {' and '.join(sorted(set(u for u in us if u in ADD_CLASS)))}"))
            return U
        known = [u for u in us if u in ADD_CLASS]
        if known:
            return E if E in known else known[0]
        return N if all(u == N for u in us) else U

    def _binop(self, node, l, r) -> str:
        op = node.op
        if isinstance(op, (ast.Add, ast.Sub)):
            if l in (N, U) or r in (N, U):
                return r if l in (N,) else l if r in (N,) else U
            return self._same(node, [l, r], "+" if isinstance(op, ast.Add) else "-")
        if isinstance(op, ast.Mult):
            s = {l, r}
            if N in s:
                return (s - {N}).pop() if len(s) == 2 else N
            if U in s:
                return U
            if s == {B, C}:
                return E
            if s == {B, R} or s == {R}:
                return B if B in s else R
            if s == {E, R} or s == {C, R}:
                return E
            if s == {"ITEM", E} or s == {"ITEM", C}:
                return BYTES
            if BYTES in s and s <= {BYTES, R}:
                return BYTES
            if s == {B} or s == {B, E}:
                self.clashes.append((node, f"product of {l} and {r}"))
                return U
            return U
        if isinstance(op, (ast.FloorDiv, ast.Div)):
            if r == N:
                return l
            if l in (E,) and r == C:
                return B
            if l == B and r == R:
                return B
            if l == BYTES and r in ("ITEM",):
                return E
            if l == BYTES and r == BYTES:
                return N
            if l == B and r == C:
                self.clashes.append((node, "block index divided by a chunk size"))
                return U
            return U
        if isinstance(op, ast.Mod):
            if l == E and r == C:
                return E
            if l == B and r == R:
                return B
            if l == B and r == C:
                self.clashes.append((node, "block index modulo a chunk size"))
                return U
            return U if r != N else l
        return U
