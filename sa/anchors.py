"""Qualified names of the anchor constructs (interface names the whole code base and its
tests depend on).  A missing anchor raises AnalysisError (exit 2)."""

PLAN = "cubed.core.plan"
ARRAY = "cubed.core.array"
OPS = "cubed.core.ops"
OPT = "cubed.core.optimization"
PBW = "cubed.primitive.blockwise"
PMEM = "cubed.primitive.memory"
PTYPES = "cubed.primitive.types"
RT_ASYNC = "cubed.runtime.asyncio"
RT_LOCAL = "cubed.runtime.executors.local"
RT_PIPE = "cubed.runtime.pipeline"
RT_UTILS = "cubed.runtime.utils"
RT_TYPES = "cubed.runtime.types"
RT_BACKUP = "cubed.runtime.backup"
SPEC = "cubed.spec"
UTILS = "cubed.utils"
ST_ZARR = "cubed.storage.zarr"
ST_STORE = "cubed.storage.store"
ST_V3 = "cubed.storage.stores.zarr_python_v3"
ST_ZARRS = "cubed.storage.stores.zarrs_python"
ST_VIRTUAL = "cubed.storage.virtual"
CREATION = "cubed.array_api.creation_functions"
MANIP = "cubed.array_api.manipulation_functions"
SEARCH = "cubed.array_api.searching_functions"
AOBJ = "cubed.array_api.array_object"
INDEXING = "cubed.core.indexing"
RANDOM = "cubed.random"

FP = f"{PLAN}.FinalizedPlan"
FP_EXECUTE = f"{FP}.execute"
FP_VALIDATE = f"{FP}.validate"
FP_INIT = f"{FP}.__init__"
PLAN_FINALIZE = f"{PLAN}.Plan._finalize"
PLAN_NEW = f"{PLAN}.Plan._new"
FIND_EXCEEDING = f"{PLAN}.Plan._find_ops_exceeding_memory"
CREATE_LAZY = f"{PLAN}.Plan._create_lazy_zarr_arrays"
COMPUTE = f"{ARRAY}.compute"
CORE_COMPUTE = f"{ARRAY}.CoreArray.compute"
DAG_EXECUTOR = f"{RT_TYPES}.DagExecutor"


# Private helpers (and module-internal functions) the rules are anchored in.  If one of them
# is moved inside the package, turned from a method into a function (or back), or gains/loses
# its leading underscore, the index files it under the name below (index.Repo._relocated);
# anything else that vanishes is an ANALYSIS-ERROR.
RELOCATABLE = [
    f"{PLAN}.Plan._find_ops_exceeding_memory",
    f"{PLAN}.Plan._create_lazy_zarr_arrays",
    f"{PLAN}.Plan._compile_blockwise",
    f"{PLAN}.FinalizedPlan._calculate_stats",
    f"{PLAN}.already_computed",
    f"{PLAN}.create_zarr_array",
    f"{PLAN}.create_zarr_arrays",
    f"{PLAN}.intermediate_store",
    f"{PLAN}.delete_on_exit",
    f"{RT_PIPE}.skip_node",
    f"{RT_ASYNC}.pipeline_to_stream",
    f"{OPS}._store_array",
    f"{OPS}._general_blockwise",
    f"{OPS}._partial_reduce",
    f"{OPS}._rechunk",
    f"{OPS}.split_chunks",
    f"{OPS}.split_chunksizes",
    f"{PBW}._map_nested_impl",
    f"{PBW}._apply_blockwise_key_func_to_chunk_key",
    f"{PBW}.apply_blockwise_key_func",
    f"{PBW}.apply_blockwise_func",
    f"{PBW}.peak_projected_mem",
    f"{PBW}.can_fuse_multiple_primitive_ops",
    f"{PBW}.fuse_blockwise_specs",
    f"{PBW}.get_chunk",
    f"{RANDOM}._random",
    f"{CREATION}._like_args",
    f"{RT_LOCAL}.unpickle_and_call",
    f"{RT_LOCAL}.threads_create_futures_func",
    f"{RT_LOCAL}.processes_create_futures_func",
    f"{RT_BACKUP}.should_launch_backup",
    f"{ARRAY}.check_array_specs",
    f"{OPT}.can_fuse_predecessors",
    f"{OPT}.fuse_predecessors",
    f"{OPT}.predecessor_ops_and_arrays",
    f"{OPS}._rechunk_plan",
    "cubed.core.rechunk._fix_copy_chunks",
    "cubed.core.rechunk._multspace",
    "cubed.core.rechunk.calculate_regular_stage_chunks",
]

# Renamed private helpers are found by the role they play: {anchor: (stable caller, strings that
# must all occur in the candidate's AST dump)}.  Exactly one private / same-module callee of the
# caller must match, otherwise the anchor stays missing (ANALYSIS-ERROR).
ROLE_OF = {
    f"{PLAN}.Plan._find_ops_exceeding_memory": (f"{PLAN}.Plan._finalize", ("projected_mem", "allowed_mem")),
    f"{RT_PIPE}.skip_node": (f"{RT_PIPE}.visit_nodes", ("'pipeline'", "'computed'")),
    f"{RT_ASYNC}.pipeline_to_stream": (f"{RT_ASYNC}.async_map_dag", ("async_map_unordered", "mappable")),
    f"{OPS}._store_array": (f"{OPS}.store", ("target_store", "region")),
    f"{PLAN}.already_computed": (f"{PLAN}.FinalizedPlan.execute", ("nchunks_initialized",)),
    f"{OPS}._partial_reduce": (f"{OPS}.partial_reduce", ("concat", "keepdims")),
    f"{OPS}._general_blockwise": (f"{OPS}.general_blockwise", ("in_names", "target_names")),
}
ROLE_OF.update(
    {
        f"{PBW}._apply_blockwise_key_func_to_chunk_key": (f"{PBW}.apply_blockwise_key_func", ("FunctionArgs", "output_name")),
        f"{PBW}._map_nested_impl": (f"{PBW}.map_nested", ("Iterator",)),
        f"{CREATION}._like_args": (f"{CREATION}.zeros_like", ("chunks", "spec", "dtype")),
        f"{PLAN}.Plan._create_lazy_zarr_arrays": (f"{PLAN}.Plan._finalize", ("LazyZarrArray", "create_zarr_arrays")),
        f"{PLAN}.delete_on_exit": (f"{PLAN}.intermediate_store", ("atexit", "rmtree")),
        "cubed.core.rechunk._fix_copy_chunks": ("cubed.core.rechunk.multistage_regular_rechunking_plan", ("Mod()", "FloorDiv()", "zip")),
        "cubed.core.rechunk._multspace": ("cubed.core.rechunk.multspace", ("geomspace",)),
        f"{OPS}._rechunk_plan": (f"{OPS}.rechunk", ("Yield", "allow_irregular")),
    }
)


_ANCHOR_QUALS: list[set[str]] = []


def anchor_quals() -> set[str]:
    """Every qualified name the rules may ask the index for: the string values of this module
    and the string literals / f-strings over `A.<NAME>` in sa/rules/*.py.  Used only to decide
    which moved-and-re-exported functions keep their anchor name (index._apply_relocations)."""
    import ast
    import glob
    import os

    if _ANCHOR_QUALS:
        return _ANCHOR_QUALS[0]
    env = {k: v for k, v in globals().items() if isinstance(v, str) and k.isupper()}
    out = {v for v in env.values() if v.startswith("cubed.")}
    here = os.path.dirname(os.path.abspath(__file__))
    for path in sorted(glob.glob(os.path.join(here, "rules", "*.py"))) + [os.path.abspath(__file__)]:
        tree = ast.parse(open(path).read())
        for n in ast.walk(tree):
            if isinstance(n, ast.Constant) and isinstance(n.value, str) and n.value.startswith("cubed.") and " " not in n.value:
                out.add(n.value)
            elif isinstance(n, ast.JoinedStr):
                parts = []
                for v in n.values:
                    if isinstance(v, ast.Constant):
                        parts.append(str(v.value))
                    elif isinstance(v, ast.FormattedValue) and v.format_spec is None and v.conversion == -1:
                        e = v.value
                        nm = e.attr if isinstance(e, ast.Attribute) and isinstance(e.value, ast.Name) and e.value.id == "A" else (e.id if isinstance(e, ast.Name) else None)
                        if nm in env:
                            parts.append(env[nm])
                        else:
                            parts = None
                            break
                    else:
                        parts = None
                        break
                if parts:
                    q = "".join(parts)
                    if q.startswith("cubed.") and " " not in q:
                        out.add(q)
    _ANCHOR_QUALS.append(out)
    return out
