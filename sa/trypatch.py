"""Apply a patch to a scratch copy of cubed/ and run the rules of the given properties on it.

    python -m sa.trypatch <patch.diff> C04 [C13 ...]     (no properties = all claimed)
"""

import os
import shutil
import subprocess
import sys
import tempfile

from . import AnalysisError
from .selftest import _copy_pkg


def try_patch(patch: str, props: list[str]) -> dict:
    from .index import Repo
    from .props import CLAIMED
    from .runner import run_property

    root = tempfile.mkdtemp(prefix="verif-try-")
    try:
        _copy_pkg(root)
        r = subprocess.run(["git", "apply", "--exclude=cubed/tests/*", "--include=cubed/*", "-p1", os.path.abspath(patch)], cwd=root, capture_output=True, text=True)
        if r.returncode != 0:
            return {"status": "patch-failed", "detail": r.stderr[-400:]}
        repo = Repo(root=root)
        out = {"fired": [], "errors": []}
        for p in props or CLAIMED:
            try:
                res = run_property(repo, p, "thorough")
                out["fired"] += [f"{p}:{o.rule} {o.loc} {o.construct}: {o.msg[:200]}" for o in res.violations]
            except AnalysisError as e:
                out["errors"].append(f"{p}: {e}")
        out["status"] = "caught" if out["fired"] else ("analysis-error" if out["errors"] else "missed")
        return out
    finally:
        shutil.rmtree(root, ignore_errors=True)


if __name__ == "__main__":
    res = try_patch(sys.argv[1], sys.argv[2:])
    print(res["status"])
    for f in res.get("fired", []):
        print("  ", f)
    for e in res.get("errors", []):
        print("  ERR", e)
    if res.get("detail"):
        print(res["detail"])
