"""Claimed properties and their MANIFEST metadata (single source of truth)."""

PROPS = {
    "C04": dict(
        technique="static analysis: CFG dominance (validate before executor entry), def-use on the final dag, who-may-call over the resolved call graph, effect summaries",
        text=(
            "Decides, from the source, that FinalizedPlan.execute cannot reach an executor or any "
            "storage-writing call without first passing validate(); that validate() raises whenever the "
            "over-budget list is non-empty; that the list is computed from the final dag with "
            "projected_mem > allowed_mem over every primitive op; that executors are entered only "
            "through that path; and that non-forced fusion is dominated by the peak-memory test. "
            "These are dominator / reaching-definition / call-graph facts and hold for every plan, "
            "memory setting and executor, which sampling tests cannot show."
        ),
        note=(
            "Necessary conditions only. Does not decide the truth of projected_mem itself (C03). "
            "Executors are opaque after the entry call; third-party libraries behave as documented."
        ),
        design="DESIGN.md §4 C04",
    ),
}

CLAIMED = list(PROPS)

NOT_APPLICABLE = {
    "C14": "all clauses are integer-arithmetic facts over an unbounded geometry domain (geomspace/floor/lcm rounding); no shape-of-code clause is a necessary condition; needs solver/proof/enumeration families (DESIGN.md §4 C14, §6)",
}
