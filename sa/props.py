"""Claimed properties and their MANIFEST metadata (single source of truth)."""

PROPS = {
    "C04": dict(
        technique="static analysis: CFG dominance (validate before executor entry), def-use on the final dag, who-may-call over the resolved call graph, effect summaries",
        text=(
            "Decides, from the source, that FinalizedPlan.execute cannot reach an executor or any "
            "storage-writing call without first passing validate(); that validate() raises whenever the "
            "over-budget list is non-empty; that the list is computed from the final dag with "
            "projected_mem > allowed_mem over every primitive op; that executors are entered only "
            "through that path; and that non-forced fusion is dominated by the peak-memory test. "
            "These are dominator / reaching-definition / call-graph facts and hold for every plan, "
            "memory setting and executor, which sampling tests cannot show."
                " FUSE-TWINLIST-1: the predecessor list shown to the admission test of fusion is built by the same expression as the list that is fused (no filter, no de-duplication on the test's side); MULTI-EDGE-1 / CHUNKMEM-1 as under C03."
    ),
        note=(
            "Necessary conditions only. Does not decide the truth of projected_mem itself (C03). "
            "Executors are opaque after the entry call; third-party libraries behave as documented."
        ),
        design="DESIGN.md §4 C04",
    ),
}

PROPS["C16"] = dict(
    technique="static analysis: transitive effect summaries over the resolved call graph (execute / storage create / write / delete) with guard propagation; who-may-call",
    text=(
        "Decides that no public constructor, composer, plan() or visualize() entry point (every name in "
        "cubed.__all__, cubed.array_api.__all__, linalg, random, and every public method/dunder of "
        "CoreArray/Array/BlockView) can reach an executor entry or a storage create/write call, and that "
        "the only call edges carrying such effects are the ones the property text allows, each under its "
        "stated condition (store/to_zarr only under `compute`, indexing only for cubed-array keys). "
        "An effect closure covers every path through every entry point at once; tests call a few dozen "
        "functions under a raise-if-computes executor."
            " A second rule (LAZY-IMPLICIT-1) covers implicit conversions: no builder truth-tests or converts a possibly-array parameter (`if a > b:` calls Array.__bool__, which computes). operator.index() of a parameter needs an isinstance check first."
    ),
    note=(
        "Call graph over-approximated by method name for unknown receivers; subscript expressions on "
        "cubed arrays (x[key]) are not call edges (indexing may compute by the property's own allowance); "
        "user callables and third-party code are opaque."
    ),
    design="DESIGN.md §4 C16",
)

PROPS["C08"] = dict(
    technique="static analysis: role discovery in the parallel map, monotone-container / pairing / check-and-set rules on its CFG and def-use chains; linear form of the retry bound",
    text=(
        "Decides the bookkeeping discipline of async_map_unordered on every path of its control-flow graph: "
        "containers indexed by in-flight futures are never rebound, every future added to `pending` is "
        "registered in the input and start-time maps, a failed task's exception is re-raised unless the twin "
        "map shows a live or successful twin, emission is guarded by a delivered-state check, a backup is "
        "launched only for a twin-less task and registered both ways, the loop exits only when `pending` is "
        "empty, and the thread retrier re-raises after retries+1 attempts. These hold for every schedule of "
        "completions, including the same-round interleavings that tests with real timers never hit."
            " Also: the original<->backup map is only ever changed symmetrically (MAP-TWIN-SYM-1), the batch refill sits between the wait and the next loop test, and the user's `retries` option reaches the retrier unmodified; the superseded check guards the re-raise as well as the emission (a twin handled earlier in the same round is not handled again). A failed task is set aside exactly when its twin exists and is still running or finished without exception (truth table over done()/exception()); the twin is marked delivered unconditionally; futures that are submitted are awaited (MAP-SUBMIT-1); the scheduling code never divides by an elapsed time (SCHED-DIV-1)."
            ' BATCH-COVER-1: the batching helper the map draws from hands out every input (no zip() grouper that drops the last short batch).'
    ),
    note="Does not decide timing thresholds of should_launch_backup, hangs inside asyncio, or IO fault behaviour of zarr/fsspec.",
    design="DESIGN.md §4 C08",
)

PROPS["C13"] = dict(
    technique="static analysis: dominance / post-dominance of notification call sites around the result-consuming loop in each local executor entry; common-origin (def-use) of num_tasks and the task iterable; accumulation coverage",
    text=(
        "Decides, for SingleThreadedExecutor.execute_dag and both modes of async_map_dag, that exactly one "
        "operation-start site dominates and one operation-end site post-dominates the loop that consumes an "
        "operation's results, that exactly one task-end dispatch sits inside that loop and none outside, that "
        "compute start/end bracket the executor call, that num_tasks and the task iterable of every "
        "PrimitiveOperation construction have one origin, that the plan total sums every primitive op, and "
        "(with MAP-ONCE-1) that the parallel map emits at most one result per input. Dominance facts cover "
        "every DAG, executor option and completion order; tests observe a handful of runs. The three dispatch helpers call the matching Callback method on every callback given (EVENTS-HELPERS-1); new futures registered in the input map are awaited and the batch refill submits the next batch exactly when there is one (MAP-SUBMIT-1); an explicit task iterable is re-iterable (COUNT-1)."
            ' A task-iterable class hands out a fresh iterator on every __iter__ (no one-shot iterator kept on the instance).'
    ),
    note="Third-party executors (lithops, dask, ray, modal, spark, coiled) are out of scope of this property; ThreadsExecutor/ProcessesExecutor reach async_map_dag, which is analysed.",
    design="DESIGN.md §4 C13",
)

PROPS["C07"] = dict(
    technique="static analysis: loop-scoped def-use of task streams (no escape from the iteration), CFG shape of the executor loops, traversal-source and barrier-edge rules on plan construction",
    text=(
        "Decides that in SingleThreadedExecutor.execute_dag and both modes of async_map_dag each operation's "
        "(generation's) task stream is created, fully consumed and dropped inside one iteration of the loop "
        "over operations, that operations come only from visit_nodes/visit_node_generations which traverse "
        "the whole dag in topological order filtered only by skip_node, that the parallel map ends only when "
        "no future is pending, that create-arrays is wired as a predecessor of every executable node, and "
        "that every array read by an operation is a graph predecessor of it. Together: on every schedule an "
        "operation starts only after its producers' streams were drained. An array node gets an edge from the operation node created with it; an operation is skipped on resume only after all of its outputs were found complete (RESUME-ALL-1)."
            ' The batch refill is gated by the batch state alone (no unrelated option in front of it).'
    ),
    note="asyncio / concurrent.futures scheduling and storage consistency are assumed as documented; FUSE-REWIRE-1 (C02) covers edge preservation through optimisation.",
    design="DESIGN.md §4 C07",
)

PROPS["C09"] = dict(
    technique="static analysis: for-all shape of the completeness scan (CFG), guarded/ordered marking on a graph copy (dominance + origins), open-or-create mode constants, config table, copy-before-mutate",
    text=(
        "Decides the resume decision logic: already_computed can return true only after the loop over all "
        "outputs completed, treats unequal initialised-chunk counts, zero-dimensional arrays, missing arrays "
        "and the create-arrays node as not computed and refuses storage that cannot report completeness; "
        "execute() writes `computed` marks only under `resume`, on a copy of the shared frozen graph, for "
        "every node, before the executor call; skip_node honours exactly that key with a falsy default; "
        "arrays are re-created with mode \"a\" and an open-on-exists fallback; every store backend writes empty "
        "chunks. These are facts about every crash point at once; a test can inject a handful. The resume decision is a read-only query (RESUME-PURE-1): nothing is remembered on plan nodes or target arrays."
            ' RESUME-PROVIDER-1: a storage class holding several arrays (structured dtype: one array per field) either offers no completeness report (resume refuses it) or answers for all members.'
    ),
    note="Does not decide value equality of a resumed run (needs execution); zarr's nchunks_initialized and write atomicity are trusted.",
    design="DESIGN.md §4 C09",
)

PROPS["C10"] = dict(
    technique="static analysis: ownership/freshness of plan objects (no attribute or item store on a non-fresh plan object), copy-before-mutate on plan graphs, counter typestate of the name generators, who-may-delete",
    text=(
        "Decides that outside constructors no field of an Array, Plan, PrimitiveOperation, BlockwiseSpec, "
        "CubedArrayProxy or CubedPipeline is assigned or mutated in place on an object the function did not "
        "create, that every function mutating a plan graph works on a copy (including the resume marks on the "
        "lru_cache-shared frozen graph), that generated names grow monotonically from a single-writer counter, "
        "and that the only deletion in library code removes the per-process context directory. The one "
        "function that violates the ownership rule (_store_array, lazy-source branch) is a reproduced known "
        "finding. API-call histories are unbounded; the rule covers all of them through the sites that can "
        "change a built array."
    ),
    note="Task-side purity (inputs never modified) is decided under C06 (TASK-PURE-1, WRITE-REGION-1). Does not decide arbitrary histories beyond the effects of these sites.",
    design="DESIGN.md §4 C10",
)
PROPS["C20"] = dict(
    technique="static analysis: name-generator format and merge-point inspection (identity by generated name), counter typestate, per-process context directory",
    text=(
        "Decides the identity clause: node identity in nx.compose_all is the generated name, so either names "
        "carry a per-process token or the merge point must detect two different nodes under one name. Both "
        "are visible in the shape of gensym() and arrays_to_dag(). Today neither holds (reproduced known "
        "finding F9); any further generator or merge point that breaks uniqueness is reported separately. "
        "Also decides that counters are monotone single-writer and that intermediate data lives under a "
        "per-process uuid directory."
            " CONTEXT_ID may not be inherited from the environment, intermediate data always lives under it, and spec compatibility is by value (a deserialised equal spec combines with local arrays). Spec.__eq__ compares settings field by field (never whole instance dictionaries, which cached properties pollute), and the resume decision stores nothing on objects that travel in a pickle (RESUME-PURE-1)."
    ),
    note="Does not decide pickling fidelity of closures or lru_cache behaviour after unpickling (needs execution).",
    design="DESIGN.md §4 C20",
)

PROPS["C12"] = dict(
    technique="static analysis: provenance (def-use) of the declared shape/dtype/chunks and of the backing array object through the op constructors and the primitive",
    text=(
        "Decides the provenance half of the property: CoreArray reads shape/dtype/chunks once from the "
        "backing array it is given and never reassigns them; both op constructors wrap exactly the target "
        "array the primitive created from the (shape, dtype, chunks) triple they computed, with shape derived "
        "from those chunks; multiple outputs are paired positionally; and no code swaps the backing array "
        "afterwards (the one site that does, _store_array, is known finding F5)."
            " Identity-copy operations (BlockView, store) declare chunks derived from the source's actual block sizes (.chunks), never the nominal chunk size. A dtype/chunks/shape declared for an operation from one of its own operands is read from the operand as passed, not from a local alias taken before the operand variable was rebound (META-STALE-1)."
            ' META-PAIR-1: declared chunks that were normalised are normalised against the declared shape itself.'
    ),
    note=(
        "Does NOT decide the second half — that every block a function returns has the shape of its region, "
        "nor result-dtype rules: those are facts about NumPy results with no shape-of-code oracle "
        "(DESIGN.md §4 C12)."
    ),
    design="DESIGN.md §4 C12",
)

PROPS["C18"] = dict(
    technique="static analysis: single-merge-point who-may-call + dominance of the spec check, for-all shape of the check, field coverage of Spec.__eq__, origin of the budget arguments, unit table / raise-path analysis of the size parser",
    text=(
        "Decides that plan graphs can be merged only in arrays_to_dag, where check_array_specs over the same "
        "sequence dominates the merge, and that Plan._new / arrays_to_plan (hence every operation constructor, "
        "compute, plan, visualize) go through it — so no present or future function can combine arrays with "
        "different specs without bypassing these functions, which the who-may-call part forbids; that the "
        "check is a whole-object for-all equality raising ValueError; that every Spec constructor parameter "
        "takes part in __eq__; that allowed_mem/reserved_mem given to the primitives are exactly the checked "
        "spec's; and that the size parser uses decimal SI exponents and raises on every other form."
            ' EXEC-EQ-1: every executor keeps its constructor options in `kwargs`, which is what DagExecutor.__eq__ (and through it Spec.__eq__) compares.'
    ),
    note="Does not decide exactness of float parsing for integers above 2**53 given as strings (arithmetic fact, noted in DESIGN.md).",
    design="DESIGN.md §4 C18",
)
PROPS["C19"] = dict(
    technique="static analysis: origin (def-use) of the spec argument at every library call of a creation function; single resolution point; who-may-read of storage/executor settings",
    text=(
        "Decides that every helper array an operation creates internally receives a spec originating from "
        "an operand's .spec, the function's own spec parameter or check_array_specs(...) — the condition "
        "under which 'default' and 'explicit but equal' configurations accept the same expressions — that a "
        "missing spec is resolved only through spec_from_config(config), and (thorough tier) that "
        "work_dir / store / compressor / executor settings are only forwarded to storage construction and "
        "never branch an operation builder. Two call sites violated the first rule and were repaired "
        "(F2 searchsorted, F10 asarray)."
            " Intermediate data goes to the explicit store or to join_path(<work dir>, CONTEXT_ID) — never to a directory shared between sessions — and the spec check is by value (so an equal spec built elsewhere combines)."
    ),
    note="Value equality under different configurations is not decided (needs execution); allowed_mem/reserved_mem may legitimately change acceptance.",
    design="DESIGN.md §4 C19",
)

PROPS["C02"] = dict(
    technique="static analysis: must-pass-through guards on the fusion predicates' CFGs, provenance (def-use) table of every field of a fused operation, re-wiring and copy-before-mutate rules, sibling agreement of the nested dispatchers",
    text=(
        "Decides the eligibility, re-wiring and provenance logic of both optimisers: every path to a truthy "
        "result of can_fuse_predecessors / can_fuse passes the guards 'requested arrays stay materialised' and "
        "'multi-output producers are not fused'; the per-predecessor flag implies primitive op and single "
        "consumer and both consumers pass None for unflagged predecessors; removal happens only under the flag "
        "and the removed op's incoming edges are inherited; optimisation works on copies; and each "
        "value-relevant field of a fused operation (task set, target, write/read proxies, source names, "
        "predecessor key/function dictionaries) has the origin it must have. Guard and provenance facts hold "
        "for every graph shape; the suite optimises a few dozen graphs."
    ),
    note="Does NOT decide that composed key/block functions are extensionally equal to the unfused ones (needs execution or proof). fusable_* declarations are not armed (they encode cost, not correctness).",
    design="DESIGN.md §4 C02",
)

PROPS["C03"] = dict(
    technique="static analysis: polynomial (linear-form) abstract interpretation of the memory model against the property's formula, origin analysis of the model's operands, max-join structure of fused projections, streaming discipline of block iterators, unit (dimension) check of declared extra memory",
    text=(
        "Decides the model-consistency part: calculate_projected_mem, evaluated as a polynomial, has "
        "coefficients >= those of the formula in the property text; the primitive feeds it all operand arrays "
        "(largest chunk), the maximum over all outputs, the caller's extra memory and reserved memory; a fused "
        "operation reports max(successor, peak over all fused predecessors) with a peak model that allocates "
        "every predecessor fully and frees at most projected - result; variable-length block groups are handed "
        "over as iterators and consumed one block at a time through fusion; declared extra memory has unit "
        "bytes (thorough tier)."
            " Also: what a streaming reduction carries between blocks is reduced again in the same iteration (bounded accumulator), and array_memory(<dtype>, <own output chunks>) uses the operation's output dtype (MEM-DTYPE-1). No container outlives an iteration of the block loop with per-block data in it, and extra memory declared from an operand's chunk size is computed from the operand as passed, not from a value taken before the operand variable was rebound (MEM-STALE-1)."
            " MULTI-EDGE-1: operand counts that feed the fusion limits walk edges (one per operand position), never networkx's set-valued neighbour views; CHUNKMEM-1: every provider of `chunkmem` (which chunk_memory() trusts) returns the memory of a whole chunk, never a total divided by a count."
    ),
    note=(
        "Does NOT decide that a task's real allocations stay under the bound (NumPy temporaries, codec "
        "buffers, adequacy of each extra_projected_mem declaration): that is a runtime quantity no static "
        "argument in reach bounds (DESIGN.md §4 C03)."
    ),
    design="DESIGN.md §4 C03",
)

PROPS["C05"] = dict(
    technique="static analysis: def-use of the written region and write target in the task body, common-origin of storage chunks / write-proxy chunks / task grid in the primitive, guard-dominance for caller-supplied targets",
    text=(
        "Decides the layout part: the task body stores only into write proxies from config.writes_map, into "
        "the region key_to_slices(<its own coordinates>, proxy.array, proxy.chunks), by plain assignment and "
        "without reading the target; in the primitive the storage chunk size, the write-proxy chunk size and "
        "the task enumeration come from one normalised grid per output (tasks <-> write chunks is a bijection; "
        "outputs with different block counts are refused); fused operations keep the successor's grid; and a "
        "caller-supplied storage array becomes a target only behind a shards/chunks compatibility guard — the "
        "missing chunks guard in _store_array is reproduced known finding F6."
            " Rechunk copies: the irregular storage grid is split_chunks(shape, copy chunks, target chunks) and the regular planner re-aligns copy chunks per stage against the chunks they are written to (RECHUNK-GRID-1); the shard guard rechunks to the compared attribute. Array proxies open their current array on every call and keep no handle (PROXY-OPEN-1): the store operation re-points proxies in place."
    ),
    note="Does not decide that split_chunks/_fix_copy_chunks produce aligned grids for every rechunk geometry (arithmetic, see C14) nor zarr's own write atomicity.",
    design="DESIGN.md §4 C05",
)
PROPS["C06"] = dict(
    technique="static analysis: effect closure over the task-reachable function set (registered block/key/selection functions and callees), freshness analysis of in-place mutations, seed provenance of generators, open-or-create mode constants",
    text=(
        "Removes the schedule from the question: everything a task can execute (the task body, ~140 "
        "registered block / key / selection / combine functions, fusion wrappers and their callees) is shown "
        "free of process-global writes, ambient nondeterminism, spawning and in-place mutation of objects it "
        "did not create; it writes only its own region with plain stores; random blocks are keyed by "
        "root seed + block offset, both task parameters; arrays are created open-or-create and nothing "
        "reachable from a task deletes data. Then any order, repetition or placement yields the same chunks."
            " The process executor ships each task with its own call's serialised function/input/kwargs, with no state shared between calls; the input shipped is the per-task element of the batch and the function is the factory's own argument (PICKLE-PAIR-1)."
    ),
    note="User-supplied callables are outside the closure; bit-identical NumPy kernels across processes, cloudpickle fidelity and zarr write atomicity are assumed.",
    design="DESIGN.md §4 C06",
)
PROPS["C11"] = dict(
    technique="static analysis: return-path provenance of _store_array (one fresh operation per pair), raise-dominance of the rejection guards, guard on the eager branch, target compatibility guard",
    text=(
        "Decides the call-shape part: store pairs sources, targets and regions one-to-one and every "
        "non-None target must get a freshly built blockwise/general_blockwise operation bound to that call's "
        "target (the in-place branch returning the shared source is reproduced known finding F5); length, "
        "type, region-without-target, alignment and shape rejections are ValueErrors that precede operation "
        "construction; execution happens only under `compute` over all built arrays; targets whose chunking "
        "differs from the source's need a compatibility guard (known finding F6)."
            " Also: the writing operation is marked non-fusable on the operation object itself (STORE-NOFUSE-1) and region block offsets divide each axis' start by that axis' chunk size. Fused operations keep the successor's no-fuse mark (FUSE-PROV-1; F12, fixed), proxies keep no open handle (PROXY-OPEN-1), and the task iterable of a region store can be walked more than once."
    ),
    note="Does not decide the copied values nor sentinel preservation outside the region (needs execution).",
    design="DESIGN.md §4 C11",
)

PROPS["C01"] = dict(
    technique="static analysis: alignment taint (array operands from different parameters must pass unify_chunks/broadcast before a shared-coordinate sink), key-name and block-id plumbing agreement, proxy name chain",
    text=(
        "Narrow claim. Decides three structural clauses that are necessary for value equality with NumPy: "
        "(1) in every function reachable from the public namespaces, arrays deriving from two different "
        "array parameters (or from a sequence-of-arrays parameter) reach a shared-block-coordinate sink only "
        "after unify_chunks / broadcast_arrays, and the aligning blockwise really unifies; (2) every array a "
        "key function names in a ChunkKey is an operand of the operation that registers it; (3) block ids "
        "travel through the offsets array appended last, read and stripped last, and decoded with the same "
        "grid. The one violation of (1), stack(), was reproduced (wrong values) and repaired (F1)."
            " Added after independent seeding: sibling agreement of the streaming reduction's concatenation order (ACCUM-ORDER-1), role consistency of twin before/after branches (TWIN-ROLE-1), stale pre-unification aliases, and (thorough tier) dimension analysis of block/element index arithmetic (UNITS-1)."
    ),
    note=(
        "Does NOT decide the arithmetic of block mappings (off-by-one, rounding, tree-reduction rounds, "
        "combine functions, dtype casts): numerical correctness over shapes x chunkings x dtypes is not a "
        "shape-of-code fact (DESIGN.md §4 C01). groupby_reduction (not in the public namespaces) is noted, not judged."
    ),
    design="DESIGN.md §4 C01",
)
PROPS["C15"] = dict(
    technique="static analysis: sibling agreement of the three structure-preserving dispatchers, output-name and key-name provenance, ordered dispatch of every argument, proxy name chain, block-id plumbing",
    text=(
        "Decides the structure part of blockwise addressing: the dispatchers map a list to a list and an "
        "iterator to a lazy iterator, rebuild FunctionArgs under the input element's own name, pass through "
        "names that have no predecessor function in both the key and the function dispatcher (indexed by the "
        "same array name), are applied to every positional argument in order, keep generator-ness of the "
        "outer function; predecessor key/function dictionaries are filled together from writes_map keys; "
        "input names, storage objects and read proxies are zipped strictly in operand order; key functions "
        "name only operands of their operation."
            " Each key of a list/stream is mapped through the predecessor function looked up under that key's own name (no per-collection caching), and index-notation coordinate maps are bound by argument position, not array name."
    ),
    note="Does NOT decide the index algebra itself (_get_coord_mapping, lol_product, flattening): combinatorial arithmetic, not a shape-of-code fact.",
    design="DESIGN.md §4 C15",
)
PROPS["C17"] = dict(
    technique="static analysis: classification of every assert / raise AssertionError by the origin of its condition, alignment taint and key-name agreement (failures that would otherwise surface inside tasks)",
    text=(
        "Partial. Decides that no `assert` whose condition reads operand geometry (shape/chunks/numblocks/"
        "ndim/len of an operand sequence) and no `raise AssertionError` is reachable in library code outside "
        "narrowing/internal-invariant uses — the property demands ValueError/TypeError/NotImplementedError/"
        "IndexError there — and that the two structural causes of mid-run failures visible in the code "
        "(unaligned operands at a shared-coordinate sink, key functions naming a non-operand) are absent. "
        "scan()'s geometry assert is reproduced known finding F7."
            " Also: a division by the length of an operand-derived sequence is protected against the empty case (DIVZERO-1), and chunk metadata is not read from an alias taken before unify_chunks. HOIST-1: every raise/assert in a registered block, key, selection or combine function is guarded by something the task's own block decides — a refusal that reads only build-time values (closure variables of the builder, option parameters) is reported: the builder could have refused before anything ran."
    ),
    note="Does NOT decide completeness of each function's argument validation against NumPy's domain (no code-shape oracle for what should have been validated).",
    design="DESIGN.md §4 C17",
)

PROPS["C14"] = dict(
    technique="static analysis: keyword-argument provenance (def-use/taint) at the planner call, path enumeration over the stage loop with the last-stage test decided as a linear form, sibling agreement of the two consumers of the stage generator, loop-boundedness and recursion-guard rules over the call-graph closure of the planning code",
    text=(
        "Narrow claim: the plumbing around the rechunk planners, not their arithmetic. Decides that _rechunk_plan hands the "
        "planner the operand's own chunking as source, the requested chunking as target, the operand's shape and item size, "
        "and a budget (allowed_mem - reserved_mem) // (number of chunk copies incl. read and write buffer copies); that with "
        "allow_irregular=False the stages come from the regular planner; that on every path through the stage loop the "
        "closing copy of the last stage is written with the *requested* chunking (the last-stage test is checked to be "
        "index == len(stages) - 1 as a linear form) and a stage's read / intermediate / write chunkings keep their roles; "
        "that rechunk (which executes the stages) and rechunk_plan (which reports them) forward the same arguments to the "
        "same generator and pass each (copy, target) pair to the copy constructor in that order; that the regular copy "
        "path stores with the chunks asked for; that the regular planner re-aligns its copy chunks for every stage count "
        "tried and the irregular storage grid is the common refinement of copy and target grids (RECHUNK-GRID-1); and that "
        "every loop reachable from the planning entry points iterates a finite collection its body does not grow, no "
        "`while` loop can go round without changing what its exit tests read, and the only recursion (multspace) is an "
        "exchange of two arguments under a strict comparison. These hold for every geometry because they are facts about "
        "which value flows where, not about the values."
    ),
    note=(
        "Does NOT decide the planner's integer arithmetic: that consolidate_chunks stays within max_mem, that geometric "
        "intermediate chunks fit the budget, that _fix_copy_chunks' rounding yields multiples, that the search returns "
        "before MAX_STAGES, or that values are preserved. Those clauses quantify over an unbounded geometry domain and need "
        "enumeration or a solver (other families). Termination is decided as 'no unbounded loop construct', which is "
        "sufficient for the loops present (all `for` over finite sequences)."
    ),
    design="DESIGN.md §4 C14 (revised in §11.9)",
)

CLAIMED = sorted(PROPS)

NOT_APPLICABLE: dict = {}
