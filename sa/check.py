"""CLI:  python -m sa.check <PROP> [--tier quick|thorough] | --replay <path> | --all

Exit codes: 0 property held on everything analysed (or only known findings);
1 violation (prints ``VIOLATION property=<id> replay=<path>``); 2 analysis error.
"""

from __future__ import annotations

import argparse
import json
import os
import sys
import traceback

from . import AnalysisError
from .index import Repo
from .runner import run_property, write_evidence, write_replay


def check_one(prop: str, tier: str, seed: int, repo: Repo | None = None, quiet=False) -> int:
    import time

    t0 = time.time()
    repo = repo or Repo()
    res = run_property(repo, prop, tier)
    res.wall_s = time.time() - t0
    extra = None
    if tier == "thorough":
        from .selftest import run_selftest

        extra = {"selftest": run_selftest(prop, seed)}
        res.wall_s = time.time() - t0
    path = write_evidence(repo, res, seed, extra)
    if not quiet:
        n_ok = sum(1 for o in res.obs if o.ok)
        print(
            f"[{prop}] tier={tier} rules={len(res.rules_run)} obligations={len(res.obs)} "
            f"discharged={n_ok} known={len(res.known)} violations={len(res.violations)} "
            f"wall={res.wall_s:.2f}s evidence={path}"
        )
        for rid, v in res.rules_run.items():
            print(
                f"  {rid:<20} instances={v['instances']:<4} floor={v['floor']:<3} "
                f"exceptions={v['exceptions']} known={v['known_findings']} violations={v['violations']}"
            )
    by_id: dict[str, list] = {}
    for o, k in res.known:
        by_id.setdefault(k.get("id", "?"), []).append((o, k))
    for fid, items in by_id.items():
        k = items[0][1]
        where = "; ".join(f"{o.rule} {o.construct} ({o.loc})" for o, _ in items)
        print(f"KNOWN-FINDING: property={prop} [{fid}] {k.get('what', '')} -- at: {where}")
    for i, o in enumerate(res.violations):
        rp = write_replay(res, i, o)
        print(f"VIOLATION property={prop} replay={rp}")
        print(f"  {o.loc} {o.rule} {o.construct}: {o.msg}")
        print(f"  key={o.key}")
    for e in res.errors:
        # (only together with a violation; otherwise run_property raised and main() exits 2)
        print(f"ANALYSIS-ERROR: {e}")
    return 1 if res.violations else 0


def replay(path: str) -> int:
    with open(path) as f:
        r = json.load(f)
    repo = Repo()
    res = run_property(repo, r["property"], "thorough", only_rules={r["rule"]})
    hits = [o for o in res.violations if o.key == r["key"]] or [
        o for o in res.violations if o.construct == r["construct"] and o.rule == r["rule"]
    ]
    if hits:
        for o in hits:
            print(f"VIOLATION property={r['property']} replay={path}")
            print(f"  {o.loc} {o.rule} {o.construct}: {o.msg}")
        return 1
    print(f"replay: {r['rule']} {r['construct']} no longer violated")
    return 0


def main(argv=None) -> int:
    ap = argparse.ArgumentParser()
    ap.add_argument("prop", nargs="?")
    ap.add_argument("--tier", default=os.environ.get("VERIF_TIER") or "quick")
    ap.add_argument("--replay")
    ap.add_argument("--all", action="store_true")
    a = ap.parse_args(argv)
    seed = int(os.environ.get("VERIF_SEED", "0") or 0)
    tier = a.tier if a.tier in ("quick", "thorough") else "quick"
    try:
        if a.replay:
            return replay(a.replay)
        if a.all:
            from .props import CLAIMED

            repo = Repo()
            rc = 0
            for p in CLAIMED:
                rc = max(rc, check_one(p, tier, seed, repo))
            return rc
        if not a.prop:
            ap.error("property id required")
        return check_one(a.prop, tier, seed)
    except AnalysisError as e:
        print(f"ANALYSIS-ERROR: {e}")
        return 2
    except Exception:  # never let a traceback masquerade as a violation (exit 1)
        print("ANALYSIS-ERROR: internal error in the checker")
        traceback.print_exc()
        return 2


if __name__ == "__main__":
    sys.exit(main())
