"""Writes sa/reference_calls.json: for every function of the package on the *reference* tree
(the tree the rules were confirmed on by reading), the names of the private package functions
it calls.  `python -m sa.mkreference` regenerates it from /repo's working tree; do that only
after re-confirming the rules on the new tree.

The table decides nothing about cubed.  It separates two readings of "a shape rule did not
find what it looks for in function f":  f is as it was when the rule was confirmed (the thing
is gone: VIOLATION), or f now delegates to a private helper the rule was never confirmed
against (the thing may have moved there: ANALYSIS-ERROR, not decided)."""

from __future__ import annotations

import ast
import json
import os

from .index import Def, Repo

PATH = os.path.join(os.path.dirname(os.path.abspath(__file__)), "reference_calls.json")


def private_callees(repo: Repo, d: Def) -> set[str]:
    """names of private (underscore, non-dunder) package functions called in d's own body"""
    out: set[str] = set()
    for c in d.own_nodes():
        if isinstance(c, ast.Call):
            for t in repo.resolve_call(c, d, d.module):
                if t.kind == "def" and t.ref.is_func and t.ref.name.startswith("_") and not t.ref.name.startswith("__") and t.ref is not d:
                    out.add(t.ref.name)
    return out


def family(d: Def) -> list[Def]:
    """d, the functions nested in it, and the functions it is nested in"""
    fam = [d]
    stack = [d]
    while stack:
        x = stack.pop()
        for ch in list(x.children.values()) + list(getattr(x, "lambdas", [])):
            if ch.is_func and ch not in fam:
                fam.append(ch)
                stack.append(ch)
    p = d.parent
    while p is not None:
        if p.is_func and p not in fam:
            fam.append(p)
        p = p.parent
    return fam


def build(repo: Repo) -> dict[str, list[str]]:
    table: dict[str, list[str]] = {}
    for d in repo.functions():
        if "#" in d.qual:
            continue
        pc = private_callees(repo, d)
        if pc:
            table[d.qual] = sorted(pc)
    return table


_REF: list[dict] = []


def reference() -> dict[str, list[str]]:
    if not _REF:
        with open(PATH) as f:
            _REF.append(json.load(f)["calls"])
    return _REF[0]


def new_private_callees(repo: Repo, qual: str) -> list[str]:
    """private helpers that `qual` (or a function nested in / enclosing it) calls on the
    analysed tree and that the reference table does not list for that function"""
    d = repo.defs.get(qual)
    if d is None or not d.is_func:
        return []
    ref = reference()
    new: set[str] = set()
    for x in family(d):
        if "#" in x.qual:
            # lambdas are not keyed in the table: count their calls with the enclosing function
            continue
        have = set(ref.get(x.qual, ()))
        new |= private_callees(repo, x) - have
        for lam in getattr(x, "lambdas", []):
            new |= private_callees(repo, lam) - have
    return sorted(n for n in new if not _listed_for_family(ref, d, n))


def _listed_for_family(ref, d: Def, name: str) -> bool:
    return any(name in ref.get(x.qual, ()) for x in family(d))


if __name__ == "__main__":
    repo = Repo()
    t = build(repo)
    import subprocess

    head = subprocess.run(["git", "-C", repo.root, "rev-parse", "HEAD"], capture_output=True, text=True).stdout.strip()
    with open(PATH, "w") as f:
        json.dump({"reference_commit": head, "note": "private package functions each function calls on the reference tree; see sa/mkreference.py", "calls": t}, f, indent=1, sort_keys=True)
    print(f"{len(t)} functions with private callees written to {PATH}")
