"""Component C: reaching definitions on the CFG, origins (roots) and taint."""

from __future__ import annotations

import ast
from dataclasses import dataclass

from .cfg import CFG, cfg_of
from .index import Def, Repo, attr_chain, walk_own


@dataclass(frozen=True)
class DefSite:
    name: str
    node: int  # cfg node id (entry for params)
    kind: str  # param assign aug for with import def except walrus unpack del
    value: ast.AST | None  # RHS for assign/aug/walrus; iter for `for`; ctx expr for with
    index: tuple = ()  # position path for tuple unpacking

    def __repr__(self):
        return f"<{self.kind} {self.name}@{self.node}>"


def _targets(t: ast.AST, path=()):
    """Yield (Name, index_path) for an assignment target."""
    if isinstance(t, ast.Name):
        yield t, path
    elif isinstance(t, (ast.Tuple, ast.List)):
        for i, e in enumerate(t.elts):
            yield from _targets(e, path + (i,))
    elif isinstance(t, ast.Starred):
        yield from _targets(t.value, path + ("*",))
    # Attribute / Subscript targets define no local name


class Flow:
    def __init__(self, repo: Repo, d: Def):
        self.repo = repo
        self.d = d
        self.cfg: CFG = cfg_of(d)
        self.sites: dict[int, list[DefSite]] = {}
        self._collect()
        self._solve()
        # comprehension-bound names: id(Name load node) -> (iter expr, index path)
        self.comp_bind: dict[int, tuple[ast.AST, tuple]] = {}
        self._collect_comps()

    def _collect_comps(self) -> None:
        def visit(node, env):
            if isinstance(node, (ast.ListComp, ast.SetComp, ast.GeneratorExp, ast.DictComp)):
                env = dict(env)
                for g in node.generators:
                    visit(g.iter, env)
                    for nm, path in _targets(g.target):
                        env[nm.id] = (g.iter, path)
                    for c in g.ifs:
                        visit(c, env)
                for e in ([node.key, node.value] if isinstance(node, ast.DictComp) else [node.elt]):
                    visit(e, env)
                return
            if isinstance(node, (ast.FunctionDef, ast.AsyncFunctionDef, ast.Lambda, ast.ClassDef)) and node is not self.d.node:
                return
            if isinstance(node, ast.Name) and isinstance(node.ctx, ast.Load) and node.id in env:
                self.comp_bind[id(node)] = env[node.id]
            for ch in ast.iter_child_nodes(node):
                visit(ch, env)

        visit(self.d.node, {})

    # -- definition sites ------------------------------------------------------
    def _add(self, nid: int, site: DefSite) -> None:
        self.sites.setdefault(nid, []).append(site)

    def _collect(self) -> None:
        c = self.cfg
        for p in self.d.params:
            self._add(c.entry, DefSite(p, c.entry, "param", None))
        for n in c.nodes:
            st = n.stmt
            if st is None:
                continue
            if n.kind == "stmt":
                if isinstance(st, ast.Assign):
                    for t in st.targets:
                        for nm, path in _targets(t):
                            self._add(n.id, DefSite(nm.id, n.id, "unpack" if path else "assign", st.value, path))
                elif isinstance(st, ast.AnnAssign):
                    if isinstance(st.target, ast.Name) and st.value is not None:
                        self._add(n.id, DefSite(st.target.id, n.id, "assign", st.value))
                elif isinstance(st, ast.AugAssign):
                    if isinstance(st.target, ast.Name):
                        self._add(n.id, DefSite(st.target.id, n.id, "aug", st))
                elif isinstance(st, (ast.Import, ast.ImportFrom)):
                    for a in st.names:
                        nm = (a.asname or a.name).split(".")[0]
                        self._add(n.id, DefSite(nm, n.id, "import", None))
                elif isinstance(st, (ast.FunctionDef, ast.AsyncFunctionDef, ast.ClassDef)):
                    self._add(n.id, DefSite(st.name, n.id, "def", None))
                elif isinstance(st, ast.Delete):
                    for t in st.targets:
                        if isinstance(t, ast.Name):
                            self._add(n.id, DefSite(t.id, n.id, "del", None))
                # walrus inside any simple statement
                for sub in walk_own(st, include_root=True):
                    if isinstance(sub, ast.NamedExpr) and isinstance(sub.target, ast.Name):
                        self._add(n.id, DefSite(sub.target.id, n.id, "walrus", sub.value))
            elif n.kind == "for":
                for nm, path in _targets(st.target):
                    self._add(n.id, DefSite(nm.id, n.id, "for", st.iter, path))
            elif n.kind == "with":
                for it in st.items:
                    if it.optional_vars is not None:
                        for nm, path in _targets(it.optional_vars):
                            self._add(n.id, DefSite(nm.id, n.id, "with", it.context_expr, path))
            elif n.kind == "except":
                if st.name:
                    self._add(n.id, DefSite(st.name, n.id, "except", st.type))
            elif n.kind in ("if", "while"):
                for sub in walk_own(st.test, include_root=True):
                    if isinstance(sub, ast.NamedExpr) and isinstance(sub.target, ast.Name):
                        self._add(n.id, DefSite(sub.target.id, n.id, "walrus", sub.value))

    def _solve(self) -> None:
        c = self.cfg
        N = len(c.nodes)
        self.IN: list[frozenset] = [frozenset()] * N
        OUT: list[frozenset] = [frozenset()] * N
        work = list(range(N))
        inwork = set(work)
        while work:
            n = work.pop(0)
            inwork.discard(n)
            preds = c.nodes[n].pred
            i = frozenset().union(*[OUT[p] for p in preds]) if preds else frozenset()
            self.IN[n] = i
            sites = self.sites.get(n, [])
            if sites:
                killed = {s.name for s in sites if s.kind != "aug"} | {
                    s.name for s in sites if s.kind == "aug"
                }
                o = frozenset(x for x in i if x.name not in killed) | frozenset(sites)
            else:
                o = i
            if o != OUT[n]:
                OUT[n] = o
                for s, _ in c.nodes[n].succ:
                    if s not in inwork:
                        work.append(s)
                        inwork.add(s)
        self.OUT = OUT

    # -- queries -------------------------------------------------------------------
    def rdefs(self, name: str, at: int) -> list[DefSite]:
        """Definitions of ``name`` reaching the *start* of cfg node ``at``."""
        return [s for s in self.IN[at] if s.name == name]

    def rdefs_at(self, name: ast.Name | str, ctx_node: ast.AST) -> list[DefSite]:
        nm = name.id if isinstance(name, ast.Name) else name
        return self.rdefs(nm, self.cfg.node_of(ctx_node))

    def is_local(self, name: str) -> bool:
        return any(s.name == name for ss in self.sites.values() for s in ss)

    # -- roots: what a value *is* ----------------------------------------------------
    def roots(self, e: ast.AST, at: int | None = None, depth: int = 12, _seen=None) -> set[str]:
        """Shallow origins of the value of expression ``e`` evaluated at cfg node ``at``.

        Root descriptors (strings):  ``param:x``, ``param:x.attr.attr``, ``call:<qual>``,
        ``const:<repr>``, ``new:<kind>`` (display/comprehension), ``global:<qual>``,
        ``free:<name>`` (closure variable), ``elem(<root>)``, ``unknown``.
        """
        if at is None:
            at = self.cfg.node_of(e)
        if _seen is None:
            _seen = set()
        if depth <= 0:
            return {"unknown"}
        R = lambda x, a=at: self.roots(x, a, depth - 1, _seen)
        if isinstance(e, ast.Constant):
            return {f"const:{e.value!r}"}
        if isinstance(e, ast.Name):
            if id(e) in self.comp_bind:
                it, path = self.comp_bind[id(e)]
                src = it
                # for a, b in zip(xs, ys): a ← elem(xs), b ← elem(ys)
                if path and isinstance(it, ast.Call) and isinstance(it.func, ast.Name) and it.func.id == "zip" and isinstance(path[0], int) and path[0] < len(it.args) and len(path) == 1:
                    src = it.args[path[0]]
                    path = ()
                if isinstance(it, ast.Call) and isinstance(it.func, ast.Name) and it.func.id == "enumerate" and path == (1,) and it.args:
                    src = it.args[0]
                    path = ()
                base = self.roots(src, at, depth - 1, _seen)
                if path:
                    return {f"item(elem({r}))" for r in base}
                return {f"elem({r})" for r in base}
            sites = self.rdefs(e.id, at)
            if not sites:
                if self.is_local(e.id):
                    return {"unknown"}
                return self._nonlocal_root(e.id)
            out: set[str] = set()
            for s in sites:
                k = (s.name, s.node, s.kind)
                if k in _seen:
                    continue
                _seen.add(k)
                if s.kind == "param":
                    out.add(f"param:{s.name}")
                elif s.kind in ("assign", "walrus"):
                    out |= self.roots(s.value, s.node, depth - 1, _seen)
                elif s.kind == "aug":
                    out.add("new:expr")
                elif s.kind == "unpack":
                    src = self._unpack_source(s)
                    if src is not None:
                        out |= self.roots(src, s.node, depth - 1, _seen)
                    else:
                        out |= {f"item({r})" for r in self.roots(s.value, s.node, depth - 1, _seen)}
                elif s.kind == "for":
                    src, path = s.value, s.index
                    # for a, b in zip(xs, ys): b ← elem(ys); for i, x in enumerate(xs): x ← elem(xs)
                    if path and isinstance(src, ast.Call) and isinstance(src.func, ast.Name):
                        if src.func.id == "zip" and isinstance(path[0], int) and path[0] < len(src.args) and not any(isinstance(a, ast.Starred) for a in src.args):
                            src, path = src.args[path[0]], path[1:]
                        elif src.func.id == "enumerate" and path[0] == 1 and src.args:
                            src, path = src.args[0], path[1:]
                    base = self.roots(src, s.node, depth - 1, _seen)
                    if path:
                        out |= {f"item(elem({r}))" for r in base}
                    else:
                        out |= {f"elem({r})" for r in base}
                elif s.kind == "with":
                    out |= {f"ctx({r})" for r in self.roots(s.value, s.node, depth - 1, _seen)}
                elif s.kind in ("def",):
                    out.add(f"def:{self.d.qual}.{s.name}")
                elif s.kind == "import":
                    out |= self._nonlocal_root(s.name)
                else:
                    out.add("unknown")
                _seen.discard(k)
            return out or {"unknown"}
        if isinstance(e, ast.Attribute):
            base = R(e.value)
            out = set()
            for r in base:
                if r.startswith(("param:", "free:", "global:", "elem(", "item(", "call:", "attr(")):
                    out.add(f"{r}.{e.attr}")
                else:
                    out.add(f"attr({r}).{e.attr}")
            return out
        if isinstance(e, ast.Call):
            out = set()
            if (
                getattr(self, "copies_transparent", False)
                and isinstance(e.func, ast.Name)
                and e.func.id in ("list", "tuple", "sorted", "reversed", "iter")
                and len(e.args) == 1
                and not isinstance(e.args[0], ast.Starred)
                and not self.is_local(e.func.id)
            ):
                # (opt-in, for rules that ask where the *elements* come from: a shallow copy of
                # a collection holds the same elements)
                return {f"copy({r})" for r in R(e.args[0])}
            for t in self.repo.resolve_call(e, self.d, self.d.module):
                if t.kind in ("def", "ext", "builtin", "class"):
                    out.add(f"call:{t.qual}")
                elif t.kind in ("method", "method?"):
                    base = R(e.func.value) if isinstance(e.func, ast.Attribute) else {"unknown"}
                    for r in base:
                        out.add(f"mcall({r}).{t.ref}")
                elif t.kind == "param":
                    out.add(f"pcall:{t.ref}")
                else:
                    out.add("unknown")
            return out or {"unknown"}
        if isinstance(e, ast.Subscript):
            return {f"item({r})" for r in R(e.value)}
        if isinstance(e, ast.Starred):
            return {f"elem({r})" for r in R(e.value)}
        if isinstance(e, ast.IfExp):
            return R(e.body) | R(e.orelse)
        if isinstance(e, ast.BoolOp):
            out = set()
            for v in e.values:
                out |= R(v)
            return out
        if isinstance(e, ast.NamedExpr):
            return R(e.value)
        if isinstance(e, (ast.List, ast.Tuple, ast.Set)):
            out = {"new:seq"}
            for x in e.elts:
                out |= {f"in({r})" for r in R(x)}
            return out
        if isinstance(e, ast.Dict):
            return {"new:dict"}
        if isinstance(e, (ast.ListComp, ast.SetComp, ast.GeneratorExp)):
            return {"new:comp"} | {f"in({r})" for r in R(e.elt)}
        if isinstance(e, ast.DictComp):
            return {"new:comp"}
        if isinstance(e, (ast.BinOp, ast.UnaryOp, ast.Compare, ast.JoinedStr)):
            return {"new:expr"}
        if isinstance(e, ast.Lambda):
            return {"new:lambda"}
        if isinstance(e, ast.Await):
            return R(e.value)
        return {"unknown"}

    def _unpack_source(self, s: DefSite) -> ast.AST | None:
        v = s.value
        for i in s.index:
            if isinstance(v, (ast.Tuple, ast.List)) and isinstance(i, int) and i < len(v.elts):
                v = v.elts[i]
            else:
                return None
        return v

    def _nonlocal_root(self, name: str) -> set[str]:
        t = self.repo.resolve_name(name, self.d, self.d.module)
        if t.kind == "def":
            return {f"def:{t.qual}"}
        if t.kind in ("module", "ext", "builtin"):
            return {f"{t.kind}:{t.qual}"}
        if t.kind == "global":
            return {f"global:{t.qual}"}
        if t.kind in ("local", "param"):
            return {f"free:{t.ref}"}
        return {"unknown"}

    # -- taint: which parameters a value derives from --------------------------------
    def taint(self, e: ast.AST, at: int | None = None, depth: int = 8, _seen=None, through_calls=True) -> set[str]:
        """Names of parameters / free variables from which ``e`` derives (through calls,
        attributes, subscripts, displays, comprehensions, arithmetic)."""
        if at is None:
            at = self.cfg.node_of(e)
        if _seen is None:
            _seen = set()
        out: set[str] = set()
        if depth <= 0:
            return {"?"}
        comp_bound: set[str] = set()
        for n in ast.walk(e):
            if isinstance(n, ast.comprehension):
                for nm, _ in _targets(n.target):
                    comp_bound.add(nm.id)
        for n in walk_own(e, include_root=True):
            if isinstance(n, ast.Name) and isinstance(n.ctx, ast.Load):
                if n.id in comp_bound:
                    continue
                sites = self.rdefs(n.id, at)
                if not sites:
                    if not self.is_local(n.id):
                        t = self.repo.resolve_name(n.id, self.d, self.d.module)
                        if t.kind in ("local", "param"):
                            out.add(f"free:{n.id}")
                    continue
                work = list(sites)
                while work:
                    s = work.pop()
                    k = (s.name, s.node, s.kind)
                    if k in _seen:
                        continue
                    _seen.add(k)
                    if s.kind == "param":
                        out.add(s.name)
                    elif s.kind in ("assign", "walrus", "unpack", "for", "with"):
                        if s.value is not None:
                            out |= self.taint(s.value, s.node, depth - 1, _seen)
                    elif s.kind == "aug":
                        out |= self.taint(s.value.value, s.node, depth - 1, _seen)
                        work.extend(self.rdefs(s.name, s.node))
        return out


_flow_cache: dict[int, Flow] = {}


def flow_of(repo: Repo, d: Def) -> Flow:
    k = id(d.node)
    f = _flow_cache.get(k)
    if f is None:
        f = Flow(repo, d)
        _flow_cache[k] = f
    return f
