#!/venv/bin/python
"""Give the kept candidates of a seeding round their round ids: tools/verify_round.py files a kept
candidate under the next free numeric id; this renames /verif/seeded/<that id> to <Cxx>-<letter><k>
(k = the candidate's number in the round, letter = the round's letter) and fixes meta.json["id"].

usage: rename_round.py <round dir> <letter>
"""
import json
import os
import re
import sys

SEEDED = "/verif/seeded"


def main():
    rd, letter = sys.argv[1], sys.argv[2]
    for prop in sorted(os.listdir(rd)):
        pd = os.path.join(rd, prop)
        if not os.path.isdir(pd):
            continue
        for f in sorted(os.listdir(pd)):
            m = re.fullmatch(r"verify(\d+)\.log", f)
            if not m:
                continue
            txt = open(os.path.join(pd, f)).read()
            first = txt.splitlines()[0] if txt else ""
            if not first.startswith("id=") or " kept " not in txt:
                continue
            old, new = first[3:].strip(), f"{prop}-{letter}{m.group(1)}"
            src, dst = os.path.join(SEEDED, old), os.path.join(SEEDED, new)
            if os.path.isdir(src) and not os.path.exists(dst):
                mp = os.path.join(src, "meta.json")
                meta = json.load(open(mp))
                if meta.get("id") != old:
                    continue  # not the directory this log wrote
                os.rename(src, dst)
                meta["id"] = new
                meta["filed_as_during_verification"] = old
                json.dump(meta, open(os.path.join(dst, "meta.json"), "w"), indent=1)
                print(old, "->", new)


if __name__ == "__main__":
    main()
