#!/venv/bin/python
"""Run the registered quick checks against every kept seeded change *the documented way*:
git -C /repo apply <patch>; run the checks of meta.check_properties; git -C /repo checkout -- .
(/repo must be clean; nothing else may be reading /repo meanwhile).  Prints one line per change
and restores /repo after each one, also on error."""
import json
import os
import subprocess
import sys

SEEDED, REPO = "/verif/seeded", "/repo"


def main():
    st = subprocess.run(["git", "-C", REPO, "status", "--porcelain", "--untracked-files=no"], capture_output=True, text=True).stdout.strip()
    if st:
        print("/repo has uncommitted changes to tracked files; refusing", st)
        return 2
    bad = 0
    for sid in sorted(os.listdir(SEEDED)):
        d = os.path.join(SEEDED, sid)
        if not os.path.exists(os.path.join(d, "meta.json")):
            continue
        meta = json.load(open(os.path.join(d, "meta.json")))
        props = meta.get("check_properties", [meta["property"]])
        try:
            a = subprocess.run(["git", "-C", REPO, "apply", os.path.join(d, "patch.diff")], capture_output=True, text=True)
            if a.returncode != 0:
                print(f"{sid:<8} patch does not apply: {a.stderr.strip()[:100]}")
                bad += 1
                continue
            outs = []
            for p in props:
                r = subprocess.run(["/venv/bin/python", "-m", "sa.check", p], cwd="/verif", capture_output=True, text=True)
                outs.append((p, r.returncode, [l for l in r.stdout.splitlines() if l.startswith("VIOLATION")]))
        finally:
            subprocess.run(["git", "-C", REPO, "checkout", "--", "."], check=True)
        fired = [p for p, rc, v in outs if rc == 1 and v]
        broken = [p for p, rc, v in outs if rc not in (0, 1)]
        status = "caught" if fired else ("analysis-error" if broken else "missed")
        ok = (status == "caught") == (meta.get("expect", "caught") == "caught")
        print(f"{sid:<8} {status:<15} by={','.join(fired) or '-':<14} expect={meta.get('expect')} {'OK' if ok else '<<< MISMATCH'}")
        bad += 0 if ok else 1
    # leave the evidence of the unchanged tree behind
    subprocess.run(["/venv/bin/python", "-m", "sa.check", "--all"], cwd="/verif", capture_output=True)
    return 1 if bad else 0


if __name__ == "__main__":
    sys.exit(main())
