#!/venv/bin/python
"""Apply a whole-tree transform of sa.selftest to a scratch copy and run every rule on it,
one rule at a time, printing what is reported.  Development aid for rule robustness."""
import shutil
import sys
import tempfile

sys.path.insert(0, "/verif")
kind = sys.argv[1] if len(sys.argv) > 1 else "rename-locals"
only = set(sys.argv[2:])
from sa import AnalysisError, rules  # noqa: E402,F401
from sa.index import Repo  # noqa: E402
from sa.runner import RULES, run_property  # noqa: E402
from sa.selftest import _copy_pkg, _transform  # noqa: E402

root = tempfile.mkdtemp(prefix="verif-probe-")
try:
    _copy_pkg(root)
    _transform(root, kind)
    repo = Repo(root=root)
    bad = 0
    for rid, sp in RULES.items():
        if only and rid not in only:
            continue
        p = sp.props[0]
        try:
            res = run_property(repo, p, "thorough", only_rules={rid})
            for o in res.violations:
                bad += 1
                print("VIOL", p, o.rule, o.construct, "|", o.msg[:170])
        except AnalysisError as e:
            bad += 1
            print("AERR", p, rid, str(e)[:220])
        except Exception as e:  # noqa: BLE001
            bad += 1
            print("CRASH", p, rid, repr(e)[:220])
    print("problems:", bad)
finally:
    shutil.rmtree(root, ignore_errors=True)
